# scratch stub for exploration only
from bisect import bisect_left, bisect_right
from collections import namedtuple
class _NS:
    def __repr__(self): return 'NOT_SET'
NOT_SET=_NS()
class MappedRange:
    __slots__=('start','stop','value')
    def __init__(self,start,stop,value): self.start=start;self.stop=stop;self.value=value
    def __iter__(self):
        yield self.start; yield self.stop; yield self.value
    def __repr__(self): return 'MappedRange(%r,%r,%r)'%(self.start,self.stop,self.value)
def _check(start,stop):
    if start is not None and stop is not None and stop<=start: raise ValueError('stop must be > start')
class RangeMap:
    def __init__(self):
        self._keys=[None]; self._values=[NOT_SET]
    def ranges(self,start=None,stop=None):
        _check(start,stop)
        if start is None: sl=1
        else: sl=bisect_right(self._keys,start,lo=1)
        if stop is None: el=len(self._keys)
        else: el=bisect_left(self._keys,stop,lo=1)
        sv=self._values[sl-1]
        ck=[start]+self._keys[sl:el]+[stop]
        cv=[sv]+self._values[sl:el]
        for i,v in enumerate(cv):
            if v is not NOT_SET:
                yield MappedRange(ck[i],ck[i+1],v)
    def _set(self,value,start,stop):
        _check(start,stop)
        if start is None: sl=1
        else: sl=bisect_left(self._keys,start,lo=1)
        if stop is None: el=len(self._keys); endval=NOT_SET
        else:
            el=bisect_right(self._keys,stop,lo=1); endval=self._values[el-1]
        prev=self._values[sl-1]
        nk=[];nv=[]
        if start is None:
            self._values[0]=value; 
        elif prev!=value or prev is NOT_SET and value is not NOT_SET:
            nk.append(start);nv.append(value)
        if stop is not None and (endval is not value and endval!=value or (endval is NOT_SET) != (value is NOT_SET)):
            nk.append(stop);nv.append(endval)
        self._keys[sl:el]=nk; self._values[sl:el]=nv
    def set(self,value,start=None,stop=None): self._set(value,start,stop)
    def delete(self,start=None,stop=None):
        _check(start,stop)
        # must be fully mapped
        cov=list(self.ranges(start,stop))
        pos=start
        for r in cov:
            if r.start!=pos: raise KeyError((start,stop))
            pos=r.stop
        if pos!=stop or not cov: raise KeyError((start,stop))
        self._set(NOT_SET,start,stop)
    def empty(self,start=None,stop=None): self._set(NOT_SET,start,stop)
