#!/venv/bin/python
"""atheris (libFuzzer) target for C15: uri.from_string on arbitrary bytes with the canonical re-serialisation oracle *inside* the target.
Usage: cap_parse.py <artifact_dir> <corpus_dir> [-runs=N -seed=S ...]   (run by props/c15_caps_roundtrip.py in the thorough tier)"""
import sys, os
here = os.path.dirname(os.path.dirname(os.path.abspath(__file__)))
sys.path[:0] = [os.path.join(here, ".deps"), here]
import atheris

with atheris.instrument_imports(include=["allmydata.uri", "allmydata.util.base32", "allmydata.util.netstring"]):
    from allmydata import uri  # noqa

from vf.core import Ctx, Violation
from props import c15_caps_roundtrip as c15


class _Ctx:
    """Minimal context: oracle failures raise (libFuzzer then saves the input as a crash artifact)."""
    known = []

    def check(self, cond, kind, msg, **kw):
        if not cond:
            raise Violation(kind, msg, kw)

    def fail(self, kind, msg, **kw):
        raise Violation(kind, msg, kw)


CTX = _Ctx()


def TestOneInput(data):
    c15.parse_oracle(CTX, bytes(data), [])


if __name__ == "__main__":
    art, corpus = sys.argv[1], sys.argv[2]
    os.makedirs(art, exist_ok=True)
    argv = [sys.argv[0], "-dict=" + os.path.join(here, "fuzz", "caps.dict"), "-artifact_prefix=" + art.rstrip("/") + "/", "-max_len=200", "-print_final_stats=1"] + sys.argv[3:] + [corpus]
    atheris.Setup(argv, TestOneInput)
    atheris.Fuzz()
