#!/usr/bin/env python3
"""Regenerate MANIFEST.json from the props/ modules (module-level constants
ID, LEVEL, TECHNIQUE, LEVEL_TEXT, LEVEL_NOTE, DESIGN_REF) and properties.jsonl."""
import ast, json, os, sys
HOME = os.path.dirname(os.path.dirname(os.path.abspath(__file__)))
PENDING = json.load(open(os.path.join(HOME, "tools", "not_applicable.json"))) if os.path.exists(os.path.join(HOME, "tools", "not_applicable.json")) else {}

def consts(path):
    out = {}
    tree = ast.parse(open(path).read())
    for node in tree.body:
        if isinstance(node, ast.Assign) and len(node.targets) == 1 and isinstance(node.targets[0], ast.Name):
            try:
                out[node.targets[0].id] = ast.literal_eval(node.value)
            except Exception:
                pass
    return out

props = [json.loads(l) for l in open(os.path.join(HOME, "properties.jsonl"))]
mods = {}
for f in sorted(os.listdir(os.path.join(HOME, "props"))):
    if f.endswith(".py") and f[0] == "c" and f[1:3].isdigit():
        c = consts(os.path.join(HOME, "props", f))
        if "ID" in c and not c.get("DISABLED"):
            mods[c["ID"]] = c
checks, na = [], []
for p in props:
    pid = p["id"]
    c = mods.get(pid)
    if not c:
        na.append({"property_id": pid, "reason": PENDING.get(pid, "no check built yet in this round (planned in DESIGN.md section 2); not claimed")})
        continue
    checks.append({
        "property_id": pid,
        "quick_cmd": "./check %s --tier quick" % pid,
        "thorough_cmd": "./check %s --tier thorough" % pid,
        "evidence_file": "evidence/%s.json" % pid,
        "replay_cmd_template": "./check %s --replay {path}" % pid,
        "engine": c.get("ENGINE", "E0 pure"),
        "level_claimed": {"category": c["LEVEL"], "text": c.get("LEVEL_TEXT", c.get("RULE", "")), "design_ref": "DESIGN.md section 2 / %s" % pid},
        "level_note": c.get("LEVEL_NOTE", "; ".join(c.get("ASSUMPTIONS", [])) or "search, not proof: holds on everything generated"),
        "technique": c.get("TECHNIQUE", "property-based testing (Hypothesis) against a reference model"),
    })
m = {
    "version": 1,
    "setup_cmd": "(/venv/bin/python -c 'import hypothesis' 2>/dev/null || /venv/bin/pip install --no-index --find-links /opt/veriftools/wheels hypothesis) && (test -d .deps/atheris || /venv/bin/pip install -q --no-index --find-links /opt/veriftools/wheels --target .deps atheris || true)",
    "hooks": {
        "guard": "TAHOE_LAFS_VERIF",
        "enable": "checks import /repo/src directly (PYTHONPATH=/repo/src, no build step); ./check exports TAHOE_LAFS_VERIF=1 but no hook commits exist: all interception (reactor, clock, urandom, file-mutation tracing) is installed from the harness",
        "baseline_off_cmd": "cd /repo && env -u TAHOE_LAFS_VERIF /venv/bin/python -m pytest -ra -q -p no:cacheprovider --timeout=900 --continue-on-collection-errors",
        "source_commits": [],
        "add_only": True,
    },
    "engines": [
        {"name": "E0 pure", "path": "vf/core.py", "kind_free_text": "Hypothesis / exhaustive enumeration over direct calls into pure modules"},
        {"name": "E1 store", "path": "vf/store.py", "kind_free_text": "real StorageServer on a scratch dir, fake clock, simulated disk, crash injector"},
        {"name": "E2 detgrid", "path": "vf/grid.py", "kind_free_text": "in-process client+servers grid on MemoryReactorClock with generator-owned message scheduler and fault plans"},
    ],
    "checks": checks,
    "not_applicable": na,
    "notes": "Every check: ./check <ID> [--tier quick|thorough] [--replay file]; exit 0 held, 1 VIOLATION, 2 harness error/inconclusive. VERIF_SEED respected. See DESIGN.md.",
}
for e in m["engines"]:
    e["serves_properties"] = [c["property_id"] for c in checks if c["engine"].startswith(e["name"].split()[0])]
json.dump(m, open(os.path.join(HOME, "MANIFEST.json"), "w"), indent=1)
print("checks:", len(checks), "not_applicable:", len(na))
try:
    import jsonschema
    jsonschema.validate(m, json.load(open("/root/.vp/MANIFEST.schema.json")))
    print("manifest valid")
except ImportError:
    print("(jsonschema not available here)")
