mk_mut () 
{ 
    name=$1;
    file=$2;
    shift 2;
    wt=/tmp/mm/$name;
    rm -rf $wt;
    mkdir -p /tmp/mm;
    git -C /repo worktree add -q --detach $wt HEAD;
    ( cd $wt && python3 - "$file" "$@" <<'EOF'
import sys
f=sys.argv[1]; old=sys.argv[2]; new=sys.argv[3]
s=open(f).read(); assert s.count(old)>=1, "pattern not found"; s=s.replace(old,new,1); open(f,'w').write(s)
EOF
 )
    mkdir -p /verif/selftest/mutants/$name;
    git -C $wt diff > /verif/selftest/mutants/$name/patch.diff;
    git -C /repo worktree remove --force $wt;
    wc -l /verif/selftest/mutants/$name/patch.diff
}
mk_mut "$@"
