#!/bin/bash
# tools/seed_sweep.sh  -- run every confirmed seeded change against the quick check of its property; writes seeded/RESULTS.md
cd "$(dirname "$0")/.."
out=seeded/RESULTS.md
echo "# Seeded changes vs. the quick check of their property (exit 1 = caught)" > $out
echo >> $out
echo "| seed | property | check exit | first finding | what the change does |" >> $out
echo "|---|---|---|---|---|" >> $out
for d in $(ls seeded | grep -v RESULTS); do
  p=$(python3 -c "import json;print(json.load(open('seeded/$d/meta.json')).get('property','$d')[:3])" 2>/dev/null || echo ${d:0:3})
  res=$(tools/try_seed.sh $d $p 2>&1)
  rc=$(echo "$res" | grep -E "^== " | head -1 | sed 's/.*exit //')
  kind=$(echo "$res" | grep -E "^  " | head -1 | sed 's/^  //' | cut -d: -f1)
  summ=$(python3 -c "import json;print(json.load(open('seeded/$d/meta.json')).get('summary','')[:160].replace('|','/').replace('\n',' '))" 2>/dev/null)
  echo "| $d | $p | $rc | $kind | $summ |" >> $out
  echo "$d $p exit=$rc $kind"
  if [ "$rc" != "1" ]; then
    for q in $(python3 -c "import json;print(' '.join(json.load(open('seeded/$d/meta.json')).get('also_try',[])))" 2>/dev/null); do
      res2=$(tools/try_seed.sh $d $q 2>&1)
      rc2=$(echo "$res2" | grep -E "^== " | head -1 | sed 's/.*exit //')
      kind2=$(echo "$res2" | grep -E "^  " | head -1 | sed 's/^  //' | cut -d: -f1)
      echo "| $d | $q (other property) | $rc2 | $kind2 | |" >> $out
      echo "$d $q exit=$rc2 $kind2"
    done
  fi
done
