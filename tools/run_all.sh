#!/bin/bash
# tools/run_all.sh [tier]  -- run every registered check once (seed from VERIF_SEED, default 1) and print one line per check
tier="${1:-quick}"
cd "$(dirname "$0")/.."
for id in $(python3 -c "import json;print(' '.join(c['property_id'] for c in json.load(open('MANIFEST.json'))['checks']))"); do
  s=$(date +%s); out=$(./check $id --tier $tier 2>&1); rc=$?; e=$(date +%s)
  echo "$id rc=$rc $((e-s))s $(echo "$out" | grep -E "^$id tier" | sed 's/.*evaluations/evaluations/')"
  [ $rc -ne 0 ] && echo "$out" | grep -E "VIOLATION|HARNESS|^  " | head -3 | cut -c1-300
done
