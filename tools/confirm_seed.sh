#!/bin/bash
# tools/confirm_seed.sh <ID> [srcdir]  -- independently confirm a seeded change produced by a sub-agent
# in /tmp/wt/<ID>/_seeded (patch.diff, demo.py, meta.json); on success store it under /verif/seeded/<ID>/.
set -u
id="$1"; tag="${3:-$id}"; src="${2:-/tmp/wt/$id/_seeded}"
wt=/tmp/cf/$tag
rm -rf "$wt"; mkdir -p /tmp/cf
git -C /repo worktree add -q --detach "$wt" HEAD || exit 2
run_demo() { (cd "$wt" && PYTHONPATH=$wt/src:/verif/shims timeout 600 /venv/bin/python "$src/demo.py" >/tmp/cf/$tag.demo.$1.log 2>&1; echo $?); }
un=$(run_demo unpatched)
if ! git -C "$wt" apply "$src/patch.diff"; then echo "$tag: PATCH DOES NOT APPLY"; git -C /repo worktree remove --force "$wt"; exit 1; fi
pa=$(run_demo patched)
tests=$(cd "$wt" && env -u TAHOE_LAFS_VERIF /venv/bin/python -m pytest -q -p no:cacheprovider --timeout=900 --continue-on-collection-errors 2>&1 | tail -1)
git -C /repo worktree remove --force "$wt"
echo "$tag: demo unpatched=$un patched=$pa tests: $tests"
if [ "$un" = "0" ] && [ "$pa" != "0" ] && echo "$tests" | grep -q "151 passed"; then
  mkdir -p /verif/seeded/$tag && cp "$src/patch.diff" "$src/demo.py" /verif/seeded/$tag/
  /venv/bin/python - "$src/meta.json" /verif/seeded/$tag/meta.json "$un" "$pa" "$tests" <<'PY'
import json,sys
try: m=json.load(open(sys.argv[1]))
except Exception as e: m={"meta_error":str(e)}
m["confirmed_by_main"]={"demo_exit_unpatched":int(sys.argv[3]),"demo_exit_patched":int(sys.argv[4]),"baseline_tests_with_patch":sys.argv[5],
  "how":"fresh worktree of /repo HEAD under /tmp/cf; PYTHONPATH=<wt>/src:/verif/shims /venv/bin/python demo.py before and after `git apply patch.diff`; then the BASELINE pytest command in the patched worktree; worktree removed"}
json.dump(m,open(sys.argv[2],"w"),indent=1)
PY
  echo "$tag: CONFIRMED -> /verif/seeded/$tag"
else
  echo "$tag: NOT CONFIRMED (see /tmp/cf/$tag.demo.*.log)"; exit 1
fi
