#!/bin/bash
# tools/try_revert.sh <commit> <PROP> [PROP...]  -- run quick checks against a scratch worktree of /repo with <commit> reverted (sensitivity to a fixed defect)
c="$1"; shift
wt=/tmp/ts/rev-$c; rm -rf "$wt"; mkdir -p /tmp/ts
git -C /repo worktree add -q --detach "$wt" HEAD || exit 2
git -C /repo show "$c" | git -C "$wt" apply -R || { echo "cannot revert"; git -C /repo worktree remove --force "$wt"; exit 2; }
for p in "$@"; do
  out=$(cd /verif && VERIF_REPO=$wt ./check $p --tier ${TIER:-quick} 2>&1); rc=$?
  echo "== revert $c vs $p: exit $rc"; echo "$out" | grep -E "VIOLATION|HARNESS|^  " | head -3 | cut -c1-400
done
git -C /repo worktree remove --force "$wt"
cd /verif && git checkout -- evidence 2>/dev/null
