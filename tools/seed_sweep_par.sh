#!/bin/bash
# tools/seed_sweep_par.sh [jobs]  -- like seed_sweep.sh, but runs <jobs> (default 4) properties side by side (seeds of one property stay in one job); writes seeded/RESULTS.md
cd "$(dirname "$0")/.."
jobs="${1:-4}"
tmp=$(mktemp -d /tmp/sweep.XXXXXX)
ls seeded | grep -v RESULTS | sed 's/[bc]$//' | sort -u > $tmp/props
i=0
while read p; do echo $p >> $tmp/chunk$((i % jobs)); i=$((i+1)); done < $tmp/props
one() {
  d="$1"
  p=$(python3 -c "import json;print(json.load(open('seeded/$d/meta.json')).get('property','$d')[:3])" 2>/dev/null || echo ${d:0:3})
  res=$(tools/try_seed.sh $d $p 2>&1)
  rc=$(echo "$res" | grep -E "^== " | head -1 | sed 's/.*exit //')
  kind=$(echo "$res" | grep -E "^  " | head -1 | sed 's/^  //' | cut -d: -f1)
  summ=$(python3 -c "import json;print(json.load(open('seeded/$d/meta.json')).get('summary','')[:160].replace('|','/').replace('\n',' '))" 2>/dev/null)
  echo "| $d | $p | $rc | $kind | $summ |"
  if [ "$rc" != "1" ]; then
    for q in $(python3 -c "import json;print(' '.join(json.load(open('seeded/$d/meta.json')).get('also_try',[])))" 2>/dev/null); do
      res2=$(tools/try_seed.sh $d $q 2>&1)
      rc2=$(echo "$res2" | grep -E "^== " | head -1 | sed 's/.*exit //')
      kind2=$(echo "$res2" | grep -E "^  " | head -1 | sed 's/^  //' | cut -d: -f1)
      echo "| $d | $q (other property) | $rc2 | $kind2 | |"
    done
  fi
}
for j in $(seq 0 $((jobs-1))); do
  ( for p in $(cat $tmp/chunk$j 2>/dev/null); do for d in $p ${p}b ${p}c; do [ -d seeded/$d ] && one $d; done; done > $tmp/out$j ) &
done
wait
out=seeded/RESULTS.md
echo "# Seeded changes vs. the quick check of their property (exit 1 = caught)" > $out
echo >> $out
echo "| seed | property | check exit | first finding | what the change does |" >> $out
echo "|---|---|---|---|---|" >> $out
cat $tmp/out* | sort >> $out
rm -rf $tmp
grep -c "| 1 |" $out
