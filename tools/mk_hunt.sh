#!/bin/bash
# tools/mk_hunt.sh <ID>  -- worktree + prompt for a defect-hunting sub-agent (no source change; looks for a genuine violation on the unchanged tree)
id="$1"; tag="${id}h"
mkdir -p /tmp/wt /tmp/shims; cp -r /verif/shims/* /tmp/shims/
[ -d /tmp/wt/$tag ] || git -C /repo worktree add -q --detach /tmp/wt/$tag HEAD || exit 2
python3 - "$id" "$tag" <<'PY'
import json,sys
id,tag=sys.argv[1:3]
for l in open('/verif/properties.jsonl'):
    p=json.loads(l)
    if p['id']==id: break
text="[%s] %s\n\nStatement: %s\n\nQuantified over: %s\n\nRelevant code: %s\nMechanisms: %s" % (p['id'],p['title'],p['statement'],p['quantifier']['text'],", ".join(p['anchors']['files']),"; ".join("%s (%s)"%(m['name'],m['where']) for m in p['anchors'].get('mechanism',[])))
t=open('/verif/tools/hunt_prompt.tmpl').read().replace('@WT@','/tmp/wt/'+tag).replace('@PROPERTY@',text)
open('/tmp/hunt_prompt_%s.txt'%tag,'w').write(t)
print('/tmp/hunt_prompt_%s.txt'%tag)
PY
