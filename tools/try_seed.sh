#!/bin/bash
# tools/try_seed.sh <seed-dir-name> <PROP> [PROP...]  -- run quick checks against a scratch worktree with the seeded patch applied
tag="$1"; shift
patch=/verif/seeded/$tag/patch.diff; case "$tag" in */*) patch="$tag"; tag=$(basename $(dirname "$tag"))-$(basename "$tag" .diff);; esac
wt=/tmp/ts/$tag; rm -rf "$wt"; mkdir -p /tmp/ts
git -C /repo worktree add -q --detach "$wt" HEAD || exit 2
git -C "$wt" apply "$patch" || { echo "patch does not apply"; git -C /repo worktree remove --force "$wt"; exit 2; }
for p in "$@"; do
  out=$(cd /verif && VERIF_REPO=$wt VERIF_HOME_EVIDENCE_SKIP=1 ./check $p --tier ${TIER:-quick} 2>&1); rc=$?
  echo "== seed $tag vs $p: exit $rc"; echo "$out" | grep -E "VIOLATION|HARNESS|^  " | head -4 | cut -c1-400
done
git -C /repo worktree remove --force "$wt"
# evidence files were rewritten against a patched tree: restore from git
cd /verif && git checkout -- evidence 2>/dev/null
