#!/bin/bash
# tools/mk_agent.sh <ID> [tag]  -- create /tmp/wt/<tag> worktree + /tmp/agent_prompt_<tag>.txt for a seeding sub-agent
id="$1"; tag="${2:-$id}"; avoid="${3:-}"
mkdir -p /tmp/wt /tmp/shims; cp -r /verif/shims/* /tmp/shims/
[ -d /tmp/wt/$tag ] || git -C /repo worktree add -q --detach /tmp/wt/$tag HEAD || exit 2
python3 - "$id" "$tag" "$avoid" <<'PY'
import json,sys
id,tag,avoid=sys.argv[1:4]
for l in open('/verif/properties.jsonl'):
    p=json.loads(l)
    if p['id']==id: break
text="[%s] %s\n\nStatement: %s\n\nQuantified over: %s\n\nRelevant code: %s\nMechanisms: %s" % (p['id'],p['title'],p['statement'],p['quantifier']['text'],", ".join(p['anchors']['files']),"; ".join("%s (%s)"%(m['name'],m['where']) for m in p['anchors'].get('mechanism',[])))
t=open('/verif/tools/agent_prompt.tmpl').read().replace('@WT@','/tmp/wt/'+tag).replace('@PROPERTY@',text).replace('@ID@',id)
if avoid:
    t=t.replace("Deliverables, all inside","Additional constraint: a change inside %s has already been studied -- make yours in a different file (or, if the property leaves no other sensible place, in a clearly different function and mechanism).\n\nDeliverables, all inside" % avoid)
open('/tmp/agent_prompt_%s.txt'%tag,'w').write(t)
print('/tmp/agent_prompt_%s.txt'%tag)
PY
