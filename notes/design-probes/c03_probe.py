import sys; sys.argv=[sys.argv[0]]
exec(open('/tmp/probe/detgrid_probe.py').read().split('if __name__=="__main__":')[0])
from allmydata.util.consumer import download_to_data
from allmydata.interfaces import NotEnoughSharesError, NoSharesError
from allmydata.storage.common import storage_index_to_dir
from allmydata import uri as urimod
import collections, traceback
res=collections.Counter(); ex={}
class FaultWrapper(Wrapper): pass
for case in range(int(sys.argv[1]) if len(sys.argv)>1 else 200):
    rng=random.Random(9000+case)
    k=rng.randint(1,4); N=rng.randint(k,8); seg=rng.choice([16,64,100]); size=rng.randint(56,400)
    ns=rng.randint(1,N+3)
    base=tempfile.mkdtemp(prefix="dg"); sched=Sched(rng)
    parent,up,nm,servers=make_grid(base,ns,sched,{"k":k,"happy":1,"n":N,"max_segment_size":seg})
    data=bytes(rng.getrandbits(8) for _ in range(size))
    try:
        ur=sched.run_until(up.upload(Data(data,convergence=b"x")))
        cap=ur.get_uri(); u=urimod.from_string(cap); sidir=storage_index_to_dir(u.get_storage_index())
        # collect share files
        shares={}
        for i,ss in enumerate(servers):
            d=os.path.join(ss.sharedir,sidir)
            if os.path.isdir(d):
                for f in os.listdir(d): shares.setdefault(int(f),[]).append(os.path.join(d,f))
        blobs={sh:open(ps[0],'rb').read() for sh,ps in shares.items()}
        for ps in shares.values():
            for p in ps: os.unlink(p)
        # new random placement: each share -> 1..2 servers, state good/corrupt/missing
        good=set(); 
        dead=set(i for i in range(ns) if rng.random()<0.2)
        for sh,blob in blobs.items():
            for srv in rng.sample(range(ns), rng.randint(1,min(2,ns))):
                st=rng.choice(["good","good","corrupt","missing"])
                if st=="missing": continue
                d=os.path.join(servers[srv].sharedir,sidir); os.makedirs(d,exist_ok=True)
                b=bytearray(blob)
                if st=="corrupt":
                    pos=rng.randrange(12,len(b)-72)   # within share data (container header 12 bytes, lease 72 at end)
                    b[pos]^=rng.randrange(1,256)
                open(os.path.join(d,str(sh)),'wb').write(bytes(b))
                if st=="good" and srv not in dead: good.add(sh)
        # dead servers: make their wrapper fail every call
        for sid,s in parent.broker.servers.items():
            pass
        srvobjs=sorted(parent.broker.servers.values(), key=lambda s:s.get_serverid())
        # map by order of creation: test_add_rref order == i ; identify via rref.original._server
        for s in parent.broker.servers.values():
            ss=s._rref.original._server
            if servers.index(ss) in dead:
                w=s._rref
                def bad(methname,*a,_w=w,**kw):
                    return sched.enqueue(lambda: (_ for _ in ()).throw(RuntimeError("dead")))
                w.callRemote=bad
        node=nm.create_from_cap(cap)
        G=len(good)
        try:
            got=sched.run_until(download_to_data(node)); outcome="data-ok" if got==data else "WRONGDATA"
        except (NotEnoughSharesError,NoSharesError) as e: outcome=type(e).__name__
        except RuntimeError as e: outcome="HANG" if "HANG" in str(e) else "RT:"+str(e)[:40]
        except Exception as e: outcome="EXC:"+type(e).__name__
        key=("G>=k" if G>=k else "G<k", outcome)
        res[key]+=1; ex.setdefault(key,(case,k,N,ns,sorted(good),sorted(dead)))
    except Exception as e:
        key="SETUP "+type(e).__name__+str(e)[:60]; res[key]+=1; ex.setdefault(key,traceback.format_exc()[-400:])
    shutil.rmtree(base)
for k_,v in sorted(res.items(),key=str): print(v,k_,ex[k_])
