import sys, os, time, random, shutil, tempfile
# --- bootstrap: deterministic reactor + clock before anything imports twisted.internet.reactor
from twisted.internet.testing import MemoryReactorClock
from twisted.internet import main as _main
R = MemoryReactorClock()
R.callFromThread = lambda f,*a,**k: R.callLater(0,f,*a,**k)
_main.installReactor(R)
_real_time=time.time
time.time = lambda: 1_700_000_000.0 + R.seconds()
import allmydata.util.cputhreadpool as ctp
ctp._DISABLED=True
from twisted.internet import defer
from twisted.python.failure import Failure
from foolscap.api import Referenceable, RemoteException
from foolscap import eventual
from allmydata.storage.server import StorageServer, FoolscapStorageServer
from allmydata.storage_client import StorageFarmBroker, _StorageServer
from allmydata.client import SecretHolder, Terminator
from allmydata.immutable.upload import Uploader, Data
from allmydata.nodemaker import NodeMaker
from allmydata.util import base32, hashutil
from allmydata.node import config_from_string
from twisted.application import service
from allmydata.interfaces import SDMF_VERSION

class Sched:
    def __init__(self, rng): self.pending=[]; self.rng=rng; self.delivered=0
    def enqueue(self, fn):
        d=defer.Deferred(); self.pending.append((fn,d)); return d
    def drain_local(self):
        # run all zero-delay calls
        for i in range(100000):
            calls=[c for c in R.getDelayedCalls() if c.getTime()<=R.seconds()]
            if not calls: return
            R.advance(0)
        raise RuntimeError("livelock")
    def step(self):
        self.drain_local()
        if self.pending:
            i=self.rng.randrange(len(self.pending))
            fn,d=self.pending.pop(i); self.delivered+=1
            try: res=fn()
            except Exception: d.errback(Failure(RemoteException(Failure()))); return True
            if isinstance(res, defer.Deferred): res.chainDeferred(d)
            else: d.callback(res)
            return True
        calls=R.getDelayedCalls()
        if calls:
            t=min(c.getTime() for c in calls); R.advance(max(0,t-R.seconds())); return True
        return False
    def run_until(self, d, maxsteps=100000):
        out=[]; d.addBoth(out.append)
        for i in range(maxsteps):
            self.drain_local()
            if out: break
            if not self.step(): break
        self.drain_local()
        if not out: raise RuntimeError("HANG: deferred never fired; pending=%d"%len(self.pending))
        if isinstance(out[0], Failure): out[0].raiseException()
        return out[0]

class Wrapper:
    def __init__(self, original, sched): self.original=original; self.sched=sched; self.disconnectors={}
    def callRemote(self, methname, *args, **kwargs):
        def wrap(a): return Wrapper(a,self.sched) if isinstance(a,Referenceable) else a
        args=tuple(wrap(a) for a in args); kwargs={k:wrap(v) for k,v in kwargs.items()}
        def call():
            res=getattr(self.original,"remote_"+methname)(*args,**kwargs)
            if methname=="allocate_buckets":
                ag,al=res; res=(ag,{k:Wrapper(v,self.sched) for k,v in al.items()})
            if methname=="get_buckets":
                res={k:Wrapper(v,self.sched) for k,v in res.items()}
            return res
        return self.sched.enqueue(call)
    def callRemoteOnly(self,*a,**k): self.callRemote(*a,**k)
    def notifyOnDisconnect(self,f,*a,**k):
        m=object(); self.disconnectors[m]=(f,a,k); return m
    def dontNotifyOnDisconnect(self,m): del self.disconnectors[m]
    def getDataLastReceivedAt(self): return None

class Parent(service.MultiService):
    def __init__(self, broker, sh, params): 
        service.MultiService.__init__(self); self.broker=broker; self._secret_holder=sh; self.params=params
    def get_encoding_parameters(self): return self.params
    def get_storage_broker(self): return self.broker

def make_grid(basedir, nservers, sched, params):
    cfg=config_from_string(basedir,"client.port","")
    broker=StorageFarmBroker(True, None, cfg)
    servers=[]
    for i in range(nservers):
        nodeid=hashutil.tagged_hash(b"srv",b"%d"%i)[:20]
        ss=StorageServer(os.path.join(basedir,"s%d"%i), nodeid, clock=R)
        ss.setServiceParent(service.MultiService())  # not started: crawlers idle
        fss=FoolscapStorageServer(ss)
        w=Wrapper(fss,sched); w.version=fss.remote_get_version()
        sid=b"v0-"+base32.b2a(hashutil.tagged_hash(b"key",b"%d"%i))
        ann={"anonymous-storage-FURL":"pb://%s@nowhere/fake"%(str(base32.b2a(nodeid),"ascii")),
             "permutation-seed-base32":str(base32.b2a(nodeid),"ascii")}
        broker.test_add_rref(sid,w,ann)
        servers.append(ss)
    sh=SecretHolder(b"lease secret",b"convergence")
    parent=Parent(broker,sh,params)
    up=Uploader(); up.setServiceParent(parent)
    term=Terminator(); term.setServiceParent(parent)
    parent.startService()
    nm=NodeMaker(broker,sh,None,up,term,params,SDMF_VERSION,None,None)
    return parent,up,nm,servers

if __name__=="__main__":
    seed=int(sys.argv[1]) if len(sys.argv)>1 else 1
    rng=random.Random(seed)
    t0=_real_time()
    n=0
    for case in range(30):
        base=tempfile.mkdtemp(prefix="dg")
        sched=Sched(rng)
        k=rng.randint(1,5); N=rng.randint(k,8); happy=rng.randint(1,N)
        seg=rng.choice([1,3,7,64,128,1000,4096])
        ns=rng.randint(happy,N+3)
        size=rng.choice([56,57,100,seg,seg+1,seg*3,seg*3-1,rng.randint(56,5000)])
        size=max(size,56)
        params={"k":k,"happy":happy,"n":N,"max_segment_size":seg}
        parent,up,nm,servers=make_grid(base,ns,sched,params)
        data=bytes(rng.getrandbits(8) for _ in range(size))
        try:
            ur=sched.run_until(up.upload(Data(data,convergence=b"x")))
            cap=ur.get_uri()
            node=nm.create_from_cap(cap)
            from allmydata.util.consumer import download_to_data
            got=sched.run_until(download_to_data(node))
            off=rng.randint(0,size); ln=rng.randint(0,size)
            got2=sched.run_until(download_to_data(node,off,ln))
            assert got==data, "MISMATCH"
            assert got2==data[off:off+ln], "RANGE MISMATCH"
            n+=1
        except Exception as e:
            print("case",case,params,ns,size,"->",type(e).__name__,str(e)[:200])
        shutil.rmtree(base)
    print("ok cases",n,"delivered msgs last",sched.delivered,"wall",_real_time()-t0)
