import sys; sys.argv=[sys.argv[0]]
exec(open('/tmp/probe/detgrid_probe.py').read().split('if __name__=="__main__":')[0])
import hypothesis
from hypothesis import given, settings, strategies as st, seed, HealthCheck, Phase
from allmydata.util.consumer import download_to_data
stats={"n":0,"msgs":0}
class ListSched(Sched):
    def __init__(self, choices): 
        self.pending=[]; self.choices=list(choices); self.i=0; self.delivered=0
        class RNG:
            def randrange(s2, n):
                c=self.choices[self.i] if self.i<len(self.choices) else 0
                self.i+=1; return c % n
        self.rng=RNG()
@seed(7)
@settings(max_examples=60, deadline=None, database=None, suppress_health_check=list(HealthCheck), report_multiple_bugs=False)
@given(k=st.integers(1,4), extra=st.integers(0,4), seg=st.sampled_from([1,3,16,100]), size=st.integers(56,700), choices=st.lists(st.integers(0,50),max_size=200))
def prop(k,extra,seg,size,choices):
    N=k+extra
    base=tempfile.mkdtemp(prefix="dg"); sched=ListSched(choices)
    try:
        parent,up,nm,servers=make_grid(base,N,sched,{"k":k,"happy":1,"n":N,"max_segment_size":seg})
        data=bytes((i*7)%256 for i in range(size))
        ur=sched.run_until(up.upload(Data(data,convergence=b"x")))
        got=sched.run_until(download_to_data(nm.create_from_cap(ur.get_uri())))
        assert got==data
        stats["n"]+=1; stats["msgs"]+=sched.delivered
    finally:
        shutil.rmtree(base)
t=_real_time(); prop(); print(stats, "wall", _real_time()-t)
