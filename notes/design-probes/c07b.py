import itertools, random, sys, collections
from allmydata.immutable import happiness_upload as hu

def maxmatch(adj):  # adj: peer -> set(shares)
    match={}
    def aug(p,seen):
        for s in adj[p]:
            if s in seen: continue
            seen.add(s)
            if s not in match or aug(match[s],seen):
                match[s]=p; return True
        return False
    n=0
    for p in adj:
        if aug(p,set()): n+=1
    return n

def check(peers, ro, shares, p2s):
    try:
        res=hu.share_placement(set(peers)-set(ro), set(ro), set(shares), {k:set(v) for k,v in p2s.items()})
    except Exception as e:
        return ('exc',repr(e))
    if set(res.keys())!=set(shares): return ('incomplete',res)
    for s,p in res.items():
        if p is None: return ('none',res)
        if p not in peers: return ('unknownpeer',res)   # peers includes ro? 
        if p in ro and s not in p2s.get(p,()): return ('ro-violation',res)
    adj={p:(set(shares) if p not in ro else set(p2s.get(p,()))&set(shares)) for p in peers}
    opt=maxmatch(adj)
    got=len(set(res.values()))
    if got<opt: return ('subopt',(got,opt,res))
    return None

random.seed(1)
c=collections.Counter(); ex={}
for t in range(3000):
    np_=random.randint(1,4); ns=random.randint(1,5)
    peers=['p%d'%i for i in range(np_)]
    ro=[p for p in peers if random.random()<0.4]
    if len(ro)==len(peers): ro=ro[1:]
    shares=list(range(ns))
    p2s={}
    for p in peers:
        hs={s for s in shares if random.random()<0.3}
        if hs: p2s[p]=hs
    r=check(peers,ro,shares,p2s)
    k=r[0] if r else 'ok'
    c[k]+=1
    ex.setdefault(k,(peers,ro,shares,p2s,r))
print(c)
for k,v in ex.items(): print(k,v)
