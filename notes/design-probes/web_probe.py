import sys; sys.argv=[sys.argv[0]]
exec(open('/tmp/probe/detgrid_probe.py').read().split('if __name__=="__main__":')[0])
from twisted.internet.testing import StringTransport
from twisted.web.server import Site
from allmydata.web.root import Root
from allmydata.webish import TahoeLAFSRequest, TahoeLAFSSite
from allmydata.history import History
from allmydata.stats import StatsProvider
from allmydata.crypto import rsa
from allmydata.mutable.publish import MutableData
import urllib.parse
rng=random.Random(1)
base=tempfile.mkdtemp(prefix="dg"); sched=Sched(rng)
params={"k":2,"happy":1,"n":3,"max_segment_size":64}
parent,up,nm,servers=make_grid(base,4,sched,params)
keys=[]
class KG:
    def generate(self):
        priv,pub=rsa.create_signing_keypair(2048); return defer.succeed((pub,priv))
nm.key_generator=KG()
class VClient:
    nickname="v"; helper=None
    def __init__(s): s.nodemaker=nm; s.stats_provider=None; s.mutable_file_default=SDMF_VERSION; s.convergence=b"conv"; s._h=None
    def get_history(s): return None
    def get_auth_token(s): return b"token"
    def create_node_from_uri(s,w,r=None,deep_immutable=False,name="x"): return nm.create_from_cap(w,r,deep_immutable=deep_immutable,name=name)
    def create_dirnode(s,initial_children=None,version=None,**k): return nm.create_new_mutable_directory(initial_children or {},version=version)
    def create_immutable_dirnode(s,children,convergence=None): return nm.create_immutable_directory(children,convergence)
    def create_mutable_file(s,contents=None,version=None,**k): return nm.create_mutable_file(contents,version=version)
    def upload(s,u,reactor=None): return up.upload(u)
    def get_encoding_parameters(s): return params
    def get_storage_broker(s): return parent.broker
    def getServiceNamed(s,n): raise KeyError(n)
    def get_web_service(s): raise KeyError()
    def introducer_connection_statuses(s): return []
    def get_long_nodeid(s): return b"n"
    def get_long_tubid(s): return "t"
c=VClient()
try:
    root=Root(c, None, time.time)
except Exception as e:
    import traceback; traceback.print_exc(); raise
site=Site(root, requestFactory=TahoeLAFSRequest)
def http(method, path, headers=(), body=b""):
    proto=site.buildProtocol(None); tr=StringTransport(); proto.makeConnection(tr)
    req=b"%s %s HTTP/1.0\r\n"%(method.encode(),path.encode())
    for k,v in headers: req+=b"%s: %s\r\n"%(k.encode(),v.encode())
    if body: req+=b"Content-Length: %d\r\n"%len(body)
    req+=b"\r\n"+body
    proto.dataReceived(req)
    for i in range(100000):
        sched.drain_local()
        if tr.disconnecting or tr.disconnected: break
        if not sched.step(): break
    raw=tr.value()
    head,_,b=raw.partition(b"\r\n\r\n")
    return head.split(b"\r\n")[0], head, b
data=bytes(range(200))
ur=sched.run_until(up.upload(Data(data,convergence=b"x")))
cap=ur.get_uri().decode()
st,h,b=http("GET","/uri/"+urllib.parse.quote(cap)); print(st, b==data)
st,h,b=http("GET","/uri/"+urllib.parse.quote(cap),[("Range","bytes=10-19")]); print(st, b==data[10:20], [l for l in h.split(b"\r\n") if l.lower().startswith(b"content-")])
st,h,b=http("HEAD","/uri/"+urllib.parse.quote(cap),[("Range","bytes=10-19")]); print(st, b)
st,h,b=http("GET","/uri/"+urllib.parse.quote(cap),[("Range","bytes=500-")]); print(st)
st,h,b=http("POST","/uri?t=mkdir"); print(st,b[:40])
dcap=b.decode()
st,h,b=http("PUT","/uri/"+urllib.parse.quote(dcap)+"/foo.txt",body=b"x"*100); print(st,b[:30])
st,h,b=http("GET","/uri/"+urllib.parse.quote(dcap)+"?t=json"); print(st,b[:120])
ro=nm.create_from_cap(dcap.encode()).get_readonly_uri().decode()
st,h,b=http("PUT","/uri/"+urllib.parse.quote(ro)+"/bar.txt",body=b"y"*100); print(st,b[:60])
st,h,b=http("GET","/uri/"+urllib.parse.quote(ro)+"?t=json"); print(st, b"rw_uri" in b)
