import sys; sys.argv=[sys.argv[0]]
exec(open('/tmp/probe/detgrid_probe.py').read().split('if __name__=="__main__":')[0])
from allmydata.crypto import rsa
from allmydata.mutable.publish import MutableData
from allmydata.interfaces import MDMF_VERSION
t=_real_time()
keys=[]
for i in range(3):
    priv,pub=rsa.create_signing_keypair(2048); keys.append((pub,priv))
print("keygen 3x2048:", _real_time()-t)
try:
    rsa.create_signing_keypair(1024); print("1024 ok")
except Exception as e: print("1024 not allowed:",e)
rng=random.Random(5)
import allmydata.mutable.publish as pubmod
print("MDMF segsize default", getattr(pubmod,'DEFAULT_MUTABLE_MAX_SEGMENT_SIZE',None))
for ver in (SDMF_VERSION, MDMF_VERSION):
    base=tempfile.mkdtemp(prefix="dg"); sched=Sched(rng)
    params={"k":2,"happy":1,"n":4,"max_segment_size":128}
    parent,up,nm,servers=make_grid(base,5,sched,params)
    t=_real_time()
    n=sched.run_until(nm.create_mutable_file(MutableData(b"hello world"*10), version=ver, keypair=keys[0] if ver==SDMF_VERSION else keys[1]))
    print(ver, n.get_uri()[:30], "create", _real_time()-t, "msgs", sched.delivered)
    t=_real_time()
    got=sched.run_until(n.download_best_version()); assert got==b"hello world"*10
    sched.run_until(n.overwrite(MutableData(b"second version")))
    got=sched.run_until(n.download_best_version()); assert got==b"second version", got
    mv=sched.run_until(n.get_best_mutable_version())
    sched.run_until(mv.update(MutableData(b"XYZ"), 3))
    got=sched.run_until(n.download_best_version()); print(got)
    print("ops", _real_time()-t, "msgs", sched.delivered)
    shutil.rmtree(base)
