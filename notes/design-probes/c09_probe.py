import sys; sys.argv=[sys.argv[0]]
exec(open('/tmp/probe/detgrid_probe.py').read().split('if __name__=="__main__":')[0])
from allmydata.crypto import rsa
from allmydata.mutable.publish import MutableData
import allmydata.mutable.publish as pubmod
from allmydata.interfaces import MDMF_VERSION
import collections, traceback
keys=[]
for i in range(4):
    priv,pub=rsa.create_signing_keypair(2048); keys.append((pub,priv))
res=collections.Counter(); examples={}
for case in range(int(sys.argv[1]) if len(sys.argv)>1 else 150):
    rng=random.Random(1000+case)
    seg=rng.choice([6,8,10,16,33,64])
    pubmod.DEFAULT_MUTABLE_MAX_SEGMENT_SIZE=seg
    ver=rng.choice([SDMF_VERSION,MDMF_VERSION])
    k=rng.randint(1,3); N=rng.randint(k,5)
    base=tempfile.mkdtemp(prefix="dg"); sched=Sched(rng)
    parent,up,nm,servers=make_grid(base,N+1,sched,{"k":k,"happy":1,"n":N,"max_segment_size":128})
    size=rng.choice([0,1,seg-1,seg,seg+1,2*seg,2*seg+3,4*seg,4*seg+1,5*seg-1,8*seg,rng.randint(0,10*seg)])
    model=bytearray(rng.getrandbits(8) for _ in range(size))
    hist=[("create",ver,seg,k,N,size)]
    try:
        n=sched.run_until(nm.create_mutable_file(MutableData(bytes(model)),version=ver,keypair=keys[case%4]))
        for step in range(rng.randint(1,6)):
            op=rng.choice(["update","update","update","overwrite","read"])
            if op=="update":
                off=rng.choice([0,len(model),max(0,len(model)-1),min(len(model),seg),min(len(model),seg-1 if seg>1 else 0),rng.randint(0,len(model))])
                ln=rng.choice([0,1,seg,seg+1,2*seg,3*seg+1,rng.randint(0,4*seg)])
                d=bytes(rng.getrandbits(8) for _ in range(ln))
                hist.append(("update",off,ln))
                mv=sched.run_until(n.get_best_mutable_version())
                sched.run_until(mv.update(MutableData(d),off))
                model[off:off+ln]=d
            elif op=="overwrite":
                ln=rng.randint(0,6*seg); d=bytes(rng.getrandbits(8) for _ in range(ln)); hist.append(("overwrite",ln))
                sched.run_until(n.overwrite(MutableData(d))); model=bytearray(d)
            got=sched.run_until(n.download_best_version())
            if got!=bytes(model):
                res["MISMATCH"]+=1; examples.setdefault("MISMATCH",(hist,len(got),len(model))); break
        else: res["ok"]+=1
    except Exception as e:
        key=type(e).__name__+":"+str(e)[:60]
        res[key]+=1; examples.setdefault(key,(hist,traceback.format_exc()[-600:]))
    shutil.rmtree(base)
print(res)
for k_,v in examples.items(): print(k_,v)
