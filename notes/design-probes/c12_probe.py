import sys; sys.argv=[sys.argv[0]]
exec(open('/tmp/probe/detgrid_probe.py').read().split('if __name__=="__main__":')[0])
from allmydata.crypto import rsa
from allmydata.mutable.publish import MutableData
from allmydata.mutable.common import UncoordinatedWriteError, NotEnoughServersError
from allmydata.interfaces import MDMF_VERSION
import collections, traceback, struct
priv,pub=rsa.create_signing_keypair(2048)
res=collections.Counter(); ex={}
def make_client(broker_servers, sched, params, base, idx):
    pass
for case in range(int(sys.argv[1]) if len(sys.argv)>1 else 100):
    rng=random.Random(500+case)
    ver=rng.choice([SDMF_VERSION,MDMF_VERSION])
    k=rng.randint(1,3); W=2; N=rng.choice([k, 2*k, (W+1)*k, (W+1)*k+1]); N=max(N,k); N=min(N,10)
    ns=rng.randint(max(1,N//2),N+1)
    base=tempfile.mkdtemp(prefix="dg"); sched=Sched(rng)
    params={"k":k,"happy":1,"n":N,"max_segment_size":128}
    parent,up,nm,servers=make_grid(base,ns,sched,params)
    # second client sharing the same broker (same servers), separate nodemaker => separate node objects
    nm2=NodeMaker(parent.broker,SecretHolder(b"lease2",b"c2"),None,up,None,params,SDMF_VERSION,None,None)
    try:
        n1=sched.run_until(nm.create_mutable_file(MutableData(b"v0"*20),version=ver,keypair=(pub,priv)))
        n2=nm2.create_from_cap(n1.get_uri())
        d1=n1.overwrite(MutableData(b"AAAA"*10)); d2=n2.overwrite(MutableData(b"BBBB"*10))
        out={}
        d1.addBoth(lambda r: out.__setitem__(1,r)); d2.addBoth(lambda r: out.__setitem__(2,r))
        for i in range(100000):
            sched.drain_local()
            if len(out)==2: break
            if not sched.step(): break
        def cls(r):
            if isinstance(r,Failure): return r.type.__name__
            return "ok"
        o=(cls(out.get(1,"HANG")),cls(out.get(2,"HANG")))
        nm3=NodeMaker(parent.broker,SecretHolder(b"l3",b"c3"),None,up,None,params,SDMF_VERSION,None,None)
        n3=nm3.create_from_cap(n1.get_uri())
        try:
            got=sched.run_until(n3.download_best_version()); g=got[:2]
        except Exception as e: g=type(e).__name__
        key=(o,g if isinstance(g,str) else bytes(g), (W+1)*k<=N)
        res[key]+=1; ex.setdefault(key,(ver,k,N,ns))
    except Exception as e:
        key="EXC "+type(e).__name__+str(e)[:80]; res[key]+=1; ex.setdefault(key,traceback.format_exc()[-500:])
    shutil.rmtree(base)
for k_,v in sorted(res.items(), key=str): print(v,k_,ex[k_])
