import os, sys, time, tempfile, struct, shutil
from twisted.internet.testing import MemoryReactorClock
from twisted.internet import main as _main
R=MemoryReactorClock(); _main.installReactor(R)
import allmydata.util.cputhreadpool as ctp; ctp._DISABLED=True
# D7
from allmydata import uri
from allmydata.immutable.filenode import ImmutableFileNode
from allmydata.nodemaker import NodeMaker
from allmydata.client import SecretHolder
from allmydata.interfaces import SDMF_VERSION
k=os.urandom(16); h=os.urandom(32)
u=uri.CHKFileURI(k,h,3,10,1234)
a=ImmutableFileNode(u,None,None,None,None); b=ImmutableFileNode(uri.from_string(u.to_string()),None,None,None,None)
print("D7 imm: a==b",a==b,"a!=b",a!=b)
params={"k":3,"n":10,"happy":7,"max_segment_size":1000}
nm1=NodeMaker(None,SecretHolder(b"x",b"y"),None,None,None,params,SDMF_VERSION,None,None)
nm2=NodeMaker(None,SecretHolder(b"x",b"y"),None,None,None,params,SDMF_VERSION,None,None)
d=uri.DirectoryURI(uri.WriteableSSKFileURI(k,h)).to_string()
x=nm1.create_from_cap(d); y=nm2.create_from_cap(d)
print("D7 dir: same cap, distinct objects: x==y",x==y, "uris equal", x.get_uri()==y.get_uri())
# D6
from allmydata.frontends.sftpd import OverwriteableFileConsumer
import io
class F(io.BytesIO):
    def close(self): pass
orig=bytes(range(20))
c=OverwriteableFileConsumer(len(orig), lambda: F())
c.overwrite(0,b"A"*10); c.overwrite(2,b"B"*3)
c.write(orig)   # whole download arrives
c.f.seek(0); got=c.f.read()
model=bytearray(orig); model[0:10]=b"A"*10; model[2:5]=b"B"*3
print("D6 sftp:", got==bytes(model), got[:12], bytes(model)[:12])
# D5
from allmydata.storage.server import StorageServer
base=tempfile.mkdtemp()
now=[1_700_000_000.0]
import allmydata.storage.expirer as exp, allmydata.storage.lease as lease
class T: 
    @staticmethod
    def time(): return now[0]
exp.time=T; lease.time=T
ss=StorageServer(base,b"\x00"*20,expiration_enabled=True,expiration_mode="age",clock=R)
R.advance(0)
class C:
    def seconds(self): return now[0]
    def callLater(self,*a,**k): return R.callLater(*a,**k)
ss._clock=C()
ag,bw=ss.allocate_buckets(b"s"*16,b"r"*32,b"c"*32,{0},10); bw[0].write(0,b"x"*10); bw[0].close()
now[0]+=400*24*3600   # 400 days later: lease (31 days) long expired
lc=ss.lease_checker
import glob
sf=glob.glob(base+"/shares/*/*/0")[0]
wks=lc.process_share(sf)
print("D5 gc age-mode no override, 400 days later: share still exists:", os.path.exists(sf), wks)
# D10
from allmydata.introducer.client import IntroducerClient
from allmydata.introducer.common import sign_to_foolscap
from allmydata.crypto import ed25519
from twisted.python.filepath import FilePath
ic=IntroducerClient(None,"pb://x@y/z","nick","v","o",lambda: (1,"n"),FilePath(base).child("cache.yaml"))
got=[]
ic.subscribe_to("storage", lambda key,ann: got.append((key,ann.get("seqnum"))))
sk,vk=ed25519.create_signing_keypair()
good=sign_to_foolscap({"service-name":"storage","seqnum":1,"nickname":"a"},sk)
bad=(good[0],None,None)
try:
    ic.got_announcements([bad,good]); print("D10 batch processed, delivered:",got)
except Exception as e: print("D10 batch aborted by", type(e).__name__, "delivered so far:", got)
# D11 (manual crash state): lease record appended, count not updated
from allmydata.storage.immutable import ShareFile
from allmydata.storage.lease import LeaseInfo
base2=tempfile.mkdtemp(); ss2=StorageServer(base2,b"\x00"*20,clock=R)
ag,bw=ss2.allocate_buckets(b"s"*16,b"r"*32,b"c"*32,{0},10); bw[0].write(0,b"y"*10); bw[0].close()
sf=glob.glob(base2+"/shares/*/*/0")[0]
before=ss2.get_buckets(b"s"*16)[0].read(0,1000); lb=[l.get_expiration_time() for l in ShareFile(sf).get_leases()]
s=ShareFile(sf)
with open(sf,'rb+') as f:
    s._write_lease_record(f, 1, LeaseInfo(1,b"R"*32,b"C"*32,123456,b"\x00"*20))   # crash here, before count update
after=ss2.get_buckets(b"s"*16)[0].read(0,1000); la=[l.get_expiration_time() for l in ShareFile(sf).get_leases()]
print("D11 data unchanged:",before==after,len(before),len(after),"leases before/after",lb,la)
