import sys; sys.argv=[sys.argv[0]]
exec(open('/tmp/probe/detgrid_probe.py').read().split('if __name__=="__main__":')[0])
from allmydata.util.consumer import download_to_data
import allmydata.immutable.encode as enc
rng=random.Random(3)
base=tempfile.mkdtemp(prefix="dg"); sched=Sched(rng)
params={"k":2,"happy":1,"n":4,"max_segment_size":100}
parent,up,nm,servers=make_grid(base,5,sched,params)
data=bytes(rng.getrandbits(8) for _ in range(350))
# sabotage: ciphertext segment hash for segment index 2 computed over wrong data
orig=enc.hashutil.crypttext_segment_hasher
cnt=[0]
class H:
    def __init__(self): self.h=orig(); self.i=cnt[0]; cnt[0]+=1
    def update(self,d): self.h.update(d if self.i!=2 else b"evil"+d)
    def digest(self): return self.h.digest()
enc.hashutil.crypttext_segment_hasher=H
ur=sched.run_until(up.upload(Data(data,convergence=b"x")))
enc.hashutil.crypttext_segment_hasher=orig
node=nm.create_from_cap(ur.get_uri())
print(sched.run_until(download_to_data(node,0,50))==data[:50])
try:
    sched.run_until(download_to_data(node,200,50)); print("seg2 read succeeded?!")
except Exception as e: print("seg2 read failed as expected:", type(e).__name__)
try:
    print("later read:", sched.run_until(download_to_data(node,0,50))==data[:50])
except Exception as e: print("later read:", type(e).__name__, str(e)[:100])
