import sys; sys.argv=[sys.argv[0]]
exec(open('/tmp/probe/detgrid_probe.py').read().split('if __name__=="__main__":')[0])
from twisted.internet.task import Cooperator
import twisted.internet.task as task
task._theCooperator = Cooperator(scheduler=lambda c: R.callLater(0.000001, c))
from treq.testing import StubTreq
from hyperlink import DecodedURL
from allmydata.storage.http_server import HTTPServer
from allmydata.storage.http_client import StorageClient, StorageClientFactory, StorageClientImmutables, StorageClientMutables, StorageClientGeneral
from allmydata.storage_client import _HTTPStorageServer
base=tempfile.mkdtemp(prefix="dg")
ss=StorageServer(base, b"\x00"*20, clock=R)
SW=b"abcd"*4
hs=HTTPServer(R, ss, SW)
treq=StubTreq(hs.get_resource())
StorageClientFactory.start_test_mode(lambda pool: None)
client=StorageClient(DecodedURL.from_text("http://127.0.0.1"), SW, treq=treq, pool=None, clock=R)
def result(d, maxit=10000):
    out=[]; d=defer.ensureDeferred(d) if not isinstance(d,defer.Deferred) else d
    d.addBoth(out.append)
    for i in range(maxit):
        if out: break
        R.advance(0.001); treq.flush()
    if not out: raise RuntimeError("HANG")
    if isinstance(out[0],Failure): out[0].raiseException()
    return out[0]
h=_HTTPStorageServer.from_http_client(client)
print(result(h.get_version())[b'application-version'][:20])
si=b"s"*16
ag,bw=result(h.allocate_buckets(si,b"r"*32,b"c"*32,{0,1},100,canary=None))
print(ag,sorted(bw))
w=bw[0]
result(w.callRemote("write",0,b"A"*60)); result(w.callRemote("write",60,b"B"*40))
result(w.callRemote("close"))
b=result(h.get_buckets(si)); print(sorted(b))
print(result(b[0].callRemote("read",50,20)), result(b[0].callRemote("read",90,50)), result(b[0].callRemote("read",100,5)), result(b[0].callRemote("read",200,5)))
print(result(h.slot_testv_and_readv_and_writev(b"m"*16,(b"w"*32,b"r"*32,b"c"*32),{0:([],[(0,b"hello")],None)},[(0,10)])))
print(result(h.slot_readv(b"m"*16,[],[(0,3),(3,10)])))
try: print(result(h.slot_readv(b"m"*16,[0,7],[(0,3)])))
except Exception as e: print("slot_readv missing share ->", type(e).__name__, str(e)[:80])
print("direct:", ss.slot_readv(b"m"*16,[0,7],[(0,3)]))
