import sys; sys.argv=[sys.argv[0]]
exec(open('/tmp/probe/detgrid_probe.py').read().split('if __name__=="__main__":')[0])
from allmydata.interfaces import UploadUnhappinessError, NoServersError
from allmydata.storage.common import storage_index_to_dir
from allmydata.util import fileutil
import collections, traceback
def maxmatch(adj):
    match={}
    def aug(p,seen):
        for s in adj[p]:
            if s in seen: continue
            seen.add(s)
            if s not in match or aug(match[s],seen):
                match[s]=p; return True
        return False
    return sum(1 for p in adj if aug(p,set()))
res=collections.Counter(); ex={}
for case in range(int(sys.argv[1]) if len(sys.argv)>1 else 200):
    rng=random.Random(7000+case)
    k=rng.randint(1,3); N=rng.randint(k,7); happy=rng.randint(1,N); ns=rng.randint(1,9)
    base=tempfile.mkdtemp(prefix="dg"); sched=Sched(rng)
    parent,up,nm,servers=make_grid(base,ns,sched,{"k":k,"happy":happy,"n":N,"max_segment_size":64})
    kinds={}
    for s in parent.broker.servers.values():
        w=s._rref; ss=w.original._server; i=servers.index(ss)
        kind=rng.choice(["ok","ok","ok","readonly","failwrite","failalloc"])
        kinds[i]=kind
        if kind=="readonly":
            ss.readonly_storage=True; w.version=w.original.remote_get_version()
        elif kind in("failwrite","failalloc"):
            orig=w.callRemote
            def cr(meth,*a,_o=orig,_k=kind,_w=w,**kw):
                if _k=="failalloc" and meth=="allocate_buckets":
                    return sched.enqueue(lambda: (_ for _ in ()).throw(RuntimeError("boom")))
                return _o(meth,*a,**kw)
            w.callRemote=cr
            if kind=="failwrite":
                # wrap bucket writers: fail on write
                origcall=w.callRemote
                def cr2(meth,*a,_o=origcall,**kw):
                    d=_o(meth,*a,**kw)
                    if meth=="allocate_buckets":
                        def patch(res):
                            ag,al=res
                            for bw in al.values():
                                def bad(m,*aa,_bw=bw,**kk):
                                    if m=="write": return sched.enqueue(lambda: (_ for _ in ()).throw(RuntimeError("wfail")))
                                    return Wrapper.callRemote(_bw,m,*aa,**kk)
                                bw.callRemote=bad
                            return res
                        d.addCallback(patch)
                    return d
                w.callRemote=cr2
    data=bytes(rng.getrandbits(8) for _ in range(rng.randint(56,300)))
    try:
        try:
            ur=sched.run_until(up.upload(Data(data,convergence=b"x")))
            sm=ur.get_sharemap()
            adj={}
            for sh,srvs in sm.items():
                for s in srvs: adj.setdefault(s.get_serverid(),set()).add(sh)
            h=maxmatch(adj) if adj else 0
            # every reported share readable?
            missing=0
            from allmydata import uri as U
            sidir=storage_index_to_dir(U.from_string(ur.get_uri()).get_storage_index())
            for sh,srvs in sm.items():
                for s in srvs:
                    ss=s._rref.original._server
                    if not os.path.exists(os.path.join(ss.sharedir,sidir,str(sh))): missing+=1
            key=("success", "happy-ok" if h>=happy else "UNHAPPY-SUCCESS", "missing=%d"%missing)
        except (UploadUnhappinessError,NoServersError) as e:
            for _i in range(100000):
                sched.drain_local()
                if not sched.pending: break
                sched.step()
            leftovers=sum(1 for ss in servers for r,d,f in os.walk(ss.incomingdir) for x in f)
            alloc=sum(ss.allocated_size() for ss in servers)
            key=("unhappy", "incoming>0" if leftovers else "incoming=0", "alloc>0" if alloc else "alloc=0")
        except RuntimeError as e:
            key=("RT",str(e)[:50])
        res[key]+=1; ex.setdefault(key,(case,k,happy,N,ns,kinds))
    except Exception as e:
        key="EXC "+type(e).__name__; res[key]+=1; ex.setdefault(key,(case,k,happy,N,ns,kinds))
    shutil.rmtree(base)
for k_,v in sorted(res.items(),key=str): print(v,k_,ex[k_])
