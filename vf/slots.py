"""Reference model + interpreter for mutable slots (used by C23, C24, C25).

The model follows the RIStorageServer.slot_testv_and_readv_and_writev docstring:
per share a bytearray, a write enabler and a lease table (renew secret -> expiry)."""
import os, hashlib
from vf import boot, store
from vf.core import pbytes

LEASE_TIME = 31 * 24 * 60 * 60


def _near(base, i, tag):
    """secret #0 is `base`; #1 differs from it only in the first byte, #2 only in the last byte (near misses: a comparison that looks at a
    prefix, a suffix or a single byte confuses them); higher numbers are unrelated."""
    if i == 0:
        return base
    if i == 1:
        return bytes([base[0] ^ 1]) + base[1:]
    if i == 2:
        return base[:-1] + bytes([base[-1] ^ 1])
    return hashlib.sha256(b"%s-%d" % (tag, i)).digest()


def enabler(i):
    return _near(hashlib.sha256(b"enabler-0").digest(), i, b"enabler")


def lsecret(i):
    return _near(hashlib.sha256(b"renew-0").digest(), i, b"renew"), _near(hashlib.sha256(b"cancel-0").digest(), i, b"cancel")


class MShare:
    def __init__(self, enabler_i):
        self.data = bytearray()
        self.enabler_i = enabler_i
        self.leases = {}   # lease idx -> expiry


class SlotWorld:
    def __init__(self, ctx, basedir, nsi=2):
        self.ctx = ctx
        self.ss = store.make_server(os.path.join(basedir, "srv"))
        self.shares = {}   # (si_i, sh) -> MShare
        self.classes = set()

    def now(self):
        return boot.R.seconds()

    def path(self, si_i, sh):
        from allmydata.storage.common import storage_index_to_dir
        return os.path.join(self.ss.sharedir, storage_index_to_dir(store.si(si_i)), "%d" % sh)

    # ---- direct container creation (older schema / foreign enabler) --------------
    def create_direct(self, si_i, sh, enabler_i, version):
        from allmydata.storage.mutable import MutableShareFile
        from allmydata.storage import mutable_schema
        if (si_i, sh) in self.shares:
            return False
        p = self.path(si_i, sh)
        os.makedirs(os.path.dirname(p), exist_ok=True)
        schema = [s for s in mutable_schema.ALL_SCHEMAS if s.version == version][0]
        MutableShareFile(p, self.ss, schema=schema).create(self.ss.my_nodeid, enabler(enabler_i))
        self.shares[(si_i, sh)] = MShare(enabler_i)
        self.shares[(si_i, sh)].version = version
        return True

    # ---- resolving state-relative vectors ----------------------------------------
    def resolve_offset(self, m, sel, a):
        n = len(m.data) if m else 0
        if sel == "in":
            return a % n if n else 0
        if sel == "end":
            return n
        if sel == "past":
            return n + 1 + a % 300
        if sel == "far":
            return n + 1000 + a
        if sel == "toobig":
            # a legal 64-bit offset whose write would end beyond the largest share the server stores
            from allmydata.storage.mutable import MutableShareFile
            return MutableShareFile.MAX_SIZE + a % 3
        return a % 400

    def build_tw(self, si_i, spec, step):
        """spec: {sh: {"tests":[(sel,a,len,kind)], "writes":[(sel,a,len)], "newlen": (kind,a)}} -> real vectors + expectations"""
        tw = {}
        for sh_s, v in spec.items():
            sh = int(sh_s)
            m = self.shares.get((si_i, sh))
            testv = []
            for (sel, a, ln, kind) in v.get("tests", []):
                off = self.resolve_offset(m, sel, a)
                cur = bytes(m.data[off:off + ln]) if m else b""
                if kind == "ok":
                    spec_b = cur
                elif kind == "empty":
                    spec_b = b""
                else:
                    spec_b = bytes((c + 1) % 256 for c in cur) if cur else b"x"
                testv.append((off, ln, b"eq", spec_b))
            datav = []
            used = []
            for j, (sel, a, ln) in enumerate(v.get("writes", [])):
                off = self.resolve_offset(m, sel, a)
                ln = max(1, ln)
                if any(not (off + ln <= s or e <= off) for (s, e) in used):
                    continue  # write vectors must not overlap
                used.append((off, off + ln))
                datav.append((off, pbytes(step * 17 + sh * 5 + j, ln)))
            nk, na = v.get("newlen", ("none", 0))
            cur_n = len(m.data) if m else 0
            after = max([cur_n] + [o + len(d) for (o, d) in datav])
            if nk == "none":
                newlen = None
            elif nk == "zero":
                newlen = 0
            elif nk == "smaller":
                newlen = (na % after) if after > 1 else None
                if newlen == 0:
                    newlen = None if after <= 1 else 1
            elif nk == "same":
                newlen = after
            else:
                newlen = after + 1 + na % 50
            tw[sh] = (testv, datav, newlen)
        return tw

    # ---- the operation --------------------------------------------------------------
    def rtw(self, si_i, enabler_i, lease_i, tw, readv, what, check_leases=True):
        from allmydata.interfaces import BadWriteEnablerError
        ctx = self.ctx
        existing = {sh: m for (s, sh), m in self.shares.items() if s == si_i}
        bad_enabler = any(m.enabler_i != enabler_i for m in existing.values())
        tests_ok = True
        for sh, (testv, datav, newlen) in tw.items():
            m = existing.get(sh)
            for (off, ln, op, spec) in testv:
                cur = bytes(m.data[off:off + ln]) if m else b""
                if cur != spec:
                    tests_ok = False
        exp_read = {sh: [bytes(m.data[o:o + l]) for (o, l) in readv] for sh, m in existing.items()}
        before = store.snapshot(self.ss.sharedir)
        secrets = (enabler(enabler_i),) + lsecret(lease_i)
        try:
            res = self.ss.slot_testv_and_readv_and_writev(store.si(si_i), secrets, tw, readv)
            err = None
        except Exception as e:
            res, err = None, e
        if bad_enabler:
            self.classes.add("bad-enabler")
            ctx.check(err is not None, "bad-enabler-accepted", "%s: request with a write enabler that does not match every existing share was executed (result %r)" % (what, res))
            if err is not None:
                ctx.check(isinstance(err, BadWriteEnablerError), "bad-enabler-error-type", "%s: raised %r" % (what, err))
            after = store.snapshot(self.ss.sharedir)
            ctx.check(after == before, "not-atomic", "%s: refused request changed share files: %r" % (what, sorted(k for k in set(before) | set(after) if before.get(k) != after.get(k))))
            return "bad-enabler"
        from allmydata.storage.mutable import MutableShareFile
        too_big = [(sh, o) for sh, (testv, datav, newlen) in sorted(tw.items()) for (o, d) in datav if o + len(d) > MutableShareFile.MAX_SIZE]
        if too_big and (err is not None or tests_ok):
            # a write the server cannot carry out: the request may be refused, but then as a whole
            self.classes.add("write-beyond-max-size")
            ctx.check(err is not None, "oversized-write-accepted", "%s: a write ending beyond MAX_SIZE was reported as done: %r" % (what, res))
            after = store.snapshot(self.ss.sharedir)
            ctx.check(after == before, "not-atomic", "%s: the request failed with %r (write at offset %d of share %d ends beyond the maximum share size) but changed share files: %r" % (
                what, err, too_big[0][1], too_big[0][0], sorted(k for k in set(before) | set(after) if before.get(k) != after.get(k))), oversized=True)
            return "refused-oversized"
        if err is not None:
            ctx.fail("rtw-raised", "%s: raised %r" % (what, err))
            return "raised"
        ok, read_data = res
        ctx.check(ok == tests_ok, "testv-result", "%s: server says tests %s, model says %s" % (what, ok, tests_ok))
        ctx.check({k: list(v) for k, v in read_data.items()} == exp_read, "read-not-prestate",
                  "%s: read vector result %r differs from the data before the request %r" % (what, {k: [bytes(x)[:20] for x in v] for k, v in read_data.items()}, {k: [x[:20] for x in v] for k, v in exp_read.items()}))
        if not tests_ok:
            self.classes.add("testv-failed")
            after = store.snapshot(self.ss.sharedir)
            ctx.check(after == before, "not-atomic", "%s: request with a failing test changed share files: %r" % (what, sorted(k for k in set(before) | set(after) if before.get(k) != after.get(k))))
            return "tests-failed"
        # apply to the model
        for sh, (testv, datav, newlen) in tw.items():
            key = (si_i, sh)
            if newlen == 0:
                if key in self.shares:
                    del self.shares[key]
                    self.classes.add("delete")
                continue
            m = self.shares.get(key)
            if m is None:
                m = self.shares[key] = MShare(enabler_i)
                m.version = 2
                self.classes.add("create")
            for (off, d) in datav:
                if off > len(m.data):
                    m.data.extend(b"\x00" * (off - len(m.data)))
                    self.classes.add("gap-zero-fill")
                m.data[off:off + len(d)] = d
            if newlen is not None and newlen < len(m.data):
                del m.data[newlen:]
                self.classes.add("truncate")
            elif newlen is not None and newlen > len(m.data):
                self.classes.add("newlen-larger-ignored")
            # lease add-or-renew for shares named in the request that still exist
            exp = self.now() + LEASE_TIME
            if lease_i in m.leases:
                m.leases[lease_i] = max(m.leases[lease_i], exp)
            else:
                m.leases[lease_i] = exp
        return "applied"

    # ---- comparisons -------------------------------------------------------------------
    def check_all(self, what, ranges=((0, 10 ** 6),)):
        ctx = self.ctx
        for si_i in sorted({s for (s, sh) in self.shares} | {0, 1}):
            exp = {sh: m for (s, sh), m in self.shares.items() if s == si_i}
            try:
                got = self.ss.slot_readv(store.si(si_i), [], list(ranges))
            except Exception as e:
                ctx.fail("readv-raised", "%s: slot_readv raised %r" % (what, e))
                return
            ctx.check(sorted(got) == sorted(exp), "share-set", "%s: si%d holds shares %r, model %r" % (what, si_i, sorted(got), sorted(exp)))
            for sh, m in exp.items():
                if sh not in got:
                    continue
                for (o, l), g in zip(ranges, got[sh]):
                    e = bytes(m.data[o:o + l])
                    if g != e:
                        diff = next((i for i in range(min(len(g), len(e))) if g[i] != e[i]), min(len(g), len(e)))
                        ctx.fail("data-mismatch", "%s: si%d share %d read(%d,%d): %d bytes, model %d bytes, first difference at offset %d (got %r, model %r)" % (
                            what, si_i, sh, o, l, len(g), len(e), o + diff, g[diff:diff + 8], e[diff:diff + 8]))
        self.check_leases(what)

    def leases_of(self, si_i, sh):
        from allmydata.storage.mutable import MutableShareFile
        return list(MutableShareFile(self.path(si_i, sh), self.ss).get_leases())

    def check_leases(self, what):
        ctx = self.ctx
        for (si_i, sh), m in sorted(self.shares.items()):
            try:
                got = self.leases_of(si_i, sh)
            except Exception as e:
                ctx.fail("leases-unreadable", "%s: si%d share %d: get_leases raised %r" % (what, si_i, sh, e))
                continue
            exp = sorted(m.leases.items())
            ctx.check(len(got) == len(exp), "lease-count", "%s: si%d share %d has %d leases, model %d (%r)" % (what, si_i, sh, len(got), len(exp), [l.get_expiration_time() for l in got]))
            for li, expiry in exp:
                rs, cs = lsecret(li)
                match = [l for l in got if l.is_renew_secret(rs)]
                ctx.check(len(match) == 1, "lease-missing-or-duplicate", "%s: si%d share %d: %d leases match renew secret #%d (model: exactly 1; share has %d leases)" % (what, si_i, sh, len(match), li, len(got)))
                if len(match) == 1:
                    ctx.check(match[0].get_expiration_time() == int(expiry), "lease-expiry", "%s: si%d share %d lease #%d expires %r, model %r" % (what, si_i, sh, li, match[0].get_expiration_time(), int(expiry)))
                    ctx.check(match[0].is_cancel_secret(cs), "lease-cancel-secret", "%s: si%d share %d lease #%d cancel secret lost" % (what, si_i, sh, li))
