"""Shared capability generator: build any cap kind from small JSON-able parameters."""
import hashlib
from hypothesis import strategies as st

KINDS = ["CHK", "CHK-Verifier", "LIT", "SSK", "SSK-RO", "SSK-Verifier", "MDMF", "MDMF-RO", "MDMF-Verifier",
         "DIR2", "DIR2-RO", "DIR2-Verifier", "DIR2-CHK", "DIR2-CHK-Verifier", "DIR2-LIT",
         "DIR2-MDMF", "DIR2-MDMF-RO", "DIR2-MDMF-Verifier"]
PREFIX = {k: b"URI:" + k.encode() + b":" for k in KINDS}
WRITE_KINDS = {"SSK", "MDMF", "DIR2", "DIR2-MDMF"}
MUTABLE_KINDS = {"SSK", "SSK-RO", "MDMF", "MDMF-RO", "DIR2", "DIR2-RO", "DIR2-MDMF", "DIR2-MDMF-RO"}
VERIFY_KINDS = {k for k in KINDS if k.endswith("Verifier")}
MDMF_KINDS = {k for k in KINDS if "MDMF" in k}


def h(n, tag, size):
    return hashlib.sha256(b"%s-%d" % (tag, n)).digest()[:size]


def cap_params():
    big = st.one_of(st.integers(0, 300), st.sampled_from([0, 1, 255, 256, 2 ** 31, 2 ** 32, 2 ** 64, 2 ** 80]), st.integers(0, 2 ** 80))
    return st.fixed_dictionaries({"kind": st.sampled_from(KINDS), "a": st.integers(0, 10 ** 6), "b": st.integers(0, 10 ** 6),
                                  "k": big, "n": big, "size": big, "lit": st.binary(max_size=60).map(lambda b: b.hex())})


def make(p):
    """Build the cap object for parameter dict p."""
    from allmydata import uri
    kind = p["kind"]
    key16, h32 = h(p["a"], b"key", 16), h(p["b"], b"hash", 32)
    if kind == "CHK":
        return uri.CHKFileURI(key16, h32, p["k"], p["n"], p["size"])
    if kind == "CHK-Verifier":
        return uri.CHKFileVerifierURI(key16, h32, p["k"], p["n"], p["size"])
    if kind == "LIT":
        return uri.LiteralFileURI(bytes.fromhex(p["lit"]))
    if kind == "SSK":
        return uri.WriteableSSKFileURI(key16, h32)
    if kind == "SSK-RO":
        return uri.ReadonlySSKFileURI(key16, h32)
    if kind == "SSK-Verifier":
        return uri.SSKVerifierURI(key16, h32)
    if kind == "MDMF":
        return uri.WriteableMDMFFileURI(key16, h32)
    if kind == "MDMF-RO":
        return uri.ReadonlyMDMFFileURI(key16, h32)
    if kind == "MDMF-Verifier":
        return uri.MDMFVerifierURI(key16, h32)
    inner = {"DIR2": "SSK", "DIR2-RO": "SSK-RO", "DIR2-Verifier": "SSK-Verifier", "DIR2-CHK": "CHK", "DIR2-CHK-Verifier": "CHK-Verifier",
             "DIR2-LIT": "LIT", "DIR2-MDMF": "MDMF", "DIR2-MDMF-RO": "MDMF-RO", "DIR2-MDMF-Verifier": "MDMF-Verifier"}[kind]
    cls = {"DIR2": uri.DirectoryURI, "DIR2-RO": uri.ReadonlyDirectoryURI, "DIR2-Verifier": uri.DirectoryURIVerifier,
           "DIR2-CHK": uri.ImmutableDirectoryURI, "DIR2-CHK-Verifier": uri.ImmutableDirectoryURIVerifier, "DIR2-LIT": uri.LiteralDirectoryURI,
           "DIR2-MDMF": uri.MDMFDirectoryURI, "DIR2-MDMF-RO": uri.ReadonlyMDMFDirectoryURI, "DIR2-MDMF-Verifier": uri.MDMFDirectoryURIVerifier}[kind]
    return cls(make(dict(p, kind=inner)))


def kind_of_string(s):
    """Longest URI:<kind>: prefix of s, or None."""
    best = None
    for k, pre in PREFIX.items():
        if s.startswith(pre) and (best is None or len(pre) > len(PREFIX[best])):
            best = k
    return best


def class_kind(obj):
    from allmydata import uri
    m = {uri.CHKFileURI: "CHK", uri.CHKFileVerifierURI: "CHK-Verifier", uri.LiteralFileURI: "LIT", uri.WriteableSSKFileURI: "SSK",
         uri.ReadonlySSKFileURI: "SSK-RO", uri.SSKVerifierURI: "SSK-Verifier", uri.WriteableMDMFFileURI: "MDMF", uri.ReadonlyMDMFFileURI: "MDMF-RO",
         uri.MDMFVerifierURI: "MDMF-Verifier", uri.DirectoryURI: "DIR2", uri.ReadonlyDirectoryURI: "DIR2-RO", uri.DirectoryURIVerifier: "DIR2-Verifier",
         uri.ImmutableDirectoryURI: "DIR2-CHK", uri.ImmutableDirectoryURIVerifier: "DIR2-CHK-Verifier", uri.LiteralDirectoryURI: "DIR2-LIT",
         uri.MDMFDirectoryURI: "DIR2-MDMF", uri.ReadonlyMDMFDirectoryURI: "DIR2-MDMF-RO", uri.MDMFDirectoryURIVerifier: "DIR2-MDMF-Verifier"}
    return m.get(type(obj))
