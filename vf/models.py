"""Reference models shared by several properties (written independently of the
code under test)."""
import itertools


def max_matching(adj):
    """adj: left vertex -> iterable of right vertices.  Kuhn's algorithm."""
    match = {}

    def aug(p, seen):
        for s in adj[p]:
            if s in seen:
                continue
            seen.add(s)
            if s not in match or aug(match[s], seen):
                match[s] = p
                return True
        return False

    n = 0
    for p in adj:
        if aug(p, set()):
            n += 1
    return n


def max_matching_brute(adj):
    """Exponential cross-check for tiny graphs."""
    lefts = list(adj)
    best = 0

    def rec(i, used, n):
        nonlocal best
        if n + (len(lefts) - i) <= best:
            return
        if i == len(lefts):
            best = max(best, n)
            return
        rec(i + 1, used, n)
        for s in adj[lefts[i]]:
            if s not in used:
                used.add(s)
                rec(i + 1, used, n + 1)
                used.discard(s)

    rec(0, set(), 0)
    return best
