"""E1 'store' engine: real StorageServer on a scratch directory, driven
synchronously with the fake clock, a simulated disk and helpers to snapshot the
share tree."""
import os, hashlib
from vf import boot


class Canary:
    """Stand-in for a Foolscap connection: notifyOnDisconnect callbacks fire on disconnect()."""

    def __init__(self):
        self.cbs = {}
        self.n = 0

    def notifyOnDisconnect(self, f, *a, **k):
        self.n += 1
        self.cbs[self.n] = (f, a, k)
        return self.n

    def dontNotifyOnDisconnect(self, m):
        self.cbs.pop(m, None)

    def disconnect(self):
        cbs, self.cbs = self.cbs, {}
        for (f, a, k) in cbs.values():
            f(*a, **k)


class Disk:
    """Simulated disk: avail = capacity - bytes currently under the share directory (real files) - reserved."""

    def __init__(self, capacity=None):
        self.capacity = capacity
        self.installed = False

    def install(self, basedir):
        from allmydata.util import fileutil
        self.basedir = basedir
        self._orig = fileutil.get_disk_stats
        disk = self

        def get_disk_stats(whichdir, reserved_space=0):
            if disk.capacity is None:
                return disk._orig(whichdir, reserved_space)
            used = tree_size(disk.basedir)
            free = max(0, disk.capacity - used)
            return {"total": disk.capacity, "free_for_root": free, "free_for_nonroot": free, "used": used,
                    "avail": max(0, free - reserved_space)}
        fileutil.get_disk_stats = get_disk_stats
        self.installed = True

    def uninstall(self):
        if self.installed:
            from allmydata.util import fileutil
            fileutil.get_disk_stats = self._orig
            self.installed = False


def tree_size(d):
    n = 0
    for root, dirs, files in os.walk(d):
        for f in files:
            try:
                n += os.path.getsize(os.path.join(root, f))
            except OSError:
                pass
    return n


def make_server(basedir, nodeid=b"\x01" * 20, **kw):
    from allmydata.storage.server import StorageServer
    from twisted.application import service
    kw.setdefault("clock", boot.R)
    ss = StorageServer(basedir, nodeid, **kw)
    # not started: crawlers stay idle unless a check drives them explicitly
    ss.setServiceParent(service.MultiService())
    return ss


def snapshot(d, skip=("lease_checker", "bucket_counter", "corruption-advisories")):
    """path -> file bytes for everything under d (state files of crawlers skipped)."""
    out = {}
    for root, dirs, files in os.walk(d):
        for f in files:
            if any(f.startswith(s) for s in skip):
                continue
            p = os.path.join(root, f)
            out[os.path.relpath(p, d)] = open(p, "rb").read()
    return out


def share_files(ss):
    """[(si_dir, shnum, path)] of every share under shares/ (excluding incoming/)."""
    out = []
    sd = ss.sharedir
    for prefix in sorted(os.listdir(sd)):
        if prefix == "incoming":
            continue
        pd = os.path.join(sd, prefix)
        if not os.path.isdir(pd):
            continue
        for si in sorted(os.listdir(pd)):
            for sh in sorted(os.listdir(os.path.join(pd, si))):
                out.append((si, sh, os.path.join(pd, si, sh)))
    return out


def incoming_files(ss):
    out = []
    for root, dirs, files in os.walk(ss.incomingdir):
        for f in files:
            out.append(os.path.join(root, f))
    return out


def si(n):
    return hashlib.sha256(b"si-%d" % n).digest()[:16]


def secret(n, tag=b"s"):
    return hashlib.sha256(b"%s-%d" % (tag, n)).digest()
