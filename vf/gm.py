"""Grid-manager certificate generator with known ground truth (shared by C32 and C33)."""
import json, hashlib
from datetime import datetime, timezone, timedelta
from hypothesis import strategies as st

T0 = datetime(2030, 1, 1, 12, 0, 0, tzinfo=timezone.utc)


def keypair(n, tag=b"gm"):
    from allmydata.crypto import ed25519
    from allmydata.util import base32
    seed = hashlib.sha256(b"%s-key-%d" % (tag, n)).digest()
    return ed25519.signing_keypair_from_string(b"priv-v0-" + base32.b2a(seed))


def server_pub(n):
    """bytes like b'pub-v0-....' identifying storage server n"""
    from allmydata.crypto import ed25519
    priv, pub = keypair(n, b"server")
    return ed25519.string_from_verifying_key(pub)


cert_spec = st.fixed_dictionaries({
    "signer": st.integers(0, 3),                 # GM key index that signs (may or may not be configured)
    "server": st.integers(0, 3),                 # server the certificate names
    "expires": st.sampled_from([-10 ** 6, -1, 0, 0, 1, 1, 3600, 10 ** 7]) | st.integers(-100, 100),   # seconds relative to T0
    "tamper": st.sampled_from([None, None, None, None, "body", "sig", "sig-trunc"]),
    "tpos": st.integers(0, 200),
})


def build(spec):
    """-> (SignedCertificate-like dict for announcements, SignedCertificate object)"""
    from allmydata.crypto import ed25519
    from allmydata.grid_manager import SignedCertificate
    from allmydata.util import base32
    priv, pub = keypair(spec["signer"])
    info = {"expires": (T0 + timedelta(seconds=spec["expires"])).isoformat(), "public_key": spec.get("public_key") or str(server_pub(spec["server"]), "ascii"), "version": 1}
    data = json.dumps(info, separators=(",", ":"), sort_keys=True).encode("utf-8")
    sig = ed25519.sign_data(priv, data)
    if spec["tamper"] == "body":
        # change one character of the signed text into another printable character (the text stays UTF-8)
        i = spec["tpos"] % len(data)
        data = data[:i] + bytes([data[i] ^ 1 if 32 < (data[i] ^ 1) < 127 else (data[i] ^ 2)]) + data[i + 1:]
    elif spec["tamper"] == "sig":
        i = spec["tpos"] % len(sig)
        sig = sig[:i] + bytes([sig[i] ^ (1 << (spec["tpos"] % 8))]) + sig[i + 1:]
    elif spec["tamper"] == "sig-trunc":
        sig = sig[:-1 - spec["tpos"] % 8]
    return {"certificate": data.decode("utf-8"), "signature": str(base32.b2a(sig), "ascii")}, SignedCertificate(certificate=data, signature=sig)


def truth(spec, configured, server, now_offset):
    """reference predicate for one certificate"""
    return spec["tamper"] is None and spec["signer"] in configured and spec["server"] == server and spec["expires"] > now_offset


class FakeRref:
    version = {b"http://allmydata.org/tahoe/protocols/storage/v1": {b"maximum-immutable-share-size": 2 ** 40}, b"application-version": b"x"}

    def notifyOnDisconnect(self, *a, **k):
        return 0


def announcement(i, cert_specs, http=False):
    """announcement dict of storage server number i, as the introducer would deliver it"""
    from allmydata.util import base32
    ann = {"anonymous-storage-FURL": "pb://%s@nowhere/x%d" % (str(base32.b2a(hashlib.sha1(b"tub%d" % i).digest()), "ascii"), i), "nickname": "n%d" % i,
           "grid-manager-certificates": [build(c)[0] for c in cert_specs]}
    if http:
        ann["anonymous-storage-NURLs"] = ["pb://%s@127.0.0.1:%d/%s#v=1" % (str(base32.b2a(hashlib.sha256(b"nurl%d" % i).digest()), "ascii").replace("=", ""), 1000 + i, "swiss%d" % i)]
    return ann


def add_connected(broker, server_id, ann):
    """create the IServer through the broker's own factory (as announcements and static servers do) and mark it connected"""
    from allmydata.storage_client import HTTPNativeStorageServer
    from allmydata.util import connection_status
    s = broker._make_storage_server(server_id, {"ann": dict(ann)})
    if isinstance(s, HTTPNativeStorageServer):
        s._connection_status = connection_status.ConnectionStatus(True, "connected (harness)", {}, 0, 0)
        s._version = FakeRref.version
    else:
        s._rref = FakeRref()
        s._is_connected = True
    broker.servers[server_id] = s
    return s
