"""In-memory web front end: the real allmydata.web Root resource behind twisted.web's Site (with TahoeLAFSRequest), fed raw HTTP/1.0 requests over a
StringTransport, on top of a detgrid client.  Every storage message triggered by a request goes through the grid's scheduler."""
import time
from twisted.internet import defer
from vf import boot


def _hv(v):
    """header value on the wire: Latin-1 where possible (so that "\xff" is the single byte 0xff), UTF-8 otherwise"""
    try:
        return v.encode("latin-1")
    except UnicodeEncodeError:
        return v.encode("utf-8")


class _WebService:
    def __init__(self, ops):
        self._ops = ops

    def get_operations(self):
        return self._ops


class ClientFacade:
    """The subset of allmydata.client._Client that the web resources use, backed by a vf.grid.ClientNode."""
    nickname = "verif"
    helper = None
    stats_provider = None

    def __init__(self, cn, token=b"secret-token"):
        from allmydata.interfaces import SDMF_VERSION
        from allmydata.web.operations import OphandleTable
        self.cn = cn
        self.nodemaker = cn.nodemaker
        self.mutable_file_default = SDMF_VERSION
        self.convergence = b"conv-secret"
        self.token = token
        self._ops = OphandleTable(boot.R)
        self._web = _WebService(self._ops)

    def get_history(self):
        return None

    def get_auth_token(self):
        return self.token

    def create_node_from_uri(self, write_uri, read_uri=None, deep_immutable=False, name="<unknown name>"):
        return self.nodemaker.create_from_cap(write_uri, read_uri, deep_immutable=deep_immutable, name=name)

    def create_dirnode(self, initial_children=None, version=None, **kw):
        return self.nodemaker.create_new_mutable_directory(initial_children or {}, version=version)

    def create_immutable_dirnode(self, children, convergence=None):
        return self.nodemaker.create_immutable_directory(children, convergence if convergence is not None else self.convergence)

    def create_mutable_file(self, contents=None, version=None, **kw):
        return self.nodemaker.create_mutable_file(contents, version=version)

    def upload(self, uploadable, reactor=None):
        return self.cn.uploader.upload(uploadable)

    def get_encoding_parameters(self):
        return self.cn.params

    def get_storage_broker(self):
        return self.cn.broker

    def getServiceNamed(self, name):
        raise KeyError(name)

    def get_web_service(self):
        return self._web

    def introducer_connection_statuses(self):
        return []

    def get_long_nodeid(self):
        return b"v0-verif"

    def get_long_tubid(self):
        return "tubid"

    def get_config(self):
        return None


class Response:
    def __init__(self, raw):
        head, _, body = raw.partition(b"\r\n\r\n")
        lines = head.split(b"\r\n")
        self.raw = raw
        self.status_line = lines[0]
        try:
            self.code = int(lines[0].split(b" ")[1])
        except Exception:
            # twisted.web's last-resort error page for an exception that escaped the resource ("Processing Failed") can arrive without a status line
            self.code = 500 if b"Processing Failed" in raw else None
            if self.code == 500:
                body = raw
        self.headers = {}
        for ln in lines[1:]:
            k, _, v = ln.partition(b":")
            self.headers.setdefault(k.strip().lower().decode("latin-1"), []).append(v.strip().decode("latin-1"))
        self.body = body

    def header(self, name):
        v = self.headers.get(name.lower())
        return v[0] if v else None


class Web:
    def __init__(self, grid, clientnode):
        from twisted.web.server import Site
        from allmydata.web.root import Root
        from allmydata.webish import TahoeLAFSRequest
        self.grid = grid
        self.facade = ClientFacade(clientnode)
        self.root = Root(self.facade, None, time.time)
        self.site = Site(self.root, requestFactory=TahoeLAFSRequest)

    def request(self, method, path, headers=(), body=b"", maxsteps=50000):
        """-> Response, or None when the request never completed (quiescent grid, connection still open)"""
        from twisted.internet.testing import StringTransport
        proto = self.site.buildProtocol(None)
        tr = StringTransport()
        proto.makeConnection(tr)
        req = b"%s %s HTTP/1.0\r\n" % (method.encode("ascii"), path if isinstance(path, bytes) else path.encode("utf-8"))
        for k, v in headers:
            req += b"%s: %s\r\n" % (k.encode("latin-1"), v if isinstance(v, bytes) else _hv(v))
        if body or method in ("PUT", "POST"):
            req += b"Content-Length: %d\r\n" % len(body)
        req += b"\r\n" + body
        proto.dataReceived(req)
        for _ in range(maxsteps):
            boot.drain()
            if tr.disconnecting or tr.disconnected:
                break
            if not self.grid.sched.step():
                break
        boot.drain()
        if not (tr.disconnecting or tr.disconnected):
            return None
        return Response(tr.value())
