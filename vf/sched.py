"""Generator-owned message scheduler for the deterministic grid (E2).

Every callRemote from client code to a storage server becomes a pending
Message.  step() delivers exactly one message (chosen by the choice stream),
fails it according to the fault plan, or fires the next timer.  Nothing happens
unless the harness makes it happen."""
from twisted.internet import defer
from twisted.python.failure import Failure
from foolscap.api import Referenceable, RemoteException, DeadReferenceError
from vf import boot


class Hang(Exception):
    """The system is quiescent (no pending message, no timer) but the awaited result never arrived."""


class InjectedError(Exception):
    pass


class Message:
    __slots__ = ("mid", "server", "client", "meth", "args", "kwargs", "target", "d", "is_response")

    def __init__(self, mid, server, client, meth, args, kwargs, target, d):
        self.mid, self.server, self.client, self.meth, self.args, self.kwargs, self.target, self.d = mid, server, client, meth, args, kwargs, target, d

    def __repr__(self):
        return "<msg %d c%s->s%s %s>" % (self.mid, self.client, self.server.idx, self.meth)


class Sched:
    def __init__(self, choices=None, allow_timer_choice=False):
        self.pending = []
        self.choices = list(choices or [])
        self.ci = 0
        self.mid = 0
        self.delivered = 0
        self.failed = 0
        self.timers_fired = 0
        self.nonfifo = 0
        self.allow_timer_choice = allow_timer_choice
        self.log = []            # (mid, client, server idx, meth, outcome)
        self.observers = []      # callables(msg, phase, result) for monitors
        self.max_timer_jump = None
        self.late = set()        # server idx whose messages are only delivered when nothing else can happen (no other message, no timer)

    # ------------------------------------------------------------------ enqueue
    def enqueue(self, server, client, meth, args, kwargs, target):
        d = defer.Deferred()
        self.mid += 1
        m = Message(self.mid, server, client, meth, args, kwargs, target, d)
        self.pending.append(m)
        for ob in self.observers:
            ob(m, "sent", None)
        return d

    def next_choice(self):
        if self.ci < len(self.choices):
            c = self.choices[self.ci]
            self.ci += 1
            return c
        return 0

    # ------------------------------------------------------------------ stepping
    def timers(self):
        return [c for c in boot.R.getDelayedCalls()]

    def fire_next_timer(self):
        calls = self.timers()
        if not calls:
            return False
        t = min(c.getTime() for c in calls)
        boot.R.advance(max(0, t - boot.R.seconds()))
        self.timers_fired += 1
        boot.drain()
        return True

    def step(self):
        """One scheduling decision.  Returns False when nothing can happen any more."""
        boot.drain()
        if boot.held_threads:
            # work given to the CPU thread pool whose result has not been handed back yet (boot.hold_threads): when it comes back, relative to
            # the messages in flight, is one more thing the schedule decides
            if not self.pending or self.next_choice() % 3 == 0:
                boot.release_thread()
                boot.drain()
                return True
        if self.pending:
            cand = [j for j, m in enumerate(self.pending) if m.server.idx not in self.late] if self.late else None
            if cand is not None and not cand:
                # only late servers have something pending: every timer fires first, then they answer
                if self.fire_next_timer():
                    return True
                cand = list(range(len(self.pending)))
            c = self.next_choice()
            if self.allow_timer_choice and c < 0 and self.timers():
                return self.fire_next_timer()
            if cand is None:
                i = abs(c) % len(self.pending)
            else:
                i = cand[abs(c) % len(cand)]
            if i != 0:
                self.nonfifo += 1
            m = self.pending.pop(i)
            self.deliver(m)
            return True
        return self.fire_next_timer()

    def deliver(self, m):
        self.delivered += 1
        srv = m.server
        outcome = srv.execute(m)       # ("ok", value) | ("err", Failure)
        self.log.append((m.mid, m.client, srv.idx, m.meth, outcome[0]))
        for ob in self.observers:
            ob(m, "delivered", outcome)
        if outcome[0] == "async":
            # the remote method returned a Deferred: the answer travels back when it fires
            outcome[1].addCallbacks(m.d.callback, m.d.errback)
        elif outcome[0] == "ok":
            m.d.callback(outcome[1])
        else:
            self.failed += 1
            m.d.errback(outcome[1])
        boot.drain()

    def run_until(self, d, maxsteps=200000):
        """Drive the system until Deferred d fires.  Returns ('ok', value) / ('err', exception) / ('hang', None)."""
        if not isinstance(d, defer.Deferred):
            d = defer.ensureDeferred(d)
        out = []
        d.addBoth(out.append)
        for _ in range(maxsteps):
            boot.drain()
            if out:
                break
            if not self.step():
                break
        boot.drain()
        if not out:
            return ("hang", None)
        if isinstance(out[0], Failure):
            return ("err", out[0].value)
        return ("ok", out[0])

    def run_all(self, ds, maxsteps=200000):
        """Drive until every Deferred in ds has fired (or nothing can happen).  Returns list of outcomes."""
        outs = [[] for _ in ds]
        for d, o in zip(ds, outs):
            d.addBoth(o.append)
        for _ in range(maxsteps):
            boot.drain()
            if all(outs):
                break
            if not self.step():
                break
        boot.drain()
        res = []
        for o in outs:
            if not o:
                res.append(("hang", None))
            elif isinstance(o[0], Failure):
                res.append(("err", o[0].value))
            else:
                res.append(("ok", o[0]))
        return res

    def settle(self, maxsteps=100000, timers=False):
        """Deliver everything that is pending (e.g. abort messages sent by a failed upload)."""
        for _ in range(maxsteps):
            boot.drain()
            if self.pending or boot.held_threads:
                self.step()
            elif timers and self.timers():
                self.fire_next_timer()
            else:
                return


def wrap_exception(e):
    return Failure(RemoteException(Failure(e)))
