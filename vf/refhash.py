"""Independent reference for every key/secret derivation (hashlib + netstring
only), written from docs/specifications and the tag table; used by C05, C16,
C17 and in-situ checks."""
import hashlib


def ns(b):
    return b"%d:" % len(b) + b + b","


def sha256d(b):
    return hashlib.sha256(hashlib.sha256(b).digest()).digest()


def tagged(tag, val, trunc=None):
    d = sha256d(ns(tag) + val)
    return d[:trunc] if trunc else d


def tagged_pair(tag, a, b, trunc=None):
    d = sha256d(ns(tag) + ns(a) + ns(b))
    return d[:trunc] if trunc else d


def chk_storage_index(key):
    return tagged(b"allmydata_immutable_key_to_storage_index_v1", key, 16)


def ssk_writekey(privkey_der):
    return tagged(b"allmydata_mutable_privkey_to_writekey_v1", privkey_der, 16)


def ssk_readkey(writekey):
    return tagged(b"allmydata_mutable_writekey_to_readkey_v1", writekey, 16)


def ssk_storage_index(readkey):
    return tagged(b"allmydata_mutable_readkey_to_storage_index_v1", readkey, 16)


def ssk_datakey(iv, readkey):
    return tagged_pair(b"allmydata_mutable_readkey_to_datakey_v1", iv, readkey, 16)


def ssk_fingerprint(pubkey_der):
    return tagged(b"allmydata_mutable_pubkey_to_fingerprint_v1", pubkey_der)


def write_enabler_master(writekey):
    return tagged(b"allmydata_mutable_writekey_to_write_enabler_master_v1", writekey)


def write_enabler(writekey, nodeid):
    return tagged_pair(b"allmydata_mutable_write_enabler_master_and_nodeid_to_write_enabler_v1", write_enabler_master(writekey), nodeid)


# NB: the client-level lease secrets use the *secret as the tag* and the constant as the value
def client_renewal(lease_secret):
    return tagged(lease_secret, b"allmydata_client_renewal_secret_v1")


def client_cancel(lease_secret):
    return tagged(lease_secret, b"allmydata_client_cancel_secret_v1")


def file_renewal(client_renewal_secret, si):
    return tagged_pair(b"allmydata_file_renewal_secret_v1", client_renewal_secret, si)


def file_cancel(client_cancel_secret, si):
    return tagged_pair(b"allmydata_file_cancel_secret_v1", client_cancel_secret, si)


def bucket_renewal(file_renewal_secret, nodeid):
    return tagged_pair(b"allmydata_bucket_renewal_secret_v1", file_renewal_secret, nodeid)


def bucket_cancel(file_cancel_secret, nodeid):
    return tagged_pair(b"allmydata_bucket_cancel_secret_v1", file_cancel_secret, nodeid)


def convergence_key(k, n, segsize, data, secret):
    tag = b"allmydata_immutable_content_to_key_with_added_secret_v1+" + ns(secret) + ns(b"%d,%d,%d" % (k, n, segsize))
    return tagged(tag, data, 16)


def dirnode_rwcap_salt(rwcap):
    return tagged(b"allmydata_dirnode_child_rwcap_to_salt_v1", rwcap, 16)


def dirnode_rwcap_key(iv, writekey):
    return tagged_pair(b"allmydata_mutable_writekey_and_salt_to_dirnode_child_capkey_v1", iv, writekey, 16)


def permute(si, seed):
    return hashlib.sha1(si + seed).digest()


def block_hash(d):
    return tagged(b"allmydata_encoded_subshare_v1", d)


def ueb_hash(d):
    return tagged(b"allmydata_uri_extension_v1", d)


def crypttext_segment_hash(d):
    return tagged(b"allmydata_crypttext_segment_v1", d)


def crypttext_hash(d):
    return tagged(b"allmydata_crypttext_v1", d)
