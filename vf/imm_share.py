"""Semantic field locator for immutable share files (container v1/v2 + share layout v1/v2), written from the
layout description in immutable/layout.py.  All positions are absolute file offsets."""
import struct

C = 0x0c  # container header size


def parse(path):
    raw = open(path, "rb").read()
    cver, clen, nleases = struct.unpack(">LLL", raw[:12])
    (sver,) = struct.unpack(">L", raw[C:C + 4])
    r = {"raw": raw, "container_version": cver, "num_leases": nleases, "share_version": sver, "fields": {}}
    f = r["fields"]
    f["container_version"] = (0, 4)
    f["container_len"] = (4, 8)
    f["num_leases"] = (8, 12)
    f["share_version"] = (C, C + 4)
    if sver == 1:
        fs, x = 4, C + 4
        fmt = ">L"
    else:
        fs, x = 8, C + 4
        fmt = ">Q"
    names = ["block_size", "data_size", "o_data", "o_plaintext_hash_tree", "o_crypttext_hash_tree", "o_block_hashes", "o_share_hashes", "o_uri_extension"]
    vals = {}
    for nme in names:
        f[nme] = (x, x + fs)
        vals[nme] = struct.unpack(fmt, raw[x:x + fs])[0]
        x += fs
    r["vals"] = vals
    lease_size = 72
    data_end_file = len(raw) - nleases * lease_size
    o = {k[2:]: C + v for k, v in vals.items() if k.startswith("o_")}
    f["data"] = (o["data"], o["plaintext_hash_tree"])
    f["plaintext_hash_tree"] = (o["plaintext_hash_tree"], o["crypttext_hash_tree"])
    f["crypttext_hash_tree"] = (o["crypttext_hash_tree"], o["block_hashes"])
    f["block_hashes"] = (o["block_hashes"], o["share_hashes"])
    f["share_hashes"] = (o["share_hashes"], o["uri_extension"])
    f["ueb_len"] = (o["uri_extension"], o["uri_extension"] + fs)
    (ueblen,) = struct.unpack(fmt, raw[o["uri_extension"]:o["uri_extension"] + fs])
    f["ueb"] = (o["uri_extension"] + fs, o["uri_extension"] + fs + ueblen)
    f["leases"] = (data_end_file, len(raw))
    r["share_end"] = f["ueb"][1]
    return r


# fields whose corruption a download may legitimately never notice
UNUSED_FIELDS = {"container_len", "block_size", "data_size", "plaintext_hash_tree", "o_plaintext_hash_tree", "leases", "num_leases"}


def patch(path, pos, new_bytes):
    if pos < 0 or pos > (1 << 31):
        return False       # an earlier damage made the offset table nonsensical: nothing to patch there
    with open(path, "r+b") as fh:
        fh.seek(pos)
        fh.write(new_bytes)


def flip(path, pos, mask=0x01):
    if pos < 0 or pos > (1 << 31):
        return False
    with open(path, "r+b") as fh:
        fh.seek(pos)
        b = fh.read(1)
        if not b:
            return False
        fh.seek(pos)
        fh.write(bytes([b[0] ^ (mask or 1)]))
    return True


def truncate(path, length):
    with open(path, "r+b") as fh:
        fh.truncate(max(0, min(length, 1 << 31)))
