"""Semantic field locator for mutable share files (container + SDMF / MDMF share layouts), written from the layout tables in
mutable/layout.py and storage/mutable.py.  All positions are absolute file offsets."""
import struct

DATA = 468          # container header (100) + 4 lease slots (4*92)


def parse(path):
    raw = open(path, "rb").read()
    (datalen,) = struct.unpack(">Q", raw[84:92])
    share = raw[DATA:DATA + datalen]
    F = {}
    r = {"raw": raw, "share_len": datalen, "fields": F}
    ver = share[0] if share else None
    r["version"] = ver

    def fld(name, a, b):
        F[name] = (DATA + a, DATA + b)
    if ver == 0:
        (version, seqnum, root_hash, IV, k, N, segsize, dlen, o_sig, o_shc, o_bht, o_sd, o_epk, o_eof) = struct.unpack(">BQ32s16sBBQQLLLLQQ", share[:107])
        r.update(seqnum=seqnum, root_hash=root_hash, k=k, N=N, segsize=segsize, datalen=dlen)
        fld("version", 0, 1); fld("seqnum", 1, 9); fld("root_hash", 9, 41); fld("IV", 41, 57); fld("k", 57, 58); fld("N", 58, 59)
        fld("segsize", 59, 67); fld("datalen", 67, 75)
        fld("o_signature", 75, 79); fld("o_share_hash_chain", 79, 83); fld("o_block_hash_tree", 83, 87); fld("o_share_data", 87, 91)
        fld("o_enc_privkey", 91, 99); fld("o_EOF", 99, 107)
        fld("pubkey", 107, o_sig); fld("signature", o_sig, o_shc); fld("share_hash_chain", o_shc, o_bht); fld("block_hash_tree", o_bht, o_sd)
        fld("share_data", o_sd, o_epk); fld("enc_privkey", o_epk, o_eof)
    elif ver == 1:
        (version, seqnum, root_hash, k, N, segsize, dlen, o_epk, o_shc, o_sig, o_vk, o_vkend, o_sd, o_bht, o_eof) = struct.unpack(">BQ32sBBQQQQQQQQQQ", share[:123])
        r.update(seqnum=seqnum, root_hash=root_hash, k=k, N=N, segsize=segsize, datalen=dlen)
        fld("version", 0, 1); fld("seqnum", 1, 9); fld("root_hash", 9, 41); fld("k", 41, 42); fld("N", 42, 43); fld("segsize", 43, 51); fld("datalen", 51, 59)
        for i, nm in enumerate(["o_enc_privkey", "o_share_hash_chain", "o_signature", "o_verification_key", "o_verification_key_end", "o_share_data", "o_block_hash_tree", "o_EOF"]):
            fld(nm, 59 + 8 * i, 67 + 8 * i)
        fld("enc_privkey", 123, o_shc); fld("share_hash_chain", o_shc, o_sig); fld("signature", o_sig, o_vk); fld("pubkey", o_vk, o_vkend)
        fld("share_data", o_sd, o_bht); fld("block_hash_tree", o_bht, o_eof)
        if o_bht - o_sd >= 16:
            fld("salt0", o_sd, o_sd + 16)
    return r


NUMERIC = ["version", "seqnum", "k", "N", "segsize", "datalen"]
REGIONS = ["root_hash", "IV", "pubkey", "signature", "share_hash_chain", "block_hash_tree", "share_data", "enc_privkey", "salt0"]


def offsets_of(info):
    return [f for f in info["fields"] if f.startswith("o_")]


def patch(path, pos, new_bytes):
    if pos < 0 or pos > (1 << 31):
        return False       # an earlier damage made the offset table nonsensical: nothing to patch there
    with open(path, "r+b") as fh:
        fh.seek(pos)
        fh.write(new_bytes)


def flip(path, pos, mask=1):
    if pos < 0 or pos > (1 << 31):
        return False
    with open(path, "r+b") as fh:
        fh.seek(pos)
        b = fh.read(1)
        if not b:
            return False
        fh.seek(pos)
        fh.write(bytes([b[0] ^ (mask or 1)]))
    return True


def truncate_share(path, share_len):
    """Shorten the share DATA to share_len bytes (container data-length field updated, like a server-side truncation)."""
    with open(path, "r+b") as fh:
        raw = fh.read()
        (datalen,) = struct.unpack(">Q", raw[84:92])
        share_len = max(0, min(share_len, datalen))
        fh.seek(84)
        fh.write(struct.pack(">Q", share_len))
