"""E2 'detgrid': a complete client(s)+servers grid in one process on the fake
reactor.  Real StorageServer / FoolscapStorageServer / StorageFarmBroker /
NativeStorageServer / Uploader / NodeMaker; only the wire is replaced by the
scheduler in vf/sched.py."""
import os, glob, hashlib
from twisted.internet import defer
from twisted.python.failure import Failure
from twisted.application import service
from twisted.internet.interfaces import IConsumer
from zope.interface import implementer
from foolscap.api import Referenceable, RemoteException, DeadReferenceError
from vf import boot, store
from vf.sched import Sched, InjectedError

_KEYS = None


def fixture_keys():
    global _KEYS
    if _KEYS is None:
        from allmydata.crypto import rsa
        home = os.environ.get("VERIF_HOME", os.path.dirname(os.path.dirname(os.path.abspath(__file__))))
        _KEYS = []
        for p in sorted(glob.glob(os.path.join(home, "fixtures", "rsa", "*.der"))):
            priv, pub = rsa.create_signing_keypair_from_string(open(p, "rb").read())
            _KEYS.append((pub, priv))
    return _KEYS


class KeyGen:
    """Hands out committed fixture keypairs in draw order (RSA generation is slow and uses OpenSSL's RNG)."""

    def __init__(self, start=0):
        self.i = start

    def generate(self):
        keys = fixture_keys()
        # the case's hash salt also selects which fixture keys the case uses: the storage index, and with it the servers' permuted order, varies between cases
        k = keys[(self.i + boot._hash_salt[0]) % len(keys)]
        self.i += 1
        return defer.succeed(k)


class RemoteRef:
    """What client code sees as a foolscap RemoteReference."""

    def __init__(self, server, target, client):
        self.server, self.target, self.client = server, target, client

    def callRemote(self, methname, *args, **kwargs):
        return self.server.grid.sched.enqueue(self.server, self.client, methname, args, kwargs, self.target)

    def callRemoteOnly(self, methname, *args, **kwargs):
        d = self.callRemote(methname, *args, **kwargs)
        d.addErrback(lambda f: None)
        return None

    def notifyOnDisconnect(self, f, *a, **k):
        return self.server.client_canary(self.client).notifyOnDisconnect(f, *a, **k)

    def dontNotifyOnDisconnect(self, m):
        self.server.client_canary(self.client).dontNotifyOnDisconnect(m)

    def getDataLastReceivedAt(self):
        return None

    def getRemoteTubID(self):
        return "tub%d" % self.server.idx

    def getLocationHints(self):
        return []

    def getPeer(self):
        return None

    def __repr__(self):
        return "<RemoteRef s%d %s>" % (self.server.idx, type(self.target).__name__)


class ServerNode:
    def __init__(self, grid, idx, basedir, **kw):
        from allmydata.storage.server import FoolscapStorageServer
        from allmydata.util import base32
        self.grid, self.idx = grid, idx
        self.nodeid = hashlib.sha256(b"nodeid-%d" % idx).digest()[:20]
        self.server_id = b"v0-" + base32.b2a(hashlib.sha256(b"serverkey-%d" % idx).digest())
        self.ss = store.make_server(basedir, self.nodeid, **kw)
        self.fss = FoolscapStorageServer(self.ss)
        self.down = False
        self.calls = {}              # meth -> number delivered so far
        self.total_calls = 0
        self.fail = {}               # meth -> "all" | set of 0-based occurrence numbers  (injected RemoteException)
        self.dead_for = {}           # meth -> "all" | set  (DeadReferenceError for that call only)
        self.disconnect_after = None  # total delivered calls after which the connection drops
        self.fail_after = {}         # meth -> "all" | set: the call IS executed, but the client sees a connection error instead of the answer
        self.transform = None        # fn(server, msg, result) -> result   (lying server)
        self.before = None           # fn(server, msg) hook executed just before the call
        self.canaries = {}
        self.received = []           # (client, meth, args) log for in-situ checks

    def client_canary(self, client):
        if client not in self.canaries:
            self.canaries[client] = store.Canary()
        return self.canaries[client]

    def disconnect(self):
        """Connection loss: later calls fail, disconnect callbacks (BucketWriter.disconnected, client-side notifiers) fire."""
        self.down = True
        for c in list(self.canaries.values()):
            c.disconnect()

    def reconnect(self):
        self.down = False

    def wrap_out(self, obj, client):
        if isinstance(obj, Referenceable):
            return RemoteRef(self, obj, client)
        if isinstance(obj, dict):
            return {k: self.wrap_out(v, client) for k, v in obj.items()}
        if isinstance(obj, tuple):
            return tuple(self.wrap_out(v, client) for v in obj)
        return obj

    def execute(self, m):
        n = self.calls.get(m.meth, 0)
        self.calls[m.meth] = n + 1
        self.total_calls += 1
        if self.down:
            return ("err", Failure(DeadReferenceError("server %d is disconnected" % self.idx)))
        spec = self.dead_for.get(m.meth)
        if spec == "all" or (spec and n in spec):
            return ("err", Failure(DeadReferenceError("injected connection loss on %s" % m.meth)))
        spec = self.fail.get(m.meth)
        if spec == "all" or (spec and n in spec):
            return ("err", Failure(RemoteException(Failure(InjectedError("injected failure of %s #%d on server %d" % (m.meth, n, self.idx))))))
        # arguments: a Referenceable passed by the client (the canary) becomes the connection's canary
        args = tuple(self.client_canary(m.client) if isinstance(a, Referenceable) else a for a in m.args)
        kwargs = {k: (self.client_canary(m.client) if isinstance(v, Referenceable) else v) for k, v in m.kwargs.items()}
        self.received.append((m.client, m.meth, args))
        if self.before:
            self.before(self, m)
        try:
            res = getattr(m.target, "remote_" + m.meth)(*args, **kwargs)
        except Exception as e:
            out = ("err", Failure(RemoteException(Failure(e))))
        else:
            if self.transform:
                res = self.transform(self, m, res)
            out = ("ok", self.wrap_out(res, m.client))
            spec = self.fail_after.get(m.meth)
            if spec == "all" or (spec and n in spec):
                out = ("err", Failure(DeadReferenceError("connection lost before the answer to %s arrived" % m.meth)))
        if self.disconnect_after is not None and self.total_calls >= self.disconnect_after:
            self.disconnect_after = None
            self.disconnect()
        return out

    # ---- share-level access for adversary helpers ---------------------------------
    def share_paths(self, storage_index):
        from allmydata.storage.common import storage_index_to_dir
        d = os.path.join(self.ss.sharedir, storage_index_to_dir(storage_index))
        if not os.path.isdir(d):
            return {}
        return {int(f): os.path.join(d, f) for f in os.listdir(d) if f.isdigit()}


class _Parent(service.MultiService):
    def __init__(self, client):
        service.MultiService.__init__(self)
        self.c = client

    def get_encoding_parameters(self):
        return self.c.params

    def get_storage_broker(self):
        return self.c.broker

    @property
    def _secret_holder(self):
        return self.c.secret_holder


class ClientNode:
    def __init__(self, grid, idx, params, lease_secret=None, convergence=b"conv-secret", keystart=0, basedir=None, preferred=(), gm_keys=None, gm_certs=None):
        from allmydata.storage_client import StorageFarmBroker
        from allmydata.client import SecretHolder, Terminator
        from allmydata.immutable.upload import Uploader
        from allmydata.nodemaker import NodeMaker
        from allmydata.node import config_from_string
        from allmydata.interfaces import SDMF_VERSION
        self.grid, self.idx, self.params = grid, idx, dict(params)
        cfg = config_from_string(basedir or grid.basedir, "client.port", "")
        # gm_keys: grid-manager public keys this client is configured with; gm_certs: {server idx: [certificate dicts]} as the servers announce them
        self.gm_certs = gm_certs or {}
        if gm_keys:
            from allmydata.storage_client import StorageClientConfig
            self.broker = StorageFarmBroker(True, None, cfg, StorageClientConfig(grid_manager_keys=list(gm_keys)))
        else:
            self.broker = StorageFarmBroker(True, None, cfg)
        self.lease_secret = lease_secret or hashlib.sha256(b"lease-secret-%d" % idx).digest()
        self.secret_holder = SecretHolder(self.lease_secret, convergence)
        self.parent = _Parent(self)
        self.uploader = Uploader()
        self.uploader.setServiceParent(self.parent)
        self.terminator = Terminator()
        self.terminator.setServiceParent(self.parent)
        self.parent.startService()
        self.keygen = KeyGen(keystart)
        self.nodemaker = NodeMaker(self.broker, self.secret_holder, None, self.uploader, self.terminator, self.params, SDMF_VERSION, self.keygen, None)
        for s in grid.servers:
            self.connect(s)

    def connect(self, s):
        from allmydata.util import base32
        rref = RemoteRef(s, s.fss, self.idx)
        rref.version = s.fss.remote_get_version()
        ann = {"anonymous-storage-FURL": "pb://%s@nowhere/fake%d" % (str(base32.b2a(s.nodeid), "ascii"), s.idx),
               "permutation-seed-base32": str(base32.b2a(s.nodeid), "ascii"), "nickname": "s%d" % s.idx}
        if s.idx in self.gm_certs:
            ann["grid-manager-certificates"] = list(self.gm_certs[s.idx])
        self.broker.test_add_rref(s.server_id, rref, ann)

    def forget(self, s):
        """the server has left the grid as far as this client knows (connect() brings it back)"""
        self.broker.servers.pop(s.server_id, None)

    def upload(self, uploadable):
        return self.uploader.upload(uploadable)


class Grid:
    def __init__(self, basedir, nservers, params, choices=None, nclients=1, allow_timer_choice=False, server_kw=None, client_kw=None):
        self.basedir = basedir
        self.sched = Sched(choices, allow_timer_choice)
        self.servers = []
        for i in range(nservers):
            kw = dict((server_kw or {}).get(i, {}))
            self.servers.append(ServerNode(self, i, os.path.join(basedir, "s%d" % i), **kw))
        self.clients = [ClientNode(self, c, params, keystart=c * 7, **(client_kw or {})) for c in range(nclients)]

    @property
    def c0(self):
        return self.clients[0]

    def add_client(self, params=None, **kw):
        c = ClientNode(self, len(self.clients), params or self.c0.params, **kw)
        self.clients.append(c)
        return c

    def run(self, d, **kw):
        return self.sched.run_until(d, **kw)

    def all_share_paths(self, storage_index):
        """[(server idx, shnum, path)]"""
        out = []
        for s in self.servers:
            for shnum, p in sorted(s.share_paths(storage_index).items()):
                out.append((s.idx, shnum, p))
        return out

    def stop(self):
        boot.cancel_all_timers()


# ---- helpers used by many properties -------------------------------------------------
@implementer(IConsumer)
class Consumer:
    """IConsumer that records what it gets and can pause/resume/stop after the n-th write."""

    def __init__(self, script=None):
        self.chunks = []
        self.producer = None
        self.script = dict(script or {})   # write number -> "pause" | "stop"
        self.nwrites = 0
        self.paused = False
        self.stopped = False

    def registerProducer(self, p, streaming):
        # same protocol as allmydata.util.consumer.MemoryConsumer
        self.producer = p
        self.done = False
        if streaming:
            p.resumeProducing()
        else:
            while not self.done:
                p.resumeProducing()

    def unregisterProducer(self):
        self.done = True
        self.producer = None

    def write(self, data):
        self.chunks.append(bytes(data))
        self.nwrites += 1
        act = self.script.get(self.nwrites)
        if act == "pause" and self.producer:
            self.paused = True
            self.producer.pauseProducing()
        elif act == "stop" and self.producer:
            self.stopped = True
            self.producer.stopProducing()

    def resume(self):
        if self.paused and self.producer:
            self.paused = False
            self.producer.resumeProducing()

    def data(self):
        return b"".join(self.chunks)


def read_node(node, offset=0, size=None, consumer=None):
    c = consumer or Consumer()
    d = node.read(c, offset, size)
    d.addCallback(lambda ign: c.data())
    return d
