"""Generic scheduled endpoints for protocols other than client->storage server (helper <-> client): every callRemote in either direction becomes a
scheduler message; Referenceables in arguments and results are replaced by remote references to the peer that owns them."""
from twisted.internet import defer
from twisted.python.failure import Failure
from foolscap.api import Referenceable, RemoteException, DeadReferenceError
from vf import store
from vf.sched import InjectedError


class PeerRef:
    """Remote reference held by `holder` to an object living in `owner`."""

    def __init__(self, owner, target, holder):
        self.owner, self.target, self.holder = owner, target, holder
        self.version = None

    def callRemote(self, methname, *args, **kwargs):
        return self.owner.grid.sched.enqueue(self.owner, self.holder, methname, args, kwargs, self.target)

    def callRemoteOnly(self, methname, *args, **kwargs):
        self.callRemote(methname, *args, **kwargs).addErrback(lambda f: None)

    def notifyOnDisconnect(self, f, *a, **k):
        return self.owner.canary.notifyOnDisconnect(f, *a, **k)

    def dontNotifyOnDisconnect(self, m):
        self.owner.canary.dontNotifyOnDisconnect(m)

    def getRemoteTubID(self):
        return "peer-%s" % self.owner.idx

    def getLocationHints(self):
        return []

    def getPeer(self):
        return None

    def __repr__(self):
        return "<PeerRef %s.%s>" % (self.owner.idx, type(self.target).__name__)


class Peer:
    def __init__(self, grid, idx):
        self.grid, self.idx = grid, idx
        self.down = False
        self.calls = {}
        self.total_calls = 0
        self.fail = {}           # meth -> "all" | set of occurrence numbers: DeadReferenceError instead of executing
        self.canary = store.Canary()

    def ref(self, obj, holder):
        return PeerRef(self, obj, holder)

    def disconnect(self):
        self.down = True
        self.canary.disconnect()

    def wrap(self, obj, other):
        """Objects of mine that travel to `other`."""
        if isinstance(obj, Referenceable):
            return PeerRef(self, obj, other)
        if isinstance(obj, dict):
            return {k: self.wrap(v, other) for k, v in obj.items()}
        if isinstance(obj, tuple):
            return tuple(self.wrap(v, other) for v in obj)
        if isinstance(obj, list):
            return [self.wrap(v, other) for v in obj]
        return obj

    def execute(self, m):
        n = self.calls.get(m.meth, 0)
        self.calls[m.meth] = n + 1
        self.total_calls += 1
        if self.down:
            return ("err", Failure(DeadReferenceError("peer %s is disconnected" % self.idx)))
        spec = self.fail.get(m.meth)
        if spec == "all" or (spec and n in spec):
            return ("err", Failure(DeadReferenceError("injected connection loss on %s #%d" % (m.meth, n))))
        caller = m.client
        wrap_in = getattr(caller, "wrap", None)
        args = tuple(wrap_in(a, self) if wrap_in else a for a in m.args)
        kwargs = {k: (wrap_in(v, self) if wrap_in else v) for k, v in m.kwargs.items()}
        try:
            res = getattr(m.target, "remote_" + m.meth)(*args, **kwargs)
        except Exception as e:
            return ("err", Failure(RemoteException(Failure(e))))
        if isinstance(res, defer.Deferred):
            d = defer.Deferred()
            res.addCallbacks(lambda v: d.callback(self.wrap(v, caller)), lambda f: d.errback(Failure(RemoteException(f))))
            return ("async", d)
        return ("ok", self.wrap(res, caller))
