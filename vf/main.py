import os, sys, argparse


def main():
    ap = argparse.ArgumentParser()
    ap.add_argument("prop")
    ap.add_argument("--tier", default=os.environ.get("VERIF_TIER", "quick"), choices=["quick", "thorough"])
    ap.add_argument("--replay")
    ap.add_argument("--shard", type=int)
    ap.add_argument("--jobs", type=int)
    a = ap.parse_args()
    try:
        seed = int(os.environ.get("VERIF_SEED", "1"))
    except ValueError:
        seed = 1
    from vf import core
    try:
        if a.replay:
            rc = core.run_replay(a.prop, a.replay)
        else:
            rc = core.run_check(a.prop, a.tier, seed, a.shard, a.jobs)
    except core.HarnessError as e:
        print("HARNESS-ERROR %s" % e)
        rc = 2
    except Exception:
        import traceback
        traceback.print_exc()
        print("HARNESS-ERROR property=%s" % a.prop)
        rc = 2
    sys.stdout.flush()
    os._exit(rc)


if __name__ == "__main__":
    main()
