"""In-memory HTTP storage stack: StorageServer -> HTTPServer resource -> treq StubTreq -> StorageClient -> _HTTPStorageServer, all on the fake clock
(the arrangement the repository's own HTTP tests use), plus the direct twin: StorageServer -> FoolscapStorageServer -> _StorageServer."""
import os
from twisted.internet import defer
from twisted.python.failure import Failure
from vf import boot, store

_coop_installed = False


def install_cooperator():
    global _coop_installed
    if _coop_installed:
        return
    from twisted.internet.task import Cooperator
    import twisted.internet.task as task
    task._theCooperator = Cooperator(scheduler=lambda c: boot.R.callLater(0.000001, c))
    _coop_installed = True


class HTTPStack:
    def __init__(self, basedir, swissnum=b"abcd" * 4, **kw):
        from treq.testing import StubTreq
        from hyperlink import DecodedURL
        from allmydata.storage.http_server import HTTPServer
        from allmydata.storage.http_client import StorageClient, StorageClientFactory
        from allmydata.storage_client import _HTTPStorageServer
        install_cooperator()
        self.ss = store.make_server(basedir, **kw)
        self.swissnum = swissnum
        self.http_server = HTTPServer(boot.R, self.ss, swissnum)
        self.treq = StubTreq(self.http_server.get_resource())
        StorageClientFactory.start_test_mode(lambda pool: None)
        self.client = StorageClient(DecodedURL.from_text("http://127.0.0.1"), swissnum, treq=self.treq, pool=None, clock=boot.R)
        self.istorage = _HTTPStorageServer.from_http_client(self.client)

    def result(self, d, maxit=20000):
        """Drive the fake clock and the in-memory HTTP transport until d fires.  -> ('ok', value) | ('err', exception) | ('hang', None)"""
        if not isinstance(d, defer.Deferred):
            d = defer.ensureDeferred(d)
        out = []
        d.addBoth(out.append)
        for _ in range(maxit):
            if out:
                break
            boot.R.advance(0.001)
            self.treq.flush()
        if not out:
            return ("hang", None)
        if isinstance(out[0], Failure):
            return ("err", out[0].value)
        return ("ok", out[0])


class _SyncRref:
    def __init__(self, target):
        self.target = target

    def callRemote(self, name, *a, **k):
        def call():
            res = getattr(self.target, "remote_" + name)(*a, **k)
            return _wrap(res)
        return defer.maybeDeferred(call)


def _wrap(obj):
    from foolscap.api import Referenceable
    if isinstance(obj, Referenceable):
        return _SyncRref(obj)
    if isinstance(obj, dict):
        return {k: _wrap(v) for k, v in obj.items()}
    if isinstance(obj, tuple):
        return tuple(_wrap(v) for v in obj)
    return obj


class DirectStack:
    def __init__(self, basedir, **kw):
        from allmydata.storage.server import FoolscapStorageServer
        from allmydata.storage_client import _StorageServer
        self.ss = store.make_server(basedir, **kw)
        self.fss = FoolscapStorageServer(self.ss)
        rref = _SyncRref(self.fss)
        self.istorage = _StorageServer(get_rref=lambda: rref)

    def result(self, d, maxit=2000):
        if not isinstance(d, defer.Deferred):
            d = defer.ensureDeferred(d)
        out = []
        d.addBoth(out.append)
        for _ in range(maxit):
            if out:
                break
            boot.R.advance(0.001)
        if not out:
            return ("hang", None)
        if isinstance(out[0], Failure):
            return ("err", out[0].value)
        return ("ok", out[0])
