"""Wire-level monitor for mutable writes (shared by C12 and C47): a write that a server APPLIES must hit a share whose state equals what the
writing client was last shown there (or nothing, if it was shown that the share is absent / never asked)."""
import struct

W = "slot_testv_and_readv_and_writev"


def checkstring(data):
    """seqnum + root hash (+ IV for SDMF) prefix that identifies a share's version"""
    if not data or len(data) < 41:
        return None
    return bytes(data[:41])


class ClobberMonitor:
    def __init__(self, g):
        self.g = g
        self.seen = {}        # (client, server, shnum) -> checkstring bytes | "absent"
        self.refused = set()  # clients that got wrote=False
        self.applied = []     # (client, server, shnums)
        self.problems = []
        self.own = {}         # client -> checkstrings that client has itself sent as the new head of a share
        self.encountered = [] # (client, text): an answer to a write showed that client a share in a state it had neither been shown before nor written itself
        g.sched.observers.append(self._ob)
        g.sched.observers.append(self._after)
        for s in g.servers:
            s.before = self._before

    @staticmethod
    def on_disk(srv, si, shnum):
        p = srv.share_paths(si).get(shnum)
        if not p:
            return None
        from allmydata.storage.mutable import MutableShareFile
        return checkstring(MutableShareFile(p).readv([(0, 41)])[0])

    def _ob(self, m, phase, res):
        if phase != "delivered" or res[0] != "ok":
            return
        if m.meth == "slot_readv":
            si, shares, readv = m.args
            first = next((i for i, (o, l) in enumerate(readv) if o == 0 and l >= 41), None)
            if first is not None:
                for sh, datav in res[1].items():
                    cs = checkstring(datav[first])
                    if cs:
                        self.seen[(m.client, m.server.idx, sh)] = cs
                if not shares:
                    for key in [kk for kk in self.seen if kk[0] == m.client and kk[1] == m.server.idx and kk[2] not in res[1]]:
                        self.seen[key] = "absent"
        elif m.meth == W:
            wrote, readdata = res[1]
            if not wrote:
                self.refused.add(m.client)
            for sh, datav in sorted(readdata.items()):
                cs = checkstring(datav[0]) if datav else None
                if not cs:
                    continue
                last = self.seen.get((m.client, m.server.idx, sh))
                if cs != last and cs not in self.own.get(m.client, ()):
                    self.encountered.append((m.client, "the answer to its write of share(s) %r on server %d showed share %d there as seq%d %s, which it had %s and did not write itself" % (
                        sorted(m.args[2]), m.server.idx, sh, struct.unpack(">Q", cs[1:9])[0], cs[9:13].hex(),
                        "last seen as seq%d %s" % (struct.unpack(">Q", last[1:9])[0], last[9:13].hex()) if isinstance(last, bytes) else "never been shown")))

    def _before(self, srv, m):
        if m.meth != W:
            return
        si, secrets, tw, rv = m.args
        for sh, (testv, writev, newlen) in tw.items():
            for (o, data) in writev:
                if o == 0 and len(data) >= 41:
                    self.own.setdefault(m.client, set()).add(bytes(data[:41]))
        srv._pre = (m.mid, {sh: self.on_disk(srv, si, sh) for sh in tw})

    def _after(self, m, phase, res):
        if phase != "delivered" or m.meth != W or res[0] != "ok" or not res[1][0]:
            return
        srv = m.server
        mid, pre = srv._pre
        si, secrets, tw, rv = m.args
        for sh, (testv, writev, newlen) in tw.items():
            if not writev and newlen is None:
                continue
            p = pre.get(sh)
            if p is not None:
                last = self.seen.get((m.client, srv.idx, sh))
                if last != p:
                    def d(cs):
                        return "absent/never seen" if cs in (None, "absent") else "seq%d %s" % (struct.unpack(">Q", cs[1:9])[0], cs[9:13].hex())
                    self.problems.append("client %d overwrote share %d on server %d which held %s, but that client had last seen %s there (test vector sent: %r)" % (
                        m.client, sh, srv.idx, d(p), d(last), [(o, l, op, (s[:13].hex() if isinstance(s, bytes) else s)) for (o, l, op, s) in testv]))
            now = self.on_disk(srv, si, sh)
            if now:
                self.seen[(m.client, srv.idx, sh)] = now
        self.applied.append((m.client, srv.idx, tuple(tw)))
