"""Deterministic bootstrap.  install() MUST run before anything imports
allmydata or twisted.internet.reactor.

* installs a MemoryReactorClock as the global reactor (no real event loop)
* replaces time.time by EPOCH + reactor.seconds()
* replaces os.urandom by a seeded stream (reseed() per case)
* makes allmydata's CPU thread pool synchronous
"""
import os, sys, time, random, hashlib

EPOCH = 1_700_000_000.0
R = None
_real_time = time.time
_real_urandom = os.urandom
_installed = False


class _URandom:
    def __init__(self):
        self.reseed(0)

    def reseed(self, n):
        self.key = hashlib.sha256(b"verif-urandom-%d" % n).digest()
        self.ctr = 0

    def __call__(self, n):
        out = b""
        while len(out) < n:
            out += hashlib.sha256(self.key + self.ctr.to_bytes(8, "big")).digest()
            self.ctr += 1
        return out[:n]


URANDOM = _URandom()


def real_time():
    return _real_time()


def install():
    global R, _installed
    if _installed:
        return R
    from twisted.internet.testing import MemoryReactorClock
    from twisted.internet import main as _main

    R = MemoryReactorClock()
    R.callFromThread = lambda f, *a, **k: R.callLater(0, f, *a, **k)
    # some code asks for these
    R.getThreadPool = lambda: None
    _main.installReactor(R)
    R.rightNow = EPOCH
    time.time = lambda: R.seconds()
    os.urandom = URANDOM
    import allmydata.util.cputhreadpool as ctp

    ctp._DISABLED = True
    ctp.deferToThreadPool = _fake_defer_to_thread_pool
    # quiet logging
    try:
        import logging

        logging.disable(logging.CRITICAL)
    except Exception:
        pass
    try:
        from twisted.python import log as tlog
        # swallow "Unhandled error in Deferred" noise; checks look at results explicitly
        tlog.theLogPublisher.observers[:] = []
        from twisted.logger import globalLogBeginner
        globalLogBeginner.beginLoggingTo([lambda ev: None], redirectStandardIO=False, discardBuffer=True)
    except Exception:
        pass
    try:
        from foolscap.logging import log as flog

        flog.theLogger.setLogDir = lambda *a, **k: None
    except Exception:
        pass
    _installed = True
    install_det_hash()
    return R


def _fake_defer_to_thread_pool(reactor, pool, f, *args, **kwargs):
    """Stand-in for the CPU thread pool when set_thread_mode(True) is active: the function runs at once (as a free worker thread would
    start it), but its result is handed back in a later reactor turn, as callFromThread does.  Code that keeps state on an object
    across `await defer_to_thread(...)` therefore sees other work interleave, as in production."""
    from twisted.internet import defer
    from twisted.python.failure import Failure
    d = defer.Deferred()
    try:
        res = f(*args, **kwargs)
    except BaseException:
        res = Failure()
    if _hold_threads[0]:
        # the caller of hold_threads() decides when each result comes back (release_thread)
        held_threads.append((d, res))
        _held_total[0] += 1
    else:
        R.callLater(0, d.callback, res)
    return d


_hold_threads = [False]
_held_total = [0]
held_threads = []


def hold_threads(on):
    """With set_thread_mode(True): results of defer_to_thread are kept back until release_thread() hands the oldest one over, so the harness
    can let other events (a consumer stopping, a new read) happen while e.g. a segment decode is 'in its worker thread'."""
    _hold_threads[0] = bool(on)
    del held_threads[:]
    _held_total[0] = 0


def release_thread():
    if not held_threads:
        return False
    d, res = held_threads.pop(0)
    d.callback(res)
    return True


def set_thread_mode(asynchronous):
    """False / "sync" (default): defer_to_thread runs synchronously (the repository's own test switch).  True / "async": results arrive in a later
    turn.  "held": results arrive when the scheduler (vf/sched.py step) or the case's own loop releases them."""
    import allmydata.util.cputhreadpool as ctp
    if isinstance(asynchronous, str):
        hold_threads(asynchronous == "held")
        asynchronous = asynchronous in ("async", "held")
    ctp._DISABLED = not asynchronous


_hash_counter = [0]
_hash_salt = [0]


def _det_hash(self):
    """Deterministic replacement for the default id()-based __hash__ of objects the code under test keeps in sets and as dict keys
    (shares, servers, observers, request tokens): the number is assigned at first use from a per-case counter, so the iteration order
    of such sets is a function of the case (creation/first-use order and the case's 'hsalt'), not of memory addresses."""
    d = self.__dict__
    h = d.get("_vf_h")
    if h is None:
        _hash_counter[0] += 1
        h = d["_vf_h"] = ((_hash_counter[0] * 0x9E3779B1) ^ (_hash_salt[0] * 0x85EBCA6B)) & 0x3FFFFFFF
    return h


def install_det_hash():
    import importlib
    for modname, clsname in (("allmydata.immutable.downloader.share", "Share"), ("allmydata.immutable.downloader.share", "CommonShare"),
                             ("allmydata.immutable.downloader.finder", "RequestToken"), ("allmydata.immutable.downloader.fetcher", "SegmentFetcher"),
                             ("allmydata.immutable.downloader.node", "Cancel"), ("allmydata.util.observer", "EventStreamObserver"),
                             ("allmydata.util.observer", "OneShotObserverList"), ("allmydata.storage_client", "NativeStorageServer"),
                             ("allmydata.storage_client", "HTTPNativeStorageServer"), ("allmydata.immutable.layout", "WriteBucketProxy"),
                             ("allmydata.immutable.layout", "ReadBucketProxy"), ("allmydata.mutable.layout", "MDMFSlotReadProxy"),
                             ("allmydata.immutable.upload", "ServerTracker"), ("vf.grid", "RemoteRef"), ("vf.grid", "ServerNode")):
        try:
            cls = getattr(importlib.import_module(modname), clsname)
        except Exception:
            continue
        if "__hash__" not in cls.__dict__ and "__eq__" not in cls.__dict__ and "__slots__" not in cls.__dict__:
            cls.__hash__ = _det_hash


def set_hash_salt(n):
    _hash_salt[0] = int(n or 0)


def reseed(n=0):
    """Called at the start of every case: same pseudo-random environment for
    every case, so a case is a pure function of its JSON description."""
    URANDOM.reseed(n)
    random.seed(n)
    _hash_counter[0] = 0
    _hash_salt[0] = 0


def now():
    return R.seconds()


class LocalLivelock(Exception):
    """The code under test keeps scheduling zero-delay calls for itself without any message or timer: it will never finish."""


def drain(limit=6000):
    """Run every zero-delay call (foolscap eventually(), callLater(0))."""
    for _ in range(limit):
        calls = [c for c in R.getDelayedCalls() if c.getTime() <= R.seconds()]
        if not calls:
            return
        R.advance(0)
    raise LocalLivelock("the local event queue never empties (%d consecutive zero-delay turns): the operation spins without network traffic" % limit)


def cancel_all_timers():
    for c in list(R.getDelayedCalls()):
        try:
            c.cancel()
        except Exception:
            pass


def cancel_all_timers_keep_immediate():
    """Cancel delayed calls that lie in the future; zero-delay calls (the eventual-send queue) are left to be drained."""
    for c in list(R.getDelayedCalls()):
        if c.getTime() > R.seconds():
            try:
                c.cancel()
            except Exception:
                pass
