"""Core of the framework: case context, violations, known findings, the
Hypothesis driver, sharded execution, evidence, replay."""
import os, sys, json, time, hashlib, traceback, importlib, shutil, tempfile, collections

HOME = os.environ.get("VERIF_HOME", os.path.dirname(os.path.dirname(os.path.abspath(__file__))))


class Violation(Exception):
    def __init__(self, kind, msg, detail=None):
        Exception.__init__(self, "%s: %s" % (kind, msg))
        self.kind = kind
        self.msg = msg
        self.detail = detail or {}


class HarnessError(Exception):
    pass


def crash_to_violation(e):
    """An exception that escapes run_case from *inside the code under test* (innermost frame in
    allmydata/) on an input the property module considers valid is reported as a violation
    (kind crash:<Type>@<module>.<function>); anything raised from harness code stays a harness error."""
    from vf import boot
    if isinstance(e, boot.LocalLivelock):
        return Violation("local-livelock", str(e), {})
    tb = traceback.extract_tb(e.__traceback__)
    if not tb:
        return None
    inner = tb[-1]
    fn = inner.filename.replace("\\", "/")
    if "/allmydata/" in fn and "/verif/" not in fn:
        site = "%s.%s" % (fn.split("/allmydata/", 1)[1].replace("/", ".").rsplit(".py", 1)[0], inner.name)
        chain = " <- ".join("%s:%d" % (f.name, f.lineno) for f in reversed(tb[-4:]))
        return Violation("crash:%s@%s" % (type(e).__name__, site), "unexpected %s: %s  [%s]" % (type(e).__name__, str(e)[:300], chain), {"site": site, "exc": type(e).__name__})
    return None


def hx(b):
    return bytes(b).hex()


def unhx(s):
    return bytes.fromhex(s)


def pbytes(seed, n):
    """Deterministic pseudo-random bytes (so replay files stay small)."""
    out = bytearray()
    ctr = 0
    key = b"pb-%d-" % seed
    while len(out) < n:
        out += hashlib.sha256(key + ctr.to_bytes(8, "big")).digest()
        ctr += 1
    return bytes(out[:n])


def jsonable(x):
    if isinstance(x, (bytes, bytearray)):
        return {"hex": bytes(x).hex()} if len(x) <= 64 else {"hex_prefix": bytes(x[:32]).hex(), "len": len(x)}
    if isinstance(x, dict):
        return {str(k): jsonable(v) for k, v in x.items()}
    if isinstance(x, (list, tuple, set, frozenset)):
        return [jsonable(v) for v in x]
    if isinstance(x, (int, float, str, bool)) or x is None:
        return x
    return repr(x)


def load_known():
    p = os.path.join(HOME, "known_findings.json")
    if not os.path.exists(p):
        return []
    return json.load(open(p)).get("findings", [])


def mix(seed, shard):
    return int.from_bytes(hashlib.sha256(b"%d/%d" % (seed, shard)).digest()[:6], "big")


class Ctx:
    """Per-shard context.  Collects coverage and decides known-finding vs
    violation."""

    def __init__(self, prop_id, tier, seed, shard=0, tmp=None):
        self.prop_id = prop_id
        self.tier = tier
        self.seed = seed
        self.shard = shard
        self.evaluations = 0
        self.sigs = set()
        self.classes = collections.Counter()
        self.samples = []
        self.known_seen = collections.Counter()
        self.violations = []
        self.known = [k for k in load_known() if k.get("property") == prop_id and k.get("status") == "known"]
        self.tmp = tmp
        self._casedir_n = 0
        self._nt_samples = 0
        self._t_samples = 0
        self.extra = {}

    # ---- coverage -------------------------------------------------------
    def note(self, sig=None, nontrivial=False, classes=(), sample=None):
        if nontrivial and sig is not None:
            self.sigs.add(hashlib.sha1(repr(sig).encode()).hexdigest()[:16])
        for c in classes:
            self.classes[c] += 1
        if sample is not None:
            if nontrivial and self._nt_samples < 3:
                self._nt_samples += 1
                self.samples.append(jsonable(sample))
            elif not nontrivial and self._t_samples < 1:
                self._t_samples += 1
                self.samples.append(jsonable(sample))

    def cls(self, *names):
        for c in names:
            self.classes[c] += 1

    # ---- failures -------------------------------------------------------
    def fail(self, kind_, msg_, **detail):
        """Report an oracle failure.  Returns normally (True) when it matches a
        committed known finding, raises Violation otherwise."""
        for k in self.known:
            if k.get("kind") == kind_ and all(detail.get(a) == b for a, b in k.get("where", {}).items()):
                self.known_seen[k["id"]] += 1
                return True
        raise Violation(kind_, msg_, detail)

    def check(self, cond_, kind_, msg_, **detail):
        if not cond_:
            return self.fail(kind_, msg_, **detail)
        return False

    # ---- scratch dirs ---------------------------------------------------
    def casedir(self):
        """Fresh empty directory for one case (previous one is removed)."""
        if self.tmp is None:
            base = "/dev/shm" if os.path.isdir("/dev/shm") else None
            self.tmp = tempfile.mkdtemp(prefix="verif-%s-" % self.prop_id, dir=base)
        # a new path for every call: state that the code under test keeps per path in module-level tables cannot leak from one case into the next
        # (in production a new server on an old path is a new process)
        prev = getattr(self, "_casedir", None)
        if prev and os.path.exists(prev):
            shutil.rmtree(prev, ignore_errors=True)
        self._casedir_n = getattr(self, "_casedir_n", 0) + 1
        d = self._casedir = os.path.join(self.tmp, "case%d" % self._casedir_n)
        if os.path.exists(d):
            shutil.rmtree(d, ignore_errors=True)
        os.makedirs(d)
        return d

    def cleanup(self):
        if self.tmp and os.path.exists(self.tmp):
            shutil.rmtree(self.tmp, ignore_errors=True)

    # ---- drivers --------------------------------------------------------
    def begin_case(self, case=None):
        from vf import boot
        self.evaluations += 1
        if boot.R is not None:
            # a case is a pure function of its description: no timers, queued eventual-sends or clock value leak from the previous case
            for _ in range(4):
                boot.cancel_all_timers_keep_immediate()
                try:
                    boot.drain(limit=2000)
                except Exception:
                    pass
            boot.cancel_all_timers()
            boot.R.rightNow = boot.EPOCH
            boot.set_thread_mode(False)
            boot.hold_threads(False)
        boot.reseed(0)
        if isinstance(case, dict) and case.get("hsalt"):
            boot.set_hash_salt(case["hsalt"])      # permutes the iteration order of sets of shares/servers/observers inside the code under test

    def drive(self, strategy, n, run_case, shrink=True):
        """Hypothesis-driven search.  `strategy` yields JSON-able case dicts;
        run_case(case, ctx) raises Violation on an oracle failure."""
        import hypothesis
        from hypothesis import given, settings, HealthCheck, Phase, seed as hseed
        try:
            import hypothesis.internal.conjecture.engine as eng
            eng.MAX_SHRINKING_SECONDS = 40 if self.tier == "quick" else 240
        except Exception:
            pass
        phases = [Phase.generate] + ([Phase.shrink] if shrink else [])
        last = {}
        ctx = self

        @hseed(mix(self.seed, self.shard))
        @settings(max_examples=n, database=None, deadline=None, derandomize=False,
                  report_multiple_bugs=False, phases=phases, print_blob=False,
                  suppress_health_check=list(HealthCheck), verbosity=hypothesis.Verbosity.quiet)
        @given(strategy)
        def t(case):
            ctx.begin_case(case)
            try:
                try:
                    run_case(case, ctx)
                except Violation:
                    raise
                except Exception as e:
                    v = crash_to_violation(e)
                    if v is None:
                        raise
                    if ctx.fail(v.kind, v.msg, **v.detail):
                        return
            except Violation as v:
                last["case"] = case
                last["v"] = v
                raise

        try:
            t()
        except Violation as v:
            v = last.get("v", v)
            self.violations.append({"case": last.get("case"), "kind": v.kind, "msg": v.msg, "detail": jsonable(v.detail)})
        except hypothesis.errors.Flaky as e:
            # non-deterministic case: report what we saw as violation candidate only if recorded
            if "v" in last:
                v = last["v"]
                self.violations.append({"case": last.get("case"), "kind": v.kind, "msg": v.msg + " [flaky]", "detail": jsonable(v.detail)})
            else:
                raise

    def enumerate(self, cases, run_case):
        """Plain loop over explicit cases (exhaustive enumeration / corpus).
        Stops at the first violation of the shard."""
        for case in cases:
            self.begin_case(case)
            try:
                try:
                    run_case(case, self)
                except Violation:
                    raise
                except Exception as e:
                    v = crash_to_violation(e)
                    if v is None:
                        raise
                    self.fail(v.kind, v.msg, **v.detail)
            except Violation as v:
                self.violations.append({"case": case, "kind": v.kind, "msg": v.msg, "detail": jsonable(v.detail)})
                return

    def result(self):
        return {
            "evaluations": self.evaluations,
            "sigs": sorted(self.sigs),
            "classes": dict(self.classes),
            "samples": self.samples,
            "known_seen": dict(self.known_seen),
            "violations": self.violations,
            "extra": self.extra,
        }


# --------------------------------------------------------------------------
def _worker(args):
    prop_id, modname, tier, seed, shard_no, spec = args
    t0 = time.time()
    try:
        sys.stdout = open(os.devnull, "w")     # code under test print()s diagnostics; results travel through the return value
        from vf import boot
        boot.install()
        mod = importlib.import_module(modname)
        ctx = Ctx(prop_id, tier, seed, shard_no)
        try:
            if spec.get("kind") == "corpus":
                cases = []
                for p in spec["files"]:
                    c = json.load(open(p))
                    cases.append(c.get("case", c))
                ctx.enumerate(cases, mod.run_case)
            else:
                mod.run_shard(spec, ctx)
        finally:
            ctx.cleanup()
        r = ctx.result()
        r["wall"] = boot.real_time() - t0
        r["shard"] = shard_no
        r["spec"] = spec
        return r
    except BaseException:
        return {"error": traceback.format_exc(), "shard": shard_no, "spec": spec}


def find_module(prop_id):
    d = os.path.join(HOME, "props")
    for f in sorted(os.listdir(d)):
        if f.lower().startswith(prop_id.lower() + "_") and f.endswith(".py"):
            return "props." + f[:-3]
    raise HarnessError("no module for %s" % prop_id)


def run_check(prop_id, tier, seed, only_shard=None, jobs=None):
    import multiprocessing as mp
    t0 = time.time()
    modname = find_module(prop_id)
    # The parent never imports allmydata: read plan via a child too (cheap).
    ctxm = mp.get_context("fork")
    with ctxm.Pool(1) as p0:
        meta = p0.apply(_get_meta, (modname, tier))
    if "error" in meta:
        print(meta["error"])
        print("HARNESS-ERROR property=%s (import/plan failed)" % prop_id)
        return 2
    specs = meta["plan"]
    corpus_dir = os.path.join(HOME, "corpus", prop_id)
    if os.path.isdir(corpus_dir):
        files = sorted(os.path.join(corpus_dir, f) for f in os.listdir(corpus_dir) if f.endswith(".json"))
        if files:
            specs = [{"kind": "corpus", "files": files}] + specs
    jobs_args = [(prop_id, modname, tier, seed, i, s) for i, s in enumerate(specs)]
    if only_shard is not None:
        jobs_args = [jobs_args[only_shard]]
    nproc = jobs or int(os.environ.get("VERIF_JOBS", "16"))
    budget = float(os.environ.get("VERIF_BUDGET_S", meta.get("budget", {}).get(tier, 3600)))
    results = []
    with ctxm.Pool(min(nproc, max(1, len(jobs_args))), maxtasksperchild=1) as pool:
        asyncs = [pool.apply_async(_worker, (a,)) for a in jobs_args]
        for a in asyncs:
            remaining = budget - (time.time() - t0)
            try:
                results.append(a.get(timeout=max(1, remaining)))
            except mp.TimeoutError:
                results.append({"error": "time budget exhausted (inconclusive)", "shard": -1, "spec": None})
        pool.terminate()
    return finish(prop_id, tier, seed, meta, results, time.time() - t0)


def _get_meta(modname, tier):
    try:
        from vf import boot
        boot.install()
        mod = importlib.import_module(modname)
        return {
            "plan": mod.plan(tier),
            "level": mod.LEVEL,
            "rule": mod.RULE,
            "assumptions": list(getattr(mod, "ASSUMPTIONS", [])),
            "required_classes": list(getattr(mod, "REQUIRED_CLASSES", [])),
            "exhaustive": bool(getattr(mod, "EXHAUSTIVE", {}).get(tier, False)) if isinstance(getattr(mod, "EXHAUSTIVE", None), dict) else bool(getattr(mod, "EXHAUSTIVE", False)),
            "budget": getattr(mod, "BUDGET", {}),
        }
    except BaseException:
        return {"error": traceback.format_exc()}


def finish(prop_id, tier, seed, meta, results, wall):
    errors = [r for r in results if "error" in r]
    ok = [r for r in results if "error" not in r]
    evaluations = sum(r["evaluations"] for r in ok)
    sigs = set()
    classes = collections.Counter()
    samples = []
    known_seen = collections.Counter()
    violations = []
    extra = {}
    for r in ok:
        sigs.update(r["sigs"])
        classes.update(r["classes"])
        known_seen.update(r["known_seen"])
        violations.extend(r["violations"])
        for k, v in r.get("extra", {}).items():
            if isinstance(v, (int, float)):
                extra[k] = extra.get(k, 0) + v
            else:
                extra.setdefault(k, v)
    # interleave samples across shards, last shards first (random shards come last in plans)
    pools = [list(reversed(r["samples"])) for r in reversed(ok)]
    while len(samples) < 8 and any(pools):
        for pl in pools:
            if pl and len(samples) < 8:
                samples.append(pl.pop(0))
    known = {k["id"]: k for k in load_known() if k.get("property") == prop_id}
    # replay files
    vlines = []
    seen_kinds = set()
    for v in violations:
        blob = json.dumps({"property": prop_id, "case": v["case"], "kind": v["kind"], "msg": v["msg"], "detail": v["detail"]}, sort_keys=True, indent=1)
        h = hashlib.sha1(blob.encode()).hexdigest()[:12]
        d = os.path.join(HOME, "replays", prop_id)
        os.makedirs(d, exist_ok=True)
        path = os.path.join(d, h + ".json")
        with open(path, "w") as f:
            f.write(blob)
        vlines.append((path, v))
    missing = [c for c in meta.get("required_classes", []) if classes.get(c, 0) == 0]
    ev = {
        "property_id": prop_id,
        "tier": tier,
        "seed": seed,
        "level": meta["level"],
        "coverage": {
            "evaluations": evaluations,
            "distinct_nontrivial": len(sigs),
            "rule": meta["rule"],
            "samples": samples,
            "classes": dict(sorted(classes.items())),
            "exhaustive": bool(meta.get("exhaustive")),
            "shards": len(results),
            "known_findings_seen": dict(known_seen),
        },
        "assumptions": meta["assumptions"],
        "wall_s": round(wall, 2),
        "violations": len(violations),
    }
    ev["coverage"].update(extra)
    if errors:
        ev["coverage"]["harness_errors"] = [e["error"][-600:] for e in errors][:3]
    os.makedirs(os.path.join(HOME, "evidence"), exist_ok=True)
    with open(os.path.join(HOME, "evidence", prop_id + ".json"), "w") as f:
        json.dump(ev, f, indent=1, sort_keys=True)
        f.write("\n")
    for kid, n in sorted(known_seen.items()):
        print("KNOWN-FINDING: property=%s %s (%s; seen %d times this run)" % (prop_id, known[kid].get("what", kid), kid, n))
    print("%s tier=%s seed=%d evaluations=%d distinct_nontrivial=%d violations=%d wall=%.1fs" % (
        prop_id, tier, seed, evaluations, len(sigs), len(violations), wall))
    if classes:
        print("classes: " + ", ".join("%s=%d" % kv for kv in sorted(classes.items())))
    shown = 0
    for path, v in vlines:
        if v["kind"] in seen_kinds and shown >= 3:
            continue
        seen_kinds.add(v["kind"])
        shown += 1
        print("  %s: %s" % (v["kind"], v["msg"][:800]))
        print("VIOLATION property=%s replay=%s" % (prop_id, path))
    if len(vlines) > shown:
        print("  (+%d more violating shards, replay files in %s)" % (len(vlines) - shown, os.path.join(HOME, "replays", prop_id)))
    if vlines:
        return 1
    if errors:
        for e in errors[:3]:
            print(e["error"])
        print("HARNESS-ERROR property=%s shards_failed=%d (inconclusive)" % (prop_id, len(errors)))
        return 2
    if missing:
        print("HARNESS-ERROR property=%s generator produced no case of class(es): %s" % (prop_id, missing))
        return 2
    if len(sigs) < 2:
        print("HARNESS-ERROR property=%s fewer than 2 distinct non-trivial cases" % prop_id)
        return 2
    return 0


def run_replay(prop_id, path):
    from vf import boot
    boot.install()
    mod = importlib.import_module(find_module(prop_id))
    blob = json.load(open(path))
    case = blob.get("case", blob)
    ctx = Ctx(prop_id, "quick", 0)
    try:
        ctx.begin_case(case)
        try:
            try:
                mod.run_case(case, ctx)
            except Violation:
                raise
            except Exception as e:
                v = crash_to_violation(e)
                if v is None:
                    raise
                ctx.fail(v.kind, v.msg, **v.detail)
        except Violation as v:
            print("  %s: %s" % (v.kind, v.msg[:2000]))
            print("VIOLATION property=%s replay=%s" % (prop_id, path))
            return 1
        for kid, n in ctx.known_seen.items():
            print("KNOWN-FINDING: property=%s %s" % (prop_id, kid))
        print("replay ok: property held on %s" % path)
        return 0
    finally:
        ctx.cleanup()
