"""Crash injector for the E1 store engine: every low-level file mutation performed under a server's base directory by the storage code is a numbered
*primitive*; a run can be told to kill the process right after primitive i (or inside a write, after a prefix of the data).  After the kill nothing
the dying code does reaches the disk (later mutations are suppressed), so the directory holds exactly what a killed process leaves behind
(process-kill model: completed system calls persist; no power-loss reordering)."""
import os, io, builtins, shutil

_real_open = builtins.open
_real = {n: getattr(os, n) for n in ("rename", "replace", "unlink", "remove", "rmdir", "mkdir", "makedirs", "truncate")}


class Crash(BaseException):
    """Raised at the kill point (BaseException so that ordinary 'except Exception' cleanup code does not catch it)."""


class _Sink:
    """What a dead process 'writes' to."""

    def __init__(self):
        self.closed = False

    def write(self, data):
        return len(data)

    def truncate(self, *a):
        return 0

    def seek(self, *a):
        return 0

    def tell(self):
        return 0

    def read(self, *a):
        return b""

    def flush(self):
        pass

    def close(self):
        self.closed = True

    def __enter__(self):
        return self

    def __exit__(self, *a):
        self.close()


class _TFile:
    def __init__(self, inj, path, mode):
        self.inj, self.path = inj, path
        self.f = _real_open(path, mode, buffering=0)

    def write(self, data):
        data = bytes(data)
        act = self.inj.primitive("write", self.path, len(data))
        if act is None:
            return self.f.write(data)
        if act == "dead":
            return len(data)
        # act = number of bytes that reach the disk before the kill
        if act > 0:
            self.f.write(data[:act])
        self.inj.die()

    def truncate(self, size=None):
        act = self.inj.primitive("truncate", self.path, 0)
        if act == "dead":
            return 0
        r = self.f.truncate(size) if size is not None else self.f.truncate()
        if act is not None:
            self.inj.die()
        return r

    def __getattr__(self, name):
        return getattr(self.f, name)

    def __enter__(self):
        return self

    def __exit__(self, *a):
        self.f.close()


class Injector:
    def __init__(self, basedir):
        self.basedir = os.path.abspath(basedir)
        self.count = 0
        self.log = []             # (kind, relative path, size)
        self.kill_at = None       # primitive number (1-based) after which the process dies
        self.torn = None          # for a write primitive: number of bytes that reach the disk (None = all)
        self.dead = False
        self.installed = False

    def mine(self, path):
        try:
            return os.path.abspath(path).startswith(self.basedir)
        except Exception:
            return False

    def primitive(self, kind, path, size):
        """-> None (carry on) | 'dead' (suppress) | int n (for writes: n bytes reach the disk, then die; other kinds: any int = die afterwards)"""
        if self.dead:
            return "dead"
        self.count += 1
        self.log.append((kind, os.path.relpath(path, self.basedir), size))
        if self.kill_at is not None and self.count == self.kill_at:
            if kind == "write":
                return size if self.torn is None else min(self.torn, size)
            return 0
        return None

    def die(self):
        self.dead = True
        raise Crash()

    # ---- installation
    def install(self):
        import allmydata.storage.immutable as a, allmydata.storage.mutable as b, allmydata.storage.server as c, allmydata.util.fileutil as d
        self.mods = [a, b, c, d]
        inj = self

        def t_open(path, mode="r", *args, **kw):
            if not isinstance(path, (str, bytes)) or not inj.mine(path) or "b" not in mode or mode in ("rb",):
                return _real_open(path, mode, *args, **kw)
            creates = ("w" in mode) or ("a" in mode and not os.path.exists(path)) or ("x" in mode)
            if creates:
                act = inj.primitive("create", path, 0)
                if act == "dead":
                    return _Sink()
                f = _TFile(inj, path, mode)
                if act is not None:
                    f.f.close()
                    inj.die()
                return f
            if inj.dead:
                return _Sink()
            return _TFile(inj, path, mode)
        for m in self.mods:
            m.open = t_open

        def wrap(name):
            real = _real[name]

            def f(path, *a, **k):
                if not inj.mine(path):
                    return real(path, *a, **k)
                act = inj.primitive(name, path, 0)
                if act == "dead":
                    return None
                r = real(path, *a, **k)
                if act is not None:
                    inj.die()
                return r
            return f
        for name in _real:
            setattr(os, name, wrap(name))
        self.installed = True

    def uninstall(self):
        if self.installed:
            for m in self.mods:
                try:
                    del m.open
                except AttributeError:
                    pass
            for name, real in _real.items():
                setattr(os, name, real)
            self.installed = False


def copytree(src, dst):
    if os.path.exists(dst):
        shutil.rmtree(dst)
    shutil.copytree(src, dst)
