"""Shared scenario builder for the immutable-download properties (C03, C04, C45, C46): upload a reference file, then re-place its shares on the
servers according to an explicit map, damage shares, and configure server faults.  Computes the ground truth about which shares are good."""
import os, shutil
from vf import imm_share
from vf.core import pbytes
from vf.grid import Grid

SHARE_DAMAGE = ["delete", "trunc-header", "flip-all-blocks", "bad-share-version", "flip-data-byte", "flip-block-hash", "flip-share-hash", "flip-ueb", "flip-cthash",
                "trunc-mid-data", "trunc-end-1", "flip-unused", "reblock", "reblock-one", "ueb-len-plus"]
# damage after which the share can certainly not contribute a block (outside G-)
CERTAIN = {"delete", "trunc-header", "flip-all-blocks", "bad-share-version", "reblock", "reblock-one"}
SERVER_FAULTS = ["down", "fail-dyhb", "dead-dyhb", "fail-read-once", "fail-reads-from", "disconnect-after", "late"]


class Scenario:
    pass


def build(ctx, case, choices=None, allow_timer_choice=True):
    """case: k, n, seg, size, servers, place=[[shnum, server],...], damage=[[server, shnum, kind, arg],...], faults=[[server, kind, arg],...]"""
    from allmydata.immutable.upload import Data
    from allmydata import uri
    from allmydata.storage.common import storage_index_to_dir
    k, n, seg, size = case["k"], case["n"], case["seg"], case["size"]
    params = {"k": k, "n": n, "happy": 1, "max_segment_size": seg}
    g = Grid(ctx.casedir(), case["servers"], params, allow_timer_choice=allow_timer_choice)
    sc = Scenario()
    sc.g, sc.case = g, case
    sc.data = pbytes(case.get("fill", 1), size)
    r = g.run(g.c0.upload(Data(sc.data, convergence=b"c")))
    if r[0] != "ok":
        raise RuntimeError("set-up upload failed: %r" % (r,))
    sc.cap = r[1].get_uri()
    sc.si = uri.from_string(sc.cap).get_storage_index()
    sc.share_bytes = {}
    for (sidx, shnum, p) in g.all_share_paths(sc.si):
        sc.share_bytes[shnum] = open(p, "rb").read()
        os.unlink(p)
    assert len(sc.share_bytes) == n, (len(sc.share_bytes), n)
    # ---- placement
    sc.placed = {}      # (server, shnum) -> path
    for shnum, sidx in case["place"]:
        shnum, sidx = shnum % n, sidx % len(g.servers)
        srv = g.servers[sidx]
        d = os.path.join(srv.ss.sharedir, storage_index_to_dir(sc.si))
        os.makedirs(d, exist_ok=True)
        p = os.path.join(d, "%d" % shnum)
        with open(p, "wb") as f:
            f.write(sc.share_bytes[shnum])
        sc.placed[(sidx, shnum)] = p
    # ---- share damage
    sc.damaged = {}     # (server, shnum) -> kind
    for sidx, shnum, kind, arg in case.get("damage", []):
        keys = sorted(sc.placed)
        if not keys:
            break
        key = keys[(sidx * 31 + shnum) % len(keys)]
        if key in sc.damaged:
            continue
        if apply_damage(sc.placed[key], kind, arg):
            sc.damaged[key] = kind
    # ---- server faults
    sc.faulty = {}      # server -> kind
    for sidx, kind, arg in case.get("faults", []):
        sidx = sidx % len(g.servers)
        if sidx in sc.faulty:
            continue
        srv = g.servers[sidx]
        if kind == "down":
            srv.down = True
        elif kind == "fail-dyhb":
            srv.fail["get_buckets"] = "all"
        elif kind == "dead-dyhb":
            srv.dead_for["get_buckets"] = "all"
        elif kind == "fail-read-once":
            srv.fail["read"] = {arg}
        elif kind == "fail-reads-from":
            srv.fail["read"] = set(range(arg, arg + 100000))
        elif kind == "disconnect-after":
            srv.disconnect_after = 1 + arg
        elif kind == "late":
            g.sched.late.add(sidx)
        sc.faulty[sidx] = kind
    ground_truth(sc)
    g.sched.choices, g.sched.ci = list(choices or []), 0
    # the reader's default maximum segment size (basis of its initial guess) may be smaller than the file's real segment size
    from allmydata.immutable.downloader.node import DownloadNode
    from allmydata.interfaces import DEFAULT_IMMUTABLE_MAX_SEGMENT_SIZE
    DownloadNode.default_max_segment_size = case.get("guess") or DEFAULT_IMMUTABLE_MAX_SEGMENT_SIZE
    return sc


def ground_truth(sc):
    """(re)compute sc.gplus / sc.gminus from sc.placed, sc.damaged, sc.faulty"""
    # a share file shorter than the 12-byte container header makes the server's whole get_buckets() answer an error (ShareFile.__init__ raises), so that
    # server does not "answer" for this storage index: none of its shares count
    sc.erroring = set()
    for (sidx, shnum), p in sc.placed.items():
        if os.path.exists(p) and os.path.getsize(p) < 12:
            sc.erroring.add(sidx)
    good_plus, good_minus = set(), set()
    for (sidx, shnum) in sc.placed:
        dk = sc.damaged.get((sidx, shnum))
        fk = sc.faulty.get(sidx)
        if sidx in sc.erroring:
            continue
        if dk is None and fk in (None, "late"):
            good_plus.add(shnum)
        if dk not in CERTAIN and fk not in ("down", "fail-dyhb", "dead-dyhb"):
            good_minus.add(shnum)
    sc.gplus, sc.gminus = len(good_plus), len(good_minus)


def damage_more(sc, entries):
    """second-phase damage (after a read): entries [[server, shnum, kind, arg],...] addressed like the first phase; only undamaged shares are touched"""
    done = []
    for sidx, shnum, kind, arg in entries:
        keys = sorted(kx for kx in sc.placed if kx not in sc.damaged)
        if not keys:
            break
        key = keys[(sidx * 31 + shnum) % len(keys)]
        if apply_damage(sc.placed[key], kind, arg):
            sc.damaged[key] = kind
            done.append(key)
    ground_truth(sc)
    return done


def apply_damage(path, kind, arg):
    info = imm_share.parse(path)
    F = info["fields"]

    def flip_in(field):
        a, b = F[field]
        if b <= a:
            return False
        return imm_share.flip(path, a + arg % (b - a), 1 << (arg % 8))
    if kind == "delete":
        os.unlink(path)
    elif kind == "trunc-header":
        imm_share.truncate(path, arg % 0x0c + 1)
    elif kind == "flip-all-blocks":
        a, b = F["data"]
        raw = info["raw"]
        imm_share.patch(path, a, bytes(x ^ 0xff for x in raw[a:b]))
    elif kind == "bad-share-version":
        a, b = F["share_version"]
        imm_share.patch(path, a, (3 + arg % 250).to_bytes(4, "big"))
    elif kind == "flip-data-byte":
        return flip_in("data")
    elif kind == "flip-block-hash":
        return flip_in("block_hashes")
    elif kind == "flip-share-hash":
        return flip_in("share_hashes")
    elif kind == "flip-ueb":
        return flip_in("ueb")
    elif kind == "flip-cthash":
        return flip_in("crypttext_hash_tree")
    elif kind == "flip-unused":
        return flip_in("plaintext_hash_tree") or flip_in("container_len")
    elif kind in ("reblock", "reblock-one"):
        # a forger's share: block data changed (all of it, or one byte) and the block hash tree rebuilt over the new blocks, so the share is
        # consistent in itself; only the link to the share hash tree (its leaf for this share number) no longer matches
        from allmydata.hashtree import HashTree
        from allmydata.util.hashutil import block_hash
        a, b = F["data"]
        raw = info["raw"]
        data = bytearray(raw[a:b])
        if kind == "reblock":
            data = bytearray(x ^ 0xff for x in data)
        elif data:
            data[arg % len(data)] ^= 1 << (arg % 8)
        bs = info["vals"]["block_size"]
        if bs <= 0 or not data:
            return False
        blocks = [bytes(data[i:i + bs]) for i in range(0, len(data), bs)]
        tree = HashTree([block_hash(blk) for blk in blocks])
        ha, hb = F["block_hashes"]
        packed = b"".join(tree)
        if len(packed) != hb - ha:
            return False
        imm_share.patch(path, a, bytes(data))
        imm_share.patch(path, ha, packed)
    elif kind == "ueb-len-plus":
        # the length field in front of the URI extension block promises more bytes than the share holds
        a, b = F["ueb_len"]
        cur = int.from_bytes(info["raw"][a:b], "big")
        imm_share.patch(path, a, (cur + 1 + arg % 3).to_bytes(b - a, "big"))
    elif kind == "trunc-mid-data":
        a, b = F["data"]
        imm_share.truncate(path, a + arg % max(1, b - a))
    elif kind == "trunc-end-1":
        imm_share.truncate(path, info["share_end"] - 1 - arg % 3)
    else:
        raise ValueError(kind)
    return True
