"""Small helpers shared by property modules."""
from twisted.internet import defer
from twisted.python.failure import Failure


class NotFired(Exception):
    pass


def now_result(d):
    """Result of a Deferred/coroutine that must already have fired (synchronous code paths)."""
    if not isinstance(d, defer.Deferred):
        d = defer.ensureDeferred(d)
    out = []
    d.addBoth(out.append)
    if not out:
        from vf import boot
        boot.drain()
    if not out:
        raise NotFired("deferred did not fire synchronously")
    if isinstance(out[0], Failure):
        out[0].raiseException()
    return out[0]


def outcome(d):
    """('ok', value) or ('err', exception) for an already-fired Deferred; ('pending', None) otherwise."""
    if not isinstance(d, defer.Deferred):
        d = defer.ensureDeferred(d)
    out = []
    d.addBoth(out.append)
    if not out:
        return ("pending", None)
    if isinstance(out[0], Failure):
        return ("err", out[0].value)
    return ("ok", out[0])
