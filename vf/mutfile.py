"""Helpers shared by the mutable-file properties (C09-C14, C47): segment-size control, creating files on the detgrid, state-relative offsets."""
from vf.core import pbytes


def set_segsize(seg):
    import allmydata.mutable.publish as pubmod
    pubmod.DEFAULT_MUTABLE_MAX_SEGMENT_SIZE = seg


def restore_segsize():
    set_segsize(128 * 1024)


def version_const(fmt):
    from allmydata.interfaces import SDMF_VERSION, MDMF_VERSION
    return MDMF_VERSION if fmt == "mdmf" else SDMF_VERSION


def mdata(b):
    from allmydata.mutable.publish import MutableData
    return MutableData(bytes(b))


def create(g, client, fmt, contents):
    return g.run(client.nodemaker.create_mutable_file(mdata(contents), version=version_const(fmt)))


def resolve(spec, size, seg):
    """state-relative position: ["seg", j, d] -> j*seg+d ; ["eof", d] -> size+d ; ["abs", x] -> x ; clipped to [0, size]"""
    if spec[0] == "seg":
        v = spec[1] * seg + spec[2]
    elif spec[0] == "eof":
        v = size + spec[1]
    elif spec[0] == "pow2":
        v = (2 ** spec[1]) * seg + spec[2]
    else:
        v = spec[1]
    return max(0, min(size, v))
