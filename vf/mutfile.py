"""Helpers shared by the mutable-file properties (C09-C14, C47): segment-size control, creating files on the detgrid, state-relative offsets."""
from vf.core import pbytes


def set_segsize(seg):
    import allmydata.mutable.publish as pubmod
    pubmod.DEFAULT_MUTABLE_MAX_SEGMENT_SIZE = seg


def restore_segsize():
    set_segsize(128 * 1024)


def version_const(fmt):
    from allmydata.interfaces import SDMF_VERSION, MDMF_VERSION
    return MDMF_VERSION if fmt == "mdmf" else SDMF_VERSION


def mdata(b):
    from allmydata.mutable.publish import MutableData
    return MutableData(bytes(b))


def create(g, client, fmt, contents):
    return g.run(client.nodemaker.create_mutable_file(mdata(contents), version=version_const(fmt)))


def resolve(spec, size, seg):
    """state-relative position: ["seg", j, d] -> j*seg+d ; ["eof", d] -> size+d ; ["abs", x] -> x ; clipped to [0, size]"""
    if spec[0] == "seg":
        v = spec[1] * seg + spec[2]
    elif spec[0] == "eof":
        v = size + spec[1]
    elif spec[0] == "pow2":
        v = (2 ** spec[1]) * seg + spec[2]
    else:
        v = spec[1]
    return max(0, min(size, v))


def read_full_survey(g, client, node):
    """Retrieve the best recoverable version found by a survey of EVERY server (MODE_CHECK).  A default read stops as soon as it has located k shares of some
    version and may legitimately return an older version whose shares failed writes left behind."""
    from allmydata.mutable.common import MODE_CHECK
    from allmydata.mutable.retrieve import Retrieve
    from allmydata.util.consumer import MemoryConsumer
    d = node.get_servermap(MODE_CHECK)

    def fetch(sm):
        ver = sm.best_recoverable_version()
        if ver is None:
            raise RuntimeError("no recoverable version in a full survey: %s" % sm.summarize_versions())
        c = MemoryConsumer()
        d2 = Retrieve(node, client.broker, sm, ver).download(c)
        d2.addCallback(lambda ign: b"".join(c.chunks))
        return d2
    d.addCallback(fetch)
    return g.run(d)
