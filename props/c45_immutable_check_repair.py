"""C45 immutable check, verify and repair."""
import os
from hypothesis import strategies as st
from vf import immfile, boot
from vf.grid import Grid, read_node

ID = "C45"
LEVEL = "fault_enumeration"
ENGINE = "E2 detgrid"
TECHNIQUE = ("Hypothesis-generated files/encodings with per-share damage drawn from the share-format field classes (deleted, truncated, bad version, flips in blocks, block hash "
             "tree, share hash chain, ciphertext hash tree, URI extension block, unused regions), plus consistent forgeries (blocks altered and the block hash tree rebuilt over them), checked with and without verification and repaired (optionally while a server fails the writes or the close of its new share) through a verify-cap-only "
             "node on the in-process grid; oracle = good-share set computed from the damage plan, byte comparison of pre-existing share data, and a read through the original "
             "read cap restricted to the repaired shares (plus as few old shares as needed to reach k)")
RULE = ("each case: k<=3, N<=5, 1-4 segments (max segment size smaller than the file), one share per server on N..N+2 servers, 0-N damages; verify in {F,T}. Oracle: with "
        "verify the shares reported corrupt are exactly those damaged in a field the format uses (damage confined to the unused plaintext-hash-tree region or the container's "
        "informational length field may be reported either way); count-good == |G| where G = present shares (verify=F) or present and undamaged-in-used-fields (verify=T); "
        "healthy <=> |G| == N; recoverable <=> |G| >= k. check_and_repair through the verify cap: if it reports success, a verifying check afterwards is healthy, every "
        "pre-existing good share's data is unchanged, and after deleting old shares down to max(0, k - new) the original read cap reads exactly the plaintext. "
        "Non-trivial = at least one damaged share and |G| within 1 of k or of N; distinct by whole case.")
LEVEL_TEXT = "Fault-plan search over the share format with an independent good-share model; repair is validated by reading through the original read cap."
ASSUMPTIONS = ["servers store honestly; one server may fail reads or drop the connection during the check", "a share whose container header is cut short makes its server error out and is not generated here (see C03)"]
REQUIRED_CLASSES = ["server-fault-during-repair", "server-fault-during-check", "verify", "no-verify", "healthy", "unhealthy-recoverable", "unrecoverable", "repair-ok", "corrupt-detected", "multi-segment", "unused-field-damage", "read-from-new-shares-alone"]
BUDGET = {"quick": 900, "thorough": 7200}
DAMAGE = ["delete", "delete", "flip-all-blocks", "bad-share-version", "flip-data-byte", "flip-block-hash", "flip-share-hash", "flip-ueb", "flip-cthash", "trunc-mid-data", "trunc-end-1", "flip-unused", "reblock", "reblock-one", "ueb-len-plus"]
UNUSED = {"flip-unused"}


def plan(tier):
    n = 100 if tier == "quick" else 1500
    return [{"kind": "hyp", "n": n} for _ in range(16)]


@st.composite
def cases(draw):
    k = draw(st.integers(1, 3))
    n = draw(st.integers(k, 5))
    seg = draw(st.sampled_from([k * 8, 64, 100, 4096]))
    nseg = draw(st.integers(1, 4))
    size = max(56, seg * nseg - draw(st.integers(0, min(seg, 50) - 1))) if seg < 4096 else draw(st.integers(56, 400) | st.integers(2000, 9000))
    servers = n + draw(st.integers(0, 2))
    damage = draw(st.lists(st.tuples(st.integers(0, 8), st.integers(0, 5), st.sampled_from(DAMAGE), st.integers(0, 5000)).map(list), max_size=n))
    # a server may answer the share query and then fail every later read (its shares can then not be verified), or fail from the j-th read on / drop the connection
    faults = draw(st.lists(st.tuples(st.integers(0, n - 1), st.sampled_from(["fail-reads-from", "fail-reads-from", "disconnect-after"]), st.sampled_from([0, 0, 1, 3, 8])).map(list), max_size=1)) \
        if draw(st.integers(0, 3)) == 0 else []
    # a server that accepts the repairer's allocation and then fails the writes (from the j-th on) or the close of the new share
    upfaults = draw(st.lists(st.tuples(st.integers(0, servers - 1), st.sampled_from(["fail-upload-writes", "fail-upload-close"]), st.sampled_from([0, 0, 1, 2])).map(list), max_size=2)) \
        if draw(st.integers(0, 2)) == 0 else []
    return {"hsalt": draw(st.integers(0, 15)), "k": k, "n": n, "seg": seg, "size": size, "servers": servers, "place": [[i, i] for i in range(n)], "damage": damage, "faults": faults, "upfaults": upfaults,
            "verify": draw(st.booleans()), "sched": draw(st.lists(st.integers(0, 9), max_size=30))}


def run_shard(spec, ctx):
    ctx.drive(cases(), spec["n"], run_case)


def run_case(case, ctx):
    from allmydata.monitor import Monitor
    from allmydata import uri
    sc = immfile.build(ctx, dict(case, down=[]), choices=case["sched"], allow_timer_choice=False)
    g, k, n, verify = sc.g, case["k"], case["n"], case["verify"]
    classes = {"verify" if verify else "no-verify"}
    try:
        present = {sh for (s, sh), p in sc.placed.items() if os.path.exists(p)}
        used_damage = {sh for (s, sh), kd in sc.damaged.items() if kd not in UNUSED and kd != "delete"}
        unused_damage = {sh for (s, sh), kd in sc.damaged.items() if kd in UNUSED}
        if unused_damage:
            classes.add("unused-field-damage")
        good_lo = (present - used_damage - unused_damage) if verify else present       # certainly good
        good_hi = (present - used_damage) if verify else present                        # possibly good
        # shares on a server that fails reads: with verify they cannot count as good when every read fails; when the failure starts later they may or may not
        flaky = {sh for (s_, sh) in sc.placed if s_ in sc.faulty}
        dead_reads = {sh for (s_, sh) in sc.placed if sc.faulty.get(s_) == "fail-reads-from" and any(f[0] % len(g.servers) == s_ and f[2] == 0 for f in case["faults"])}
        if sc.faulty:
            classes.add("server-fault-during-check")
            if verify:
                good_lo = good_lo - flaky
                good_hi = good_hi - dead_reads
            else:
                good_lo = good_lo - {sh for (s_, sh) in sc.placed if sc.faulty.get(s_) == "disconnect-after"}
        desc = "k=%d N=%d seg=%d size=%d servers=%d damage=%r verify=%r" % (k, n, case["seg"], case["size"], case["servers"], sorted(sc.damaged.items()), verify)
        if case["size"] > case["seg"]:
            classes.add("multi-segment")
        vcap = uri.from_string(sc.cap).get_verify_cap().to_string()
        checker = g.add_client()
        vnode = checker.nodemaker.create_from_cap(vcap)
        before = {}
        for s in g.servers:
            for sh, br in s.ss.get_buckets(sc.si).items():
                before[(s.idx, sh)] = br.read(0, 10 ** 9)
        r = g.run(vnode.check(Monitor(), verify=verify))
        if r[0] != "ok":
            ctx.fail("check-failed", "%s: check ended with %r" % (desc, r))
            return
        cr = r[1]
        ngood = cr.get_share_counter_good()
        ctx.check(len(good_lo) <= ngood <= len(good_hi), "wrong-good-count", "%s: check counts %d good shares, the damage plan leaves %s" % (desc, ngood, len(good_lo) if good_lo == good_hi else "%d..%d" % (len(good_lo), len(good_hi))), reported=ngood)
        if good_lo == good_hi:
            G = len(good_lo)
            ctx.check(cr.is_healthy() == (G == n), "wrong-health", "%s: healthy=%r with %d of %d good shares" % (desc, cr.is_healthy(), G, n))
            ctx.check(cr.is_recoverable() == (G >= k), "wrong-recoverability", "%s: recoverable=%r with %d good shares, k=%d" % (desc, cr.is_recoverable(), G, k))
            classes.add("healthy" if G == n else ("unhealthy-recoverable" if G >= k else "unrecoverable"))
        if verify:
            reported = {sh for (srv, si_, sh) in cr.get_corrupt_shares()} | {sh for (srv, si_, sh) in cr.get_incompatible_shares()}   # 'not good', whatever the label
            ctx.check((used_damage & present) - flaky <= reported <= ((used_damage | unused_damage) & present) | flaky, "wrong-corrupt-set", "%s: verify reports corrupt shares %r; damaged in a used field: %r (unused-region damage: %r)" % (
                desc, sorted(reported), sorted(used_damage & present), sorted(unused_damage)), missing=sorted((used_damage & present) - reported), extra=sorted(reported - (used_damage | unused_damage)))
            if used_damage & present:
                classes.add("corrupt-detected")
        # ---- repair through the verify cap only
        from allmydata.immutable.layout import WriteBucketProxy
        saved_defaults = WriteBucketProxy.__init__.__defaults__
        for (sidx_, kd_, arg_) in case.get("upfaults", []):
            srv_ = g.servers[sidx_ % len(g.servers)]
            if kd_ == "fail-upload-writes":
                srv_.fail["write"] = set(range(arg_, arg_ + 100000))
                WriteBucketProxy.__init__.__defaults__ = (64,)       # small client-side write batch, so that a share is written in several calls
            else:
                srv_.fail["close"] = "all"
            classes.add("server-fault-during-repair")
        rep = g.add_client()
        rnode = rep.nodemaker.create_from_cap(vcap)
        r = g.sched.run_until(rnode.check_and_repair(Monitor(), verify=verify), maxsteps=50000)
        g.sched.settle()
        if r[0] == "hang":
            ctx.fail("hang", "%s: check_and_repair never completed" % desc)
        if r[0] == "ok" and r[1].get_repair_attempted() and r[1].get_repair_successful() and not sc.faulty:
            classes.add("repair-ok")
            after = {}
            for s in g.servers:
                for sh, br in s.ss.get_buckets(sc.si).items():
                    after[(s.idx, sh)] = br.read(0, 10 ** 9)
            pristine = {key for key, v in before.items() if key[1] in good_lo and (key not in sc.damaged)}
            for key in pristine:
                ctx.check(after.get(key) == before[key], "repair-altered-good-share", "%s: repair changed the data of the good share %d on server %d" % (desc, key[1], key[0]))
            new = {key for key in after if key not in before or after[key] != before[key]}
            pr = g.run(g.add_client().nodemaker.create_from_cap(vcap).check(Monitor(), verify=verify))
            ctx.check(pr[0] == "ok" and pr[1].is_healthy(), "unhealthy-after-repair", "%s: a check (same verify setting) after the successful repair is not healthy (%r good)" % (desc, pr[1].get_share_counter_good() if pr[0] == "ok" else pr))
            # read through the ORIGINAL read cap from the repaired shares, plus as few old good shares as needed to reach k
            newnums = {sh for (s, sh) in new}
            keep_old = []
            for key in sorted(pristine):
                if len(newnums) + len(keep_old) >= k:
                    break
                if key[1] not in newnums:
                    keep_old.append(key)
            for s in g.servers:
                for sh, p in s.share_paths(sc.si).items():
                    if (s.idx, sh) not in new and (s.idx, sh) not in keep_old:
                        os.unlink(p)
            if len(newnums) >= k:
                classes.add("read-from-new-shares-alone")
            rr = g.run(read_node(g.add_client().nodemaker.create_from_cap(sc.cap))) if len(newnums) + len(keep_old) >= k else ("ok", sc.data)   # (too few undamaged old shares to complete k: nothing to read)
            ctx.check(rr == ("ok", sc.data), "repaired-shares-unreadable", "%s: after repair, reading through the original read cap from the %d repaired shares %r plus old shares %r gives %s" % (
                desc, len(new), sorted(new), keep_old, "wrong bytes" if rr[0] == "ok" else repr(rr[1])[:200]), new=len(newnums))
        elif r[0] == "ok":
            classes.add("repair-not-attempted" if not r[1].get_repair_attempted() else "repair-unsuccessful")
            if good_lo == good_hi and k <= len(good_lo) < n and r[1].get_repair_attempted() and not r[1].get_repair_successful():
                classes.add("repair-failed-though-recoverable")
        else:
            classes.add("repair-error:" + type(r[1]).__name__)
    finally:
        try:
            WriteBucketProxy.__init__.__defaults__ = saved_defaults
        except NameError:
            pass
        g.stop()
    G = len(good_lo)
    nt = bool(sc.damaged) and (abs(G - k) <= 1 or abs(G - n) <= 1)
    ctx.note(sig=repr(sorted(case.items())), nontrivial=nt, classes=sorted(classes), sample={"k": k, "n": n, "seg": case["seg"], "size": case["size"], "damage": sorted(sc.damaged.items()), "verify": verify})
