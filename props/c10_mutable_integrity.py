"""C10 mutable reads return only published versions, whatever the servers store."""
import os, shutil
from hypothesis import strategies as st
from vf import boot, mutfile, mut_share
from vf.core import pbytes
from vf.grid import Grid

ID = "C10"
LEVEL = "fault_enumeration"
ENGINE = "E2 detgrid"
TECHNIQUE = ("Hypothesis-generated publish histories (1-3 versions, SDMF/MDMF) followed by adversarial share plans that know the share formats: numeric header/offset fields set "
             "to boundary values, byte flips inside every named region (root hash, IV/salt, verification key, signature, share hash chain, block hash tree, blocks, encrypted "
             "private key), truncation at field boundaries, a pristine duplicate of a share number on a second server, substitution by older versions / other share numbers / another file's validly signed shares, and consistent "
             "grafts of regions from an older version or from another key into a newer share, and colluding-server forgeries (k shares with the attacker's own blocks and block hash trees "
             "plus one share whose share hash chain lists their leaf hashes next to a hash number that does not exist in the tree); oracle = result is the plaintext of a published version or an error")
RULE = ("each case: k<=3, N<=5, 1-5 segments, a file published 1-3 times with known contents (snapshots of all share files kept per version) and a sibling file created with "
        "another key; 1-4 damages applied to chosen shares; then reads by a fresh write-cap client and a fresh read-cap client under a drawn schedule. Oracle: each read "
        "returns exactly the contents of one of the published versions, or fails; if at least k distinct share numbers are still byte-identical to the newest version's "
        "shares the read must succeed. Non-trivial = at least one damaged share; distinct by whole case.")
LEVEL_TEXT = "Fault-plan search by a generator that knows both mutable share formats, including internally consistent forgeries that lack only a valid signature."
ASSUMPTIONS = ["RSA signatures and SHA-256d are not broken (forgeries reuse existing signatures or use another key)", "servers answer every request (availability under server faults is C47/C11)"]
REQUIRED_CLASSES = ["dup", "set", "flip", "trunc", "swap-older", "swap-otherfile", "graft-older", "graft-otherfile", "read-ok", "read-failed", "sdmf", "mdmf", "k-intact", "returned-older-version", "plant"]
BUDGET = {"quick": 900, "thorough": 7200}
GRAFTS = [["share_data"], ["share_data", "block_hash_tree"], ["share_data", "block_hash_tree", "share_hash_chain"], ["share_data", "block_hash_tree", "share_hash_chain", "root_hash"],
          ["signature"], ["pubkey"], ["pubkey", "signature"], ["root_hash", "seqnum"], ["seqnum"], ["IV"], ["salt0"], ["enc_privkey"],
          ["share_data", "block_hash_tree", "share_hash_chain", "root_hash", "seqnum", "signature"]]


def plan(tier):
    n = 150 if tier == "quick" else 2500
    return [{"kind": "hyp", "n": n} for _ in range(16)]


@st.composite
def cases(draw):
    k = draw(st.integers(1, 3))
    n = draw(st.integers(k, 5))
    seg = draw(st.sampled_from([8, 16, 33]))
    which = st.one_of(st.just("all"), st.integers(0, 5), st.lists(st.integers(0, 5), min_size=1, max_size=4, unique=True))
    dmg = st.one_of(
        st.tuples(st.just("set"), which, st.sampled_from(mut_share.NUMERIC + ["offset"]), st.sampled_from(["zero", "one", "minus", "plus", "huge"]), st.integers(0, 7)),
        st.tuples(st.just("flip"), which, st.sampled_from(mut_share.REGIONS), st.integers(0, 10 ** 6), st.just(0)),
        st.tuples(st.just("trunc"), which, st.sampled_from(mut_share.REGIONS + ["header"]), st.integers(-1, 1), st.just(0)),
        st.tuples(st.just("swap"), which, st.sampled_from(["older", "older-othershnum", "othershnum", "otherfile", "otherfile-othershnum"]), st.integers(0, 5), st.just(0)),
        st.tuples(st.just("graft"), which, st.sampled_from(["older", "otherfile"]), st.integers(0, len(GRAFTS) - 1), st.just(0)),
        st.tuples(st.just("delete"), which, st.just(""), st.just(0), st.just(0)),
        st.tuples(st.just("dup"), which, st.just(""), st.integers(0, 4), st.just(0)),
    ).map(list)
    case = {"hsalt": draw(st.integers(0, 15)), "threads": draw(st.sampled_from(["sync", "async", "held"])), "fmt": draw(st.sampled_from(["sdmf", "mdmf"])), "k": k, "n": n, "seg": seg, "versions": draw(st.lists(st.integers(0, 5 * seg), min_size=1, max_size=3)),
            "damage": draw(st.lists(dmg, min_size=1, max_size=4)), "sched": draw(st.lists(st.integers(0, 9), max_size=40))}
    if draw(st.integers(0, 5)) == 0:
        # colluding servers: one sacrificial share whose share hash chain lists forged leaf hashes followed by a hash number that is not in the tree,
        # and k forged shares (own blocks, own block hash tree) that only match those forged leaves
        case["n"] = n = max(n, k + 2)
        case["versions"] = [max(v, 1) for v in case["versions"]]
        case["plant"] = {"poison": draw(st.sampled_from([60000, 65535, "size", "size+1", 255, 0, 0])), "first": draw(st.integers(0, 2)), "order": draw(st.sampled_from(["poison-last", "poison-last", "poison-first"]))}
        case["damage"] = []
    return case


def run_shard(spec, ctx):
    ctx.drive(cases(), spec["n"], run_case)


def plant_attack(g, node, si, case, newest, contents, snap, classes):
    """Forged shares that lack only a valid signature, plus one share whose hash chain tries to smuggle their leaf hashes into the share hash tree."""
    import struct
    k, n = case["k"], case["n"]
    atk = pbytes(77, len(contents[-1]))
    r = g.run(node.overwrite(mutfile.mdata(atk)))          # stands for what the attacker computes himself from the read cap: blocks, salts, block hash trees
    if r[0] != "ok":
        return set()
    atk_snap = snap()
    paths = {(s_, sh): p for (s_, sh, p) in g.all_share_paths(si)}
    for key, p in paths.items():                            # ...but he cannot sign: every server is back at the newest genuine version
        open(p, "wb").write(newest[key])
    keys = sorted(newest, key=lambda x: (x[1], x[0]))
    shnums = sorted(set(sh for (_, sh) in keys))
    first = case["plant"]["first"] % max(1, len(shnums) - k)
    victim, forged = shnums[first], shnums[first + 1:first + 1 + k]
    if len(forged) < k:
        classes.add("plant-skipped")
        return set()
    size = 1
    while size < n:
        size *= 2
    first_leaf = size - 1
    leaf = {}
    hit = set()
    tmp = os.path.join(os.path.dirname(paths[keys[0]]), "tmp.parse")
    for key in keys:
        if key[1] not in forged:
            continue
        p = paths[key]
        G = mut_share.parse(p)["fields"]
        open(tmp, "wb").write(atk_snap[key])
        A = mut_share.parse(tmp)["fields"]
        os.unlink(tmp)
        if any(G[r_][1] - G[r_][0] != A[r_][1] - A[r_][0] for r_ in ("share_data", "block_hash_tree", "share_hash_chain")):
            classes.add("plant-skipped")
            return hit
        for r_ in ("share_data", "block_hash_tree"):
            mut_share.patch(p, G[r_][0], atk_snap[key][A[r_][0]:A[r_][1]])
        F_ = atk_snap[key][A["block_hash_tree"][0]:A["block_hash_tree"][0] + 32]
        leaf[key[1]] = F_
        a, b = G["share_hash_chain"]
        pair = struct.pack(">H32s", first_leaf + key[1], F_)
        mut_share.patch(p, a, (pair * ((b - a) // 34 + 1))[:b - a])
        hit.add(key)
    poison = {"size": 2 * size - 1, "size+1": 2 * size}.get(case["plant"]["poison"], case["plant"]["poison"])
    for key in keys:
        if key[1] != victim:
            continue
        p = paths[key]
        a, b = mut_share.parse(p)["fields"]["share_hash_chain"]
        cap = (b - a) // 34
        plants = [struct.pack(">H32s", first_leaf + sh, leaf[sh]) for sh in forged if sh in leaf]
        if cap < len(plants) + 1:
            classes.add("plant-skipped")
            return hit
        pz = struct.pack(">H32s", poison, b"P" * 32)
        pairs = ([pz] + plants if case["plant"]["order"] == "poison-first" else plants + [pz])
        pairs = pairs[:1] * (cap - len(pairs)) + pairs if case["plant"]["order"] != "poison-first" else pairs + plants[:1] * (cap - len(pairs))
        mut_share.patch(p, a, b"".join(pairs)[:b - a])
        hit.add(key)
    classes.add("plant")
    classes.add("plant-" + case["plant"]["order"])
    return hit


def pick(which, shares):
    if not shares:
        return []
    if which == "all":
        return list(shares)
    if isinstance(which, int):
        return [shares[which % len(shares)]]
    return [shares[w % len(shares)] for w in which]


def run_case(case, ctx):
    from vf import boot as _boot
    _boot.set_thread_mode(case.get("threads") or "sync")      # defer_to_thread answered in a later reactor turn (as in production) or synchronously
    k, n, seg, fmt = case["k"], case["n"], case["seg"], case["fmt"]
    mutfile.set_segsize(seg)
    g = Grid(ctx.casedir(), n, {"k": k, "n": n, "happy": 1, "max_segment_size": 131072})
    classes = {fmt}
    outcomes = []
    try:
        contents = [pbytes(40 + i, sz) + b"v%d" % i for i, sz in enumerate(case["versions"])]
        r = mutfile.create(g, g.c0, fmt, contents[0])
        if r[0] != "ok":
            ctx.fail("create-failed", "create failed: %r" % (r,))
            return
        node = r[1]
        si = node.get_storage_index()
        snaps = []

        def snap():
            return {(s, sh): open(p, "rb").read() for (s, sh, p) in g.all_share_paths(si)}
        snaps.append(snap())
        for c in contents[1:]:
            r2 = g.run(node.overwrite(mutfile.mdata(c)))
            if r2[0] != "ok":
                ctx.fail("overwrite-failed", "set-up overwrite failed: %r" % (r2,))
                return
            snaps.append(snap())
        other = mutfile.create(g, g.c0, fmt, pbytes(99, len(contents[-1])) + b"other")
        osi = other[1].get_storage_index()
        oshares = {(s, sh): open(p, "rb").read() for (s, sh, p) in g.all_share_paths(osi)}
        shares = g.all_share_paths(si)
        newest = snaps[-1]
        older = snaps[-2] if len(snaps) > 1 else None
        damaged = set()
        if case.get("plant"):
            damaged |= plant_attack(g, node, si, case, newest, contents, snap, classes)
        for d in case["damage"]:
            kind = d[0]
            for (sidx, shnum, p) in pick(d[1], shares):
                if not os.path.exists(p):
                    continue
                try:
                    info = mut_share.parse(p)
                    F = info["fields"]
                except Exception:
                    continue
                if kind == "set":
                    fname = d[2] if d[2] != "offset" else (sorted(mut_share.offsets_of(info)) or ["seqnum"])[d[4] % max(1, len(mut_share.offsets_of(info)))]
                    if fname not in F:
                        continue
                    a, b = F[fname]
                    w = b - a
                    cur = int.from_bytes(info["raw"][a:b], "big")
                    val = {"zero": 0, "one": 1, "minus": max(0, cur - 1), "plus": cur + 1, "huge": (1 << (8 * w)) - 1}[d[3]]
                    mut_share.patch(p, a, (val % (1 << (8 * w))).to_bytes(w, "big"))
                    classes.add("set")
                elif kind == "flip":
                    if d[2] not in F:
                        continue
                    a, b = F[d[2]]
                    if b > a:
                        mut_share.flip(p, a + d[3] % (b - a), 1 << (d[3] % 8))
                        classes.add("flip")
                        classes.add("flip-" + d[2])
                elif kind == "trunc":
                    pos = 60 if d[2] == "header" else (F[d[2]][0] - mut_share.DATA if d[2] in F else None)
                    if pos is None:
                        continue
                    mut_share.truncate_share(p, pos + d[3])
                    classes.add("trunc")
                elif kind == "swap":
                    src = None
                    if d[2] == "older" and older:
                        src = older.get((sidx, shnum))
                    elif d[2] == "older-othershnum" and older:
                        keys = sorted(older)
                        src = older[keys[(keys.index((sidx, shnum)) + 1 + d[3]) % len(keys)]] if (sidx, shnum) in older else None
                    elif d[2] == "othershnum":
                        keys = sorted(newest)
                        src = newest[keys[(keys.index((sidx, shnum)) + 1 + d[3]) % len(keys)]] if (sidx, shnum) in newest and len(keys) > 1 else None
                    elif d[2] == "otherfile":
                        src = next((v for (s2, sh2), v in sorted(oshares.items()) if sh2 == shnum), None)
                    elif d[2] == "otherfile-othershnum":
                        vals = [v for _, v in sorted(oshares.items())]
                        src = vals[d[3] % len(vals)] if vals else None
                    if src is None:
                        continue
                    # keep the container header (write enabler, leases) of the victim: only the share data is replaced
                    import struct
                    (slen,) = struct.unpack(">Q", src[84:92])
                    raw = open(p, "rb").read()
                    with open(p, "wb") as f:
                        f.write(raw[:84] + struct.pack(">Q", slen) + raw[92:mut_share.DATA] + src[mut_share.DATA:mut_share.DATA + slen])
                    classes.add("swap-older" if d[2].startswith("older") else ("swap-otherfile" if d[2].startswith("otherfile") else "swap-othershnum"))
                elif kind == "graft":
                    srcraw = None
                    if d[2] == "older" and older:
                        srcraw = older.get((sidx, shnum))
                    elif d[2] == "otherfile":
                        srcraw = next((v for (s2, sh2), v in sorted(oshares.items()) if sh2 == shnum), None)
                    if srcraw is None:
                        continue
                    tmp = p + ".src"
                    open(tmp, "wb").write(srcraw)
                    try:
                        sinfo = mut_share.parse(tmp)
                    finally:
                        os.unlink(tmp)
                    for reg in GRAFTS[d[3]]:
                        if reg in F and reg in sinfo["fields"]:
                            a, b = F[reg]
                            sa, sb = sinfo["fields"][reg]
                            piece = srcraw[sa:sb]
                            if not (0 <= b - a <= 1 << 20 and 0 <= sb - sa <= 1 << 20):
                                continue     # an earlier damage made the offset table nonsensical
                            if sb - sa == b - a:
                                mut_share.patch(p, a, piece)
                            else:
                                mut_share.patch(p, a, (piece + b"\0" * (b - a))[:b - a])
                    classes.add("graft-" + d[2])
                elif kind == "dup":
                    # a second server also holds this share number (pristine copy of the newest version); later damages may hit either copy
                    tgt = (sidx + 1 + d[3]) % len(g.servers)
                    from allmydata.storage.common import storage_index_to_dir
                    dd = os.path.join(g.servers[tgt].ss.sharedir, storage_index_to_dir(si))
                    tp = os.path.join(dd, "%d" % shnum)
                    if tgt == sidx or os.path.exists(tp) or (sidx, shnum) not in newest:
                        continue
                    os.makedirs(dd, exist_ok=True)
                    open(tp, "wb").write(newest[(sidx, shnum)])
                    newest[(tgt, shnum)] = newest[(sidx, shnum)]
                    shares.append((tgt, shnum, tp))
                    classes.add("dup")
                    continue
                elif kind == "delete":
                    os.unlink(p)
                    classes.add("delete")
                damaged.add((sidx, shnum))
        intact = set(sh for (s, sh, p) in shares if os.path.exists(p) and open(p, "rb").read() == newest.get((s, sh)))
        # shares whose signed prefix is untouched but whose (unsigned) offset table was altered: the servermap files them under a separate "version" with the same
        # sequence number and root hash (known finding D21)
        plen, olen = (75, 107) if fmt == "sdmf" else (59, 123)
        offsets_tampered = False
        for (s, sh, p) in shares:
            if os.path.exists(p) and (s, sh) in newest:
                cur = open(p, "rb").read()[mut_share.DATA:]
                ref = newest[(s, sh)][mut_share.DATA:]
                if cur[:plen] == ref[:plen] and cur[plen:olen] != ref[plen:olen]:
                    offsets_tampered = True
                    classes.add("offsets-tampered")
        if len(intact) >= k:
            classes.add("k-intact")
        desc = "fmt=%s k=%d N=%d seg=%d versions=%r damage=%r%s schedule=%r" % (fmt, k, n, seg, [len(c) for c in contents], case["damage"],
                                                                              " colluding-forgery=%r" % (case["plant"],) if case.get("plant") else "", case["sched"][:12])
        wcap, rcap = node.get_uri(), node.get_readonly_uri()
        g.sched.choices, g.sched.ci = list(case["sched"]), 0
        for who, cap in (("write-cap", wcap), ("read-cap", rcap)):
            rd = g.add_client()
            nd = rd.nodemaker.create_from_cap(cap)
            rr = g.sched.run_until(nd.download_best_version(), maxsteps=20000)
            if rr[0] == "ok":
                classes.add("read-ok")
                if rr[1] not in contents:
                    ctx.fail("unpublished-bytes", "%s: a %s holder read %d bytes that are not the contents of any published version (published sizes %r)" % (desc, who, len(rr[1]), [len(c) for c in contents]), reader=who)
                elif rr[1] != contents[-1]:
                    classes.add("returned-older-version")
                outcomes.append("v%d" % contents.index(rr[1]))
            elif rr[0] == "err":
                classes.add("read-failed")
                outcomes.append(type(rr[1]).__name__)
                if len(intact) >= k:
                    ctx.fail("unavailable", "%s: share numbers %r still hold the newest version untouched (k=%d) but the %s read failed with %s: %s" % (desc, sorted(intact), k, who, type(rr[1]).__name__, str(rr[1])[:200]),
                             exc=type(rr[1]).__name__, offsets_tampered=offsets_tampered)
            else:
                outcomes.append("hang")
                ctx.fail("hang", "%s: %s read never completed" % (desc, who))
    finally:
        g.stop()
        mutfile.restore_segsize()
    ctx.note(sig=repr(sorted(case.items())), nontrivial=bool(damaged), classes=sorted(classes), sample={"fmt": fmt, "k": k, "n": n, "seg": seg, "versions": case["versions"], "damage": case["damage"], "outcomes": outcomes})
