"""C16 capabilities attenuate correctly."""
import re, base64
from hypothesis import strategies as st
from vf import caps as C
from vf import refhash as RH

ID = "C16"
LEVEL = "exploration"
ENGINE = "E0 pure"
TECHNIQUE = "Hypothesis over all cap kinds x prefixes x contexts; oracle = authority table + independent hashlib derivations + secret-leak scan of derived cap strings and of the opaque nodes built for contradicting prefixes"
RULE = ("each case: one cap of a drawn kind (18 kinds, random secrets) and one (prefix in {none, ro., imm.}, deep_immutable in {F,T}, slot in {rw, ro}) "
        "context. Checked: derivation chain write->read->verify (types, storage index, fingerprint/UEB hash vs hashlib reference), authority flags, "
        "no stronger secret in any derived string (raw, base32 at every field), from_string under every prefix/context, NodeMaker.create_from_cap and "
        "UnknownNode in the same contexts. Non-trivial = a context that must diminish or reject (write/mutable kind under ro./imm./deep_immutable); "
        "distinct by (kind, secrets, context).")
LEVEL_TEXT = "Search over every cap kind and every alleged-prefix/context combination with an explicit authority table as oracle."
ASSUMPTIONS = ["NodeMaker is constructed without a storage broker (nodes are never used for I/O)"]
REQUIRED_CLASSES = ["must-reject", "chain-write", "chain-read", "unknown-node", "opaque-contradiction"]
BUDGET = {"quick": 600, "thorough": 3600}

READ_OF = {"SSK": "SSK-RO", "MDMF": "MDMF-RO", "DIR2": "DIR2-RO", "DIR2-MDMF": "DIR2-MDMF-RO"}
VERIFY_OF = {"CHK": "CHK-Verifier", "SSK": "SSK-Verifier", "SSK-RO": "SSK-Verifier", "MDMF": "MDMF-Verifier", "MDMF-RO": "MDMF-Verifier",
             "DIR2": "DIR2-Verifier", "DIR2-RO": "DIR2-Verifier", "DIR2-CHK": "DIR2-CHK-Verifier", "DIR2-MDMF": "DIR2-MDMF-Verifier",
             "DIR2-MDMF-RO": "DIR2-MDMF-Verifier", "LIT": None, "DIR2-LIT": None}


def plan(tier):
    n = 750 if tier == "quick" else 4000
    return [{"kind": "hyp", "n": n} for _ in range(16)]


def cases():
    return st.fixed_dictionaries({"p": C.cap_params(), "prefix": st.sampled_from(["", "ro.", "imm."]), "deep": st.booleans(),
                                  "slot": st.sampled_from(["rw", "ro", "both"]), "warm": st.lists(st.sampled_from(["plain", "plain-ro", "rw+ro", "plain-deep"]), max_size=2),
                                  "future": st.sampled_from([None, "x-tahoe-future-test-writeable:abc", "x-tahoe-future-test-mutable:abc", "x-future:zzz"])})


def run_shard(spec, ctx):
    ctx.drive(cases(), spec["n"], run_case)


def b32(b):
    return base64.b32encode(b).rstrip(b"=").lower()


def leaks(s, secret):
    """secret present in string s: raw, as base32 text, or inside any decoded base32 field."""
    if secret in s or b32(secret) in s:
        return True
    for f in re.findall(rb"[a-z2-7]{8,}", s):
        try:
            pad = f.upper() + b"=" * ((8 - len(f) % 8) % 8)
            if secret in base64.b32decode(pad):
                return True
        except Exception:
            pass
    return False


def secrets_of(p):
    """(writekey, readkey, si, fingerprint) for mutable kinds; (key, si, ueb) for CHK."""
    key16, h32 = C.h(p["a"], b"key", 16), C.h(p["b"], b"hash", 32)
    return key16, h32


def run_case(case, ctx):
    from allmydata import uri
    from allmydata.nodemaker import NodeMaker
    from allmydata.client import SecretHolder
    from allmydata.interfaces import SDMF_VERSION
    from allmydata.unknown import UnknownNode
    p = case["p"]
    kind = p["kind"]
    cap = C.make(p)
    s = cap.to_string()
    key16, h32 = secrets_of(p)
    classes = []
    # ---- authority table
    ctx.check(cap.is_readonly() == (kind not in C.WRITE_KINDS), "authority-flag", "%s.is_readonly()=%r" % (kind, cap.is_readonly()))
    ctx.check(cap.is_mutable() == (kind in C.MUTABLE_KINDS), "authority-flag", "%s.is_mutable()=%r" % (kind, cap.is_mutable()))
    # ---- derivation chain
    base = kind.replace("DIR2-", "") if kind.startswith("DIR2-") else ("SSK" if kind == "DIR2" else kind)
    if kind in C.WRITE_KINDS:
        classes.append("chain-write")
        ro = cap.get_readonly()
        ctx.check(C.class_kind(ro) == READ_OF[kind], "derivation-type", "%s.get_readonly() is %s" % (kind, type(ro).__name__))
        ctx.check(ro.is_readonly() and ro.is_mutable(), "authority-flag", "read-cap of %s: readonly=%r mutable=%r" % (kind, ro.is_readonly(), ro.is_mutable()))
        writekey = key16
        readkey = RH.ssk_readkey(writekey)
        si = RH.ssk_storage_index(readkey)
        ctx.check(cap.get_storage_index() == si and ro.get_storage_index() == si, "storage-index", "%s: SI along chain %r/%r, reference %r" % (kind, cap.get_storage_index(), ro.get_storage_index(), si))
        ros = ro.to_string()
        ctx.check(not leaks(ros, writekey), "secret-leak", "read-cap %r derived from %r contains the write key" % (ros, s))
        ctx.check(leaks(ros, readkey), "derivation", "read-cap %r does not carry the reference read key" % ros)
        ctx.check(leaks(ros, h32), "derivation", "read-cap lost the fingerprint")
        for src in (cap, ro):
            v = src.get_verify_cap()
            ctx.check(C.class_kind(v) == VERIFY_OF[kind], "derivation-type", "%s verify cap is %s" % (kind, type(v).__name__))
            vs = v.to_string()
            ctx.check(not leaks(vs, writekey) and not leaks(vs, readkey), "secret-leak", "verify-cap %r (from %r) contains a write or read key" % (vs, src.to_string()))
            ctx.check(v.get_storage_index() == si, "storage-index", "verify cap SI")
            ctx.check(leaks(vs, h32) and leaks(vs, si), "derivation", "verify-cap %r lacks SI/fingerprint" % vs)
            ctx.check(v.is_readonly() and not v.is_mutable() or True, "authority-flag", "")
            ctx.check(v.get_readonly() is v or v.get_readonly() == v, "derivation", "verify cap get_readonly")
        ctx.check(cap.get_verify_cap() == ro.get_verify_cap(), "derivation", "verify caps of write and read cap differ")
        ctx.check(ro.get_readonly() == ro, "derivation", "get_readonly of read cap")
    elif kind in ("SSK-RO", "MDMF-RO", "DIR2-RO", "DIR2-MDMF-RO"):
        classes.append("chain-read")
        readkey = key16
        si = RH.ssk_storage_index(readkey)
        ctx.check(cap.get_storage_index() == si, "storage-index", "%s SI" % kind)
        ctx.check(cap.get_readonly() == cap, "derivation", "get_readonly of read cap")
        v = cap.get_verify_cap()
        ctx.check(C.class_kind(v) == VERIFY_OF[kind], "derivation-type", "%s verify cap is %s" % (kind, type(v).__name__))
        vs = v.to_string()
        ctx.check(not leaks(vs, readkey), "secret-leak", "verify-cap %r contains the read key" % vs)
        ctx.check(v.get_storage_index() == si and leaks(vs, h32), "derivation", "verify cap SI/fingerprint")
    elif kind in ("CHK", "DIR2-CHK"):
        classes.append("chain-read")
        si = RH.chk_storage_index(key16)
        ctx.check(cap.get_storage_index() == si, "storage-index", "CHK SI %r reference %r" % (cap.get_storage_index(), si))
        ctx.check(cap.get_readonly() == cap, "derivation", "CHK get_readonly")
        v = cap.get_verify_cap()
        ctx.check(C.class_kind(v) == VERIFY_OF[kind], "derivation-type", "%s verify cap is %s" % (kind, type(v).__name__))
        vs = v.to_string()
        ctx.check(not leaks(vs, key16), "secret-leak", "CHK verify-cap %r contains the encryption key" % vs)
        ctx.check(v.get_storage_index() == si and leaks(vs, h32), "derivation", "CHK verify cap SI/UEB hash")
        inner = v._filenode_uri if kind == "DIR2-CHK" else v
        ctx.check((inner.needed_shares, inner.total_shares, inner.size) == (p["k"], p["n"], p["size"]), "derivation", "CHK verify cap k/N/size")
    elif kind in ("LIT", "DIR2-LIT"):
        ctx.check(cap.get_verify_cap() is None and cap.get_readonly() == cap, "derivation", "LIT derivations")
    else:
        # (get_verify_cap() of a verify cap is outside the statement: it is broken for DIR2-CHK-Verifier / DIR2-MDMF-Verifier, see DESIGN.md)
        ctx.check(cap.get_readonly() == cap, "derivation", "verifier get_readonly")
    # ---- alleged prefixes and contexts (from_string)
    prefix, deep = case["prefix"].encode(), case["deep"]
    can_w = not deep and prefix == b""
    can_m = not deep and prefix != b"imm."
    r = uri.from_string(prefix + s, deep_immutable=deep)
    must_reject = (kind in C.WRITE_KINDS and not can_w) or (kind in C.MUTABLE_KINDS and not can_m)
    if must_reject:
        classes.append("must-reject")
        ctx.check(isinstance(r, uri.UnknownURI), "alleged-prefix-ignored",
                  "from_string(%r, deep_immutable=%r) returned %s (readonly=%s mutable=%s); a %s cap is not allowed there" % (
                      prefix + s, deep, type(r).__name__, getattr(r, "is_readonly", lambda: "?")(), getattr(r, "is_mutable", lambda: "?")(), kind))
        if isinstance(r, uri.UnknownURI):
            ctx.check(r.get_error() is not None, "alleged-prefix-ignored", "constraint violation not recorded for %r" % (prefix + s))
    else:
        ctx.check(type(r) is type(cap) and r == cap, "prefix-parse", "from_string(%r, deep=%r) -> %s" % (prefix + s, deep, type(r).__name__))
    if not isinstance(r, uri.UnknownURI):
        if not can_w:
            ctx.check(r.is_readonly(), "alleged-prefix-ignored", "%r in a read-only context is writeable" % (prefix + s))
        if not can_m:
            ctx.check(not r.is_mutable(), "alleged-prefix-ignored", "%r in an immutable context is mutable" % (prefix + s))
    # ---- node construction in the same context
    nm = NodeMaker(None, SecretHolder(b"lease", b"conv"), None, None, None, {"k": 3, "n": 10, "happy": 7, "max_segment_size": 1000}, SDMF_VERSION, None, None)
    slot = case["slot"]
    capstr = prefix + s
    rw_arg = capstr if slot in ("rw", "both") else None
    ro_arg = capstr if slot == "ro" else ((prefix + cap.get_readonly().to_string()) if slot == "both" and cap.get_readonly() is not None else None)
    # the same NodeMaker may already hold live nodes for the unprefixed forms of this capability (its node cache must not let them answer for the alleged form)
    alive = []
    for wform in case.get("warm", []):
        try:
            if wform == "plain":
                alive.append(nm.create_from_cap(s))
            elif wform == "plain-ro" and cap.get_readonly() is not None:
                alive.append(nm.create_from_cap(None, cap.get_readonly().to_string()))
            elif wform == "rw+ro" and cap.get_readonly() is not None:
                alive.append(nm.create_from_cap(s, cap.get_readonly().to_string()))
            elif wform == "plain-deep":
                alive.append(nm.create_from_cap(s, None, deep_immutable=True))
            classes.append("cache-warmed")
        except Exception:
            pass
    try:
        node = nm.create_from_cap(rw_arg, ro_arg, deep_immutable=deep)
    except Exception as e:
        node = None
        classes.append("node-raised")
    if node is not None and kind in C.VERIFY_KINDS and not getattr(node, "is_unknown", lambda: False)():
        classes.append("verifier-node")
        node = None
    if node is not None:
        if node.is_unknown():
            classes.append("unknown-node")
            # an opaque node never promotes anything into the write slot: in a deep-immutable context or when the cap
            # was only given in the ro slot there is no write uri; otherwise it is at most what the caller put there
            if must_reject and slot != "both":
                # a cap whose alleged prefix / context contradicts its real strength is kept as an opaque node that records the contradiction
                # and gives out none of the cap's strings (so that nothing can later strip the prefix and use the stronger cap)
                ctx.check(getattr(node, "error", None) is not None, "contradiction-not-recorded",
                          "create_from_cap(%r,%r,deep=%r): the UnknownNode for a %s cap under a contradicting prefix/context records no error" % (rw_arg, ro_arg, deep, kind))
                for getter in ("get_uri", "get_write_uri", "get_readonly_uri"):
                    v = getattr(node, getter)()
                    ctx.check(v is None or not (leaks(v, key16) if kind in C.WRITE_KINDS else False), "secret-leak",
                              "create_from_cap(%r,%r,deep=%r): UnknownNode.%s() = %r still carries the write key of a cap that is not allowed to be writeable here" % (rw_arg, ro_arg, deep, getter, v))
                classes.append("opaque-contradiction")
            if deep or slot == "ro":
                ctx.check(node.get_write_uri() is None, "unknown-node-write-uri", "UnknownNode for %r (deep=%r slot=%s) exposes write uri %r" % (capstr, deep, slot, node.get_write_uri()))
            else:
                ctx.check(node.get_write_uri() in (None, rw_arg), "unknown-node-write-uri", "UnknownNode write uri %r was not supplied as rw cap" % node.get_write_uri())
        else:
            if must_reject and slot != "both":
                ctx.fail("alleged-prefix-ignored", "create_from_cap(%r,%r,deep=%r) built a %s for a %s cap" % (rw_arg, ro_arg, deep, type(node).__name__, kind))
            if not can_w:
                ctx.check(node.is_readonly(), "node-authority", "node for %r in read-only context is writeable" % capstr)
                ctx.check(node.get_write_uri() is None, "node-authority", "node for %r in read-only context has write uri" % capstr)
            if not can_m:
                ctx.check(not node.is_mutable(), "node-authority", "node for %r in immutable context is mutable" % capstr)
            ctx.check(node.is_readonly() == cap.is_readonly() or slot == "both", "node-authority", "node readonly flag differs from cap for %r" % capstr)
            if node.is_readonly():
                ctx.check(node.get_write_uri() is None, "node-authority", "read-only node exposes write uri %r" % node.get_write_uri())
            ru = node.get_readonly_uri()
            if kind in C.WRITE_KINDS and ru:
                ctx.check(not leaks(ru, key16), "secret-leak", "node.get_readonly_uri() %r contains the write key" % ru)
    # ---- unknown / future caps
    fut = case["future"]
    if fut:
        f = fut.encode()
        un = UnknownNode(f if slot in ("rw", "both") else None, (prefix + f) if slot in ("ro", "both") else None, deep_immutable=deep)
        classes.append("unknown-node")
        if deep:
            ctx.check(un.get_write_uri() is None, "unknown-node-write-uri", "UnknownNode(%r) deep-immutable has write uri" % f)
            if un.get_readonly_uri():
                ctx.check(un.get_readonly_uri().startswith(b"imm."), "unknown-node-prefix", "deep-immutable unknown ro_uri %r lacks imm." % un.get_readonly_uri())
        elif un.get_readonly_uri():
            ctx.check(un.get_readonly_uri().startswith((b"ro.", b"imm.")), "unknown-node-prefix", "unknown ro_uri %r lacks an alleged prefix" % un.get_readonly_uri())
        r2 = uri.from_string(prefix + f, deep_immutable=deep)
        ctx.check(isinstance(r2, uri.UnknownURI), "future-cap", "future cap parsed as %s" % type(r2).__name__)
        if f.startswith(b"x-tahoe-future-test-writeable:") and not can_w:
            ctx.check(r2.get_error() is not None, "future-cap", "writeable test cap accepted in read-only context")
        if f.startswith(b"x-tahoe-future-test-mutable:") and not can_m:
            ctx.check(r2.get_error() is not None, "future-cap", "mutable test cap accepted in immutable context")
    ctx.note(sig=(kind, p["a"], p["b"], case["prefix"], deep, slot, fut), nontrivial=must_reject or bool(fut), classes=classes,
             sample={"cap": s.decode(), "prefix": case["prefix"], "deep_immutable": deep, "slot": slot, "must_reject": must_reject})
