"""C32 servers are ordered consistently and upload permission is enforced."""
import hashlib, os
from datetime import timedelta
from hypothesis import strategies as st
from vf import gm, refhash

ID = "C32"
LEVEL = "exploration"
ENGINE = "E0 pure"
TECHNIQUE = ("Hypothesis over server sets (ids, permutation seeds given in the announcement or derived from the key), preferred-server lists, storage indexes, grid-manager keys and "
             "per-server certificate lists, clock values; several real StorageFarmBroker instances fed the same announcements in different insertion orders; differential "
             "oracle: 5-line reference ordering (not preferred, SHA1(storage index + seed)) and the C33 reference predicate for upload permission; second family: immutable uploads and mutable creates/overwrites on the in-process grid by a client configured with a grid-manager key while certificates lapse and servers leave, oracle = no allocation to and no new share number on a server without a currently valid certificate")
RULE = ("each case: 1-8 servers, each with an announcement (explicit permutation seed or none; one in three also announcing HTTP NURLs; force_foolscap on in a quarter of cases) and 0-3 certificates; 0-3 preferred servers; 0-2 configured grid-manager keys; "
        "2 brokers populated in different orders; 1-3 storage indexes; 1-3 clock values. Oracle: get_servers_for_psi(si) == servers sorted by (not preferred, "
        "SHA1(si+seed)), identical for both brokers; with for_upload=True exactly the servers whose reference certificate predicate holds at the current clock value, in the "
        "same order.  Grid family: 3-7 servers announcing certificates (valid, lapsing between phases, expired, foreign-signed, none), a client configured with the "
        "grid-manager key performs immutable uploads, mutable creates and overwrites in three phases (clock T0, +100 s, +200 s; servers going down); oracle: a server without a "
        "currently valid certificate is never sent an immutable allocation and never gains a share number it did not hold. Non-trivial = >=3 servers with a preferred one, or keys configured with both permitted and excluded servers; distinct by whole case."
        ' In half of the cases the preferred list reaches the client through `[client] peers.preferred` in a configuration file (StorageClientConfig.from_node_config).')
LEVEL_TEXT = "Differential search against a reference ordering and the certificate ground truth."
ASSUMPTIONS = ["servers are created by StorageFarmBroker._make_storage_server from their announcement (Foolscap, or HTTP when the announcement carries NURLs and force_foolscap is off) and marked connected by the harness (no network)", "the broker's certificate clock (grid_manager.current_datetime_with_zone) is replaced by the harness clock"]
REQUIRED_CLASSES = ["preferred-from-tahoe-cfg", "preferred", "seed-from-key", "seed-explicit", "upload-filtered", "upload-all-permitted", "cert-expires-between-clock-values", "http-server", "foolscap-server", "grid-mixed-permitted", "publish-with-shares-on-server-whose-certificate-lapsed", "share-placed-on-permitted-server"]
BUDGET = {"quick": 600, "thorough": 3600}


def plan(tier):
    n = 240 if tier == "quick" else 5000
    return [{"kind": "hyp", "n": n} for _ in range(12)] + [{"kind": "grid", "n": 40 if tier == "quick" else 1200} for _ in range(4)]


@st.composite
def grid_cases(draw):
    ns = draw(st.integers(3, 7))
    # per server: certificate expiry relative to T0 (None = no certificate; negative = already expired; 50/150 = expires between the phases), signed by GM key 0 or a foreign key 1
    certs = [draw(st.sampled_from([None, -10, 50, 150, 10 ** 6, 10 ** 6, 10 ** 6])) for _ in range(ns)]
    foreign = [draw(st.integers(0, 5)) == 0 for _ in range(ns)]
    phases = []
    for t in (0, 100, 200):
        phases.append({"t": t, "down": draw(st.lists(st.integers(0, ns - 1), max_size=ns - 1, unique=True)) if t else [],
                       "ops": draw(st.lists(st.sampled_from(["upload", "overwrite", "overwrite", "create"]), min_size=1, max_size=2))})
    return {"fam": "grid", "hsalt": draw(st.integers(0, 15)), "servers": ns, "certs": certs, "foreign": foreign, "phases": phases, "k": draw(st.integers(1, 2)), "n": draw(st.integers(2, 6)),
            "configured": draw(st.sampled_from([True, True, True, False])), "fmt": draw(st.sampled_from(["sdmf", "mdmf"]))}


def run_grid_case(case, ctx):
    """Uploads and mutable publishes on the in-process grid by a client configured with a grid-manager key: which servers receive new shares."""
    import allmydata.grid_manager as gmmod
    from allmydata.immutable.upload import Data
    from vf.grid import Grid
    from vf.core import pbytes
    from vf import mutfile, boot
    ns, k, n = case["servers"], case["k"], case["n"]
    now = [gm.T0]
    orig = gmmod.current_datetime_with_zone
    gmmod.current_datetime_with_zone = lambda: now[0]
    mutfile.set_segsize(64)
    classes = set()
    nt = False
    g = None
    try:
        # a grid without clients first (server ids are needed for the certificates)
        g = Grid(ctx.casedir(), ns, {"k": k, "n": n, "happy": 1, "max_segment_size": 131072}, nclients=0)
        gm_certs = {}
        for i, srv in enumerate(g.servers):
            if case["certs"][i] is not None:
                spec = {"signer": 1 if case["foreign"][i] else 0, "server": 0, "expires": case["certs"][i], "tamper": None, "tpos": 0, "public_key": "pub-" + str(srv.server_id, "ascii")}
                gm_certs[i] = [gm.build(spec)[0]]
        keys = [gm.keypair(0)[1]] if case["configured"] else None
        c = g.add_client({"k": k, "n": n, "happy": 1, "max_segment_size": 131072}, gm_keys=keys, gm_certs=gm_certs)

        def permitted(i, t):
            return (not case["configured"]) or (case["certs"][i] is not None and not case["foreign"][i] and case["certs"][i] > t)

        def holdings():
            out = {}
            for srv in g.servers:
                for dirpath, dirs, files in os.walk(srv.ss.sharedir):
                    for fn in files:
                        if fn.isdigit() and "incoming" not in dirpath:
                            out.setdefault(srv.idx, set()).add((os.path.basename(dirpath), int(fn)))
            return out
        node = None
        nup = 0
        hist = []
        for ph in case["phases"]:
            t = ph["t"]
            now[0] = gm.T0 + timedelta(seconds=t)
            for srv in g.servers:
                srv.down = srv.idx in ph["down"]
            perm = [permitted(i, t) for i in range(ns)]
            for op in ph["ops"]:
                before = holdings()
                allocs = []

                def ob(m, phase, res):
                    if phase == "delivered" and m.meth == "allocate_buckets":
                        allocs.append(m.server.idx)
                g.sched.observers.append(ob)
                try:
                    if op == "upload":
                        nup += 1
                        r = g.run(c.upload(Data(pbytes(nup, 200 + nup), convergence=b"c%d" % nup)))
                    elif op == "create" or node is None:
                        op = "create"
                        r = mutfile.create(g, c, case["fmt"], pbytes(50 + nup, 100))
                        if r[0] == "ok":
                            node = r[1]
                    else:
                        r = g.run(node.overwrite(mutfile.mdata(pbytes(70 + len(hist), 120))))
                finally:
                    g.sched.observers.remove(ob)
                after = holdings()
                hist.append((t, op, r[0] if r[0] != "err" else type(r[1]).__name__))
                desc = "servers=%d certificates(expiry s after T0, None=no cert, F=foreign key)=%r grid-manager key configured=%s k=%d N=%d history=%r (clock T0+%ds, down %r)" % (
                    ns, [("F%r" % e if f else e) for e, f in zip(case["certs"], case["foreign"])], case["configured"], k, n, hist, t, sorted(ph["down"]))
                for i in range(ns):
                    gained = sorted(after.get(i, set()) - before.get(i, set()))
                    if not perm[i]:
                        ctx.check(i not in allocs, "allocate-sent-to-unpermitted-server", "%s: an immutable allocation request was sent to server %d, which holds no currently valid certificate" % (desc, i), op=op)
                        ctx.check(not gained, "new-share-on-unpermitted-server", "%s: server %d holds no currently valid certificate but received new share(s) %r" % (desc, i, [sh for (_, sh) in gained]), op=op)
                    elif gained:
                        classes.add("share-placed-on-permitted-server")
                if case["configured"] and not all(perm) and any(perm):
                    classes.add("grid-mixed-permitted")
                    if any(not perm[i] and before.get(i) for i in range(ns)) and op == "overwrite":
                        classes.add("publish-with-shares-on-server-whose-certificate-lapsed")
                        nt = True
    finally:
        gmmod.current_datetime_with_zone = orig
        mutfile.restore_segsize()
        if g is not None:
            g.stop()
    ctx.note(sig=repr(case), nontrivial=nt, classes=sorted(classes) + ["grid-family"], sample={"certs": case["certs"], "phases": case["phases"], "history": hist})


@st.composite
def cases(draw):
    ns = draw(st.integers(1, 8))
    servers = []
    for i in range(ns):
        certs = draw(st.lists(gm.cert_spec, max_size=3))
        for c in certs:
            if draw(st.integers(0, 2)) > 0:
                c["server"] = i % 4
        servers.append({"explicit_seed": draw(st.booleans()), "certs": certs, "http": draw(st.integers(0, 2)) == 0})
    return {"servers": servers, "preferred": draw(st.lists(st.integers(0, ns - 1), max_size=3, unique=True)), "via_config": draw(st.booleans()), "configured": draw(st.lists(st.integers(0, 3), max_size=2, unique=True)),
            "order2": draw(st.permutations(list(range(ns)))), "force_foolscap": draw(st.integers(0, 3)) == 0, "sis": draw(st.lists(st.integers(0, 10 ** 6), min_size=1, max_size=3)),
            "times": draw(st.lists(st.integers(-101, 101) | st.sampled_from([0, 1, -1]), min_size=1, max_size=3))}


def run_shard(spec, ctx):
    if spec["kind"] == "grid":
        ctx.drive(grid_cases(), spec["n"], run_case)
    else:
        ctx.drive(cases(), spec["n"], run_case)


def run_case(case, ctx):
    if case.get("fam") == "grid":
        return run_grid_case(case, ctx)
    import allmydata.grid_manager as gmmod
    from allmydata.storage_client import StorageFarmBroker, StorageClientConfig, HTTPNativeStorageServer
    from allmydata.node import config_from_string
    from allmydata import client
    from allmydata.util import base32
    now = [gm.T0]
    orig = gmmod.current_datetime_with_zone
    gmmod.current_datetime_with_zone = lambda: now[0]
    classes = set()
    try:
        ns = len(case["servers"])
        # server i uses identity key i % 4 for certificates (4 distinct identities), but a unique id string
        sid, seed, anns = [], [], []
        for i, s in enumerate(case["servers"]):
            if i < 4:
                pub = gm.server_pub(i)                       # b"pub-v0-..."
                server_id = pub[4:]                          # b"v0-..."
            else:
                server_id = b"v0-" + base32.b2a(hashlib.sha256(b"extra-%d" % i).digest())
            ann = gm.announcement(i, s["certs"], http=s.get("http", False))
            if s["explicit_seed"]:
                sd = hashlib.sha256(b"seed-%d" % i).digest()[:20]
                ann["permutation-seed-base32"] = str(base32.b2a(sd), "ascii")
                classes.add("seed-explicit")
            else:
                sd = base32.a2b(server_id[3:])
                classes.add("seed-from-key")
            sid.append(server_id)
            seed.append(sd)
            anns.append(ann)
        preferred = tuple(sid[i] for i in case["preferred"])
        keys = [gm.keypair(i)[1] for i in case["configured"]]

        def broker(order):
            text = "[client]\n" + ("force_foolscap = true\n" if case.get("force_foolscap") else "")
            if case.get("via_config") and preferred:
                # the preferred list reaches the client the way an operator sets it: `peers.preferred` in tahoe.cfg
                text += "peers.preferred = " + " , ".join(str(x, "ascii") for x in preferred) + "\n"
            cfg = config_from_string("/nonexistent-verif", "client.port", text, _valid_config=client._valid_config())
            if case.get("via_config") and preferred:
                import attr
                scc = attr.evolve(StorageClientConfig.from_node_config(cfg), grid_manager_keys=keys)
                classes.add("preferred-from-tahoe-cfg")
            else:
                scc = StorageClientConfig(preferred_peers=preferred, grid_manager_keys=keys)
            b = StorageFarmBroker(True, None, cfg, scc)
            for i in order:
                srv = gm.add_connected(b, sid[i], anns[i])
                classes.add("http-server" if isinstance(srv, HTTPNativeStorageServer) else "foolscap-server")
            return b
        b1, b2 = broker(range(ns)), broker(case["order2"])
        nt = False
        verdicts = []
        for t in case["times"]:
            now[0] = gm.T0 + timedelta(seconds=t)
            permitted = []
            for i, s in enumerate(case["servers"]):
                ok = (not case["configured"]) or (i < 4 and any(gm.truth(c, case["configured"], i, t) for c in s["certs"]))
                permitted.append(ok)
            verdicts.append(tuple(permitted))
            for sn in case["sis"]:
                si = hashlib.sha256(b"si-%d" % sn).digest()[:16]
                ref = sorted(range(ns), key=lambda i: (sid[i] not in preferred, refhash.permute(si, seed[i])))
                desc = "servers=%d preferred=%r configured-keys=%r certs=%r clock=T0%+ds si#%d" % (ns, case["preferred"], case["configured"], [s["certs"] for s in case["servers"]], t, sn)
                for which, b in (("broker A", b1), ("broker B (other insertion order)", b2)):
                    got = [sid.index(s.get_serverid()) for s in b.get_servers_for_psi(si)]
                    ctx.check(got == ref, "wrong-order", "%s: %s orders servers %r, reference (not preferred, SHA1(si+seed)) gives %r" % (desc, which, got, ref))
                    gotu = [sid.index(s.get_serverid()) for s in b.get_servers_for_psi(si, for_upload=True)]
                    refu = [i for i in ref if permitted[i]]
                    ctx.check(gotu == refu, "wrong-upload-set", "%s: %s offers servers %r for upload, the certificate predicate permits %r" % (desc, which, gotu, refu),
                              extra=sorted(set(gotu) - set(refu)), missing=sorted(set(refu) - set(gotu)))
            if case["configured"]:
                classes.add("upload-filtered" if not all(permitted) else "upload-all-permitted")
                if any(permitted) and not all(permitted):
                    nt = True
        if len(set(verdicts)) > 1:
            classes.add("cert-expires-between-clock-values")
        if case["preferred"]:
            classes.add("preferred")
            if ns >= 3:
                nt = True
    finally:
        gmmod.current_datetime_with_zone = orig
    ctx.note(sig=repr(case), nontrivial=nt, classes=sorted(classes), sample={"servers": ns, "preferred": case["preferred"], "configured": case["configured"], "times": case["times"],
                                                                            "certs": [s["certs"] for s in case["servers"]][:3]})
