"""C32 servers are ordered consistently and upload permission is enforced."""
import hashlib
from datetime import timedelta
from hypothesis import strategies as st
from vf import gm, refhash

ID = "C32"
LEVEL = "exploration"
ENGINE = "E0 pure"
TECHNIQUE = ("Hypothesis over server sets (ids, permutation seeds given in the announcement or derived from the key), preferred-server lists, storage indexes, grid-manager keys and "
             "per-server certificate lists, clock values; several real StorageFarmBroker instances fed the same announcements in different insertion orders; differential "
             "oracle: 5-line reference ordering (not preferred, SHA1(storage index + seed)) and the C33 reference predicate for upload permission")
RULE = ("each case: 1-8 servers, each with an announcement (explicit permutation seed or none; one in three also announcing HTTP NURLs; force_foolscap on in a quarter of cases) and 0-3 certificates; 0-3 preferred servers; 0-2 configured grid-manager keys; "
        "2 brokers populated in different orders; 1-3 storage indexes; 1-3 clock values. Oracle: get_servers_for_psi(si) == servers sorted by (not preferred, "
        "SHA1(si+seed)), identical for both brokers; with for_upload=True exactly the servers whose reference certificate predicate holds at the current clock value, in the "
        "same order. Non-trivial = >=3 servers with a preferred one, or keys configured with both permitted and excluded servers; distinct by whole case.")
LEVEL_TEXT = "Differential search against a reference ordering and the certificate ground truth."
ASSUMPTIONS = ["servers are created by StorageFarmBroker._make_storage_server from their announcement (Foolscap, or HTTP when the announcement carries NURLs and force_foolscap is off) and marked connected by the harness (no network)", "the broker's certificate clock (grid_manager.current_datetime_with_zone) is replaced by the harness clock"]
REQUIRED_CLASSES = ["preferred", "seed-from-key", "seed-explicit", "upload-filtered", "upload-all-permitted", "cert-expires-between-clock-values", "http-server", "foolscap-server"]
BUDGET = {"quick": 600, "thorough": 3600}


def plan(tier):
    n = 240 if tier == "quick" else 5000
    return [{"kind": "hyp", "n": n} for _ in range(16)]


@st.composite
def cases(draw):
    ns = draw(st.integers(1, 8))
    servers = []
    for i in range(ns):
        certs = draw(st.lists(gm.cert_spec, max_size=3))
        for c in certs:
            if draw(st.integers(0, 2)) > 0:
                c["server"] = i % 4
        servers.append({"explicit_seed": draw(st.booleans()), "certs": certs, "http": draw(st.integers(0, 2)) == 0})
    return {"servers": servers, "preferred": draw(st.lists(st.integers(0, ns - 1), max_size=3, unique=True)), "configured": draw(st.lists(st.integers(0, 3), max_size=2, unique=True)),
            "order2": draw(st.permutations(list(range(ns)))), "force_foolscap": draw(st.integers(0, 3)) == 0, "sis": draw(st.lists(st.integers(0, 10 ** 6), min_size=1, max_size=3)),
            "times": draw(st.lists(st.integers(-101, 101) | st.sampled_from([0, 1, -1]), min_size=1, max_size=3))}


def run_shard(spec, ctx):
    ctx.drive(cases(), spec["n"], run_case)


def run_case(case, ctx):
    import allmydata.grid_manager as gmmod
    from allmydata.storage_client import StorageFarmBroker, StorageClientConfig, HTTPNativeStorageServer
    from allmydata.node import config_from_string
    from allmydata import client
    from allmydata.util import base32
    now = [gm.T0]
    orig = gmmod.current_datetime_with_zone
    gmmod.current_datetime_with_zone = lambda: now[0]
    classes = set()
    try:
        ns = len(case["servers"])
        # server i uses identity key i % 4 for certificates (4 distinct identities), but a unique id string
        sid, seed, anns = [], [], []
        for i, s in enumerate(case["servers"]):
            if i < 4:
                pub = gm.server_pub(i)                       # b"pub-v0-..."
                server_id = pub[4:]                          # b"v0-..."
            else:
                server_id = b"v0-" + base32.b2a(hashlib.sha256(b"extra-%d" % i).digest())
            ann = gm.announcement(i, s["certs"], http=s.get("http", False))
            if s["explicit_seed"]:
                sd = hashlib.sha256(b"seed-%d" % i).digest()[:20]
                ann["permutation-seed-base32"] = str(base32.b2a(sd), "ascii")
                classes.add("seed-explicit")
            else:
                sd = base32.a2b(server_id[3:])
                classes.add("seed-from-key")
            sid.append(server_id)
            seed.append(sd)
            anns.append(ann)
        preferred = tuple(sid[i] for i in case["preferred"])
        keys = [gm.keypair(i)[1] for i in case["configured"]]

        def broker(order):
            cfg = config_from_string("/nonexistent-verif", "client.port", "[client]\nforce_foolscap = true\n" if case.get("force_foolscap") else "", _valid_config=client._valid_config())
            b = StorageFarmBroker(True, None, cfg, StorageClientConfig(preferred_peers=preferred, grid_manager_keys=keys))
            for i in order:
                srv = gm.add_connected(b, sid[i], anns[i])
                classes.add("http-server" if isinstance(srv, HTTPNativeStorageServer) else "foolscap-server")
            return b
        b1, b2 = broker(range(ns)), broker(case["order2"])
        nt = False
        verdicts = []
        for t in case["times"]:
            now[0] = gm.T0 + timedelta(seconds=t)
            permitted = []
            for i, s in enumerate(case["servers"]):
                ok = (not case["configured"]) or (i < 4 and any(gm.truth(c, case["configured"], i, t) for c in s["certs"]))
                permitted.append(ok)
            verdicts.append(tuple(permitted))
            for sn in case["sis"]:
                si = hashlib.sha256(b"si-%d" % sn).digest()[:16]
                ref = sorted(range(ns), key=lambda i: (sid[i] not in preferred, refhash.permute(si, seed[i])))
                desc = "servers=%d preferred=%r configured-keys=%r certs=%r clock=T0%+ds si#%d" % (ns, case["preferred"], case["configured"], [s["certs"] for s in case["servers"]], t, sn)
                for which, b in (("broker A", b1), ("broker B (other insertion order)", b2)):
                    got = [sid.index(s.get_serverid()) for s in b.get_servers_for_psi(si)]
                    ctx.check(got == ref, "wrong-order", "%s: %s orders servers %r, reference (not preferred, SHA1(si+seed)) gives %r" % (desc, which, got, ref))
                    gotu = [sid.index(s.get_serverid()) for s in b.get_servers_for_psi(si, for_upload=True)]
                    refu = [i for i in ref if permitted[i]]
                    ctx.check(gotu == refu, "wrong-upload-set", "%s: %s offers servers %r for upload, the certificate predicate permits %r" % (desc, which, gotu, refu),
                              extra=sorted(set(gotu) - set(refu)), missing=sorted(set(refu) - set(gotu)))
            if case["configured"]:
                classes.add("upload-filtered" if not all(permitted) else "upload-all-permitted")
                if any(permitted) and not all(permitted):
                    nt = True
        if len(set(verdicts)) > 1:
            classes.add("cert-expires-between-clock-values")
        if case["preferred"]:
            classes.add("preferred")
            if ns >= 3:
                nt = True
    finally:
        gmmod.current_datetime_with_zone = orig
    ctx.note(sig=repr(case), nontrivial=nt, classes=sorted(classes), sample={"servers": ns, "preferred": case["preferred"], "configured": case["configured"], "times": case["times"],
                                                                            "certs": [s["certs"] for s in case["servers"]][:3]})
