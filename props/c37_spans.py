"""C37 Spans == set of ints, DataSpans == partial map offset->byte."""
from hypothesis import strategies as st

ID = "C37"
LEVEL = "exploration"
ENGINE = "E0 pure"
TECHNIQUE = "model-based testing: Hypothesis-generated operation sequences interpreted on Spans/DataSpans and on a reference set/dict, compared after every step"
RULE = ("operation sequences (<=200 ops, offsets 0..300) over two Spans objects (add, remove, +, -, &, +=, -=, in, len, iter, bool, copy) and "
        "one DataSpans (add, remove, get, pop, len, get_chunks, get_spans, copy); after every step the object is compared with a Python "
        "set / dict model. Non-trivial = sequence with >=1 remove/pop that splits a span or an add that merges >=2 spans or overwrites "
        "held bytes; distinct by op list."
        ' The operation alphabet includes aliased operands (s -= s, s += s, s & s, s - s).')
LEVEL_TEXT = "Random operation histories compared step by step against an obviously-correct reference (set of ints, dict offset->byte)."
ASSUMPTIONS = ["lengths are >= 1 (the classes assert length > 0)"]
REQUIRED_CLASSES = ["aliased-operand", "split", "merge", "overwrite", "exact-fill"]
BUDGET = {"quick": 600, "thorough": 3600}

MAXO = 300


def plan(tier):
    n = 750 if tier == "quick" else 4000
    return [{"kind": "hyp", "n": n, "which": "spans" if i % 2 == 0 else "data"} for i in range(16)]


def _span():
    return st.tuples(st.integers(0, MAXO), st.integers(1, 40) | st.integers(1, 3))


def span_ops():
    return st.lists(st.one_of(
        st.tuples(st.sampled_from(["add", "remove", "in", "badd", "bremove"]), _span()),
        st.tuples(st.sampled_from(["plus", "minus", "and", "iadd", "isub", "copy", "swap", "new_b", "isub_self", "iadd_self", "and_self", "minus_self"]), st.lists(_span(), max_size=4)),
        st.tuples(st.sampled_from(["fill_gap", "in_run"]), st.tuples(st.integers(0, 50), st.just(1))),
    ), min_size=1, max_size=200)


def data_ops():
    return st.lists(st.one_of(
        st.tuples(st.just("add"), st.integers(0, MAXO), st.integers(1, 30), st.integers(0, 255)),
        st.tuples(st.sampled_from(["remove", "get", "pop"]), st.integers(0, MAXO), st.integers(1, 40), st.just(0)),
        st.tuples(st.sampled_from(["copy"]), st.just(0), st.just(0), st.just(0)),
        # state-relative: resolved by the interpreter against the current model
        st.tuples(st.sampled_from(["fill_gap", "extend_left", "extend_right", "get_run", "pop_run", "get_cross"]), st.integers(0, 50), st.integers(0, 5), st.integers(0, 255)),
    ), min_size=1, max_size=200)


def run_shard(spec, ctx):
    if spec["which"] == "spans":
        ctx.drive(span_ops().map(lambda ops: {"which": "spans", "ops": [list(o) for o in ops]}), spec["n"], run_case)
    else:
        ctx.drive(data_ops().map(lambda ops: {"which": "data", "ops": [list(o) for o in ops]}), spec["n"], run_case)


def rng(s, l):
    return set(range(s, s + l))


def _cmp_spans(ctx, sp, model, what):
    from allmydata.util.spans import Spans
    lst = list(sp)
    got = set()
    prev_end = None
    for (s, l) in lst:
        ctx.check(l > 0, "bad-span", "%s: empty span in %r" % (what, lst))
        ctx.check(prev_end is None or s >= prev_end, "unsorted-or-overlapping", "%s: spans %r" % (what, lst))
        prev_end = s + l
        got |= rng(s, l)
    ctx.check(got == model, "set-mismatch", "%s: spans %r represent %r, model %r" % (what, lst, sorted(got ^ model)[:10], None))
    ctx.check(sp.len() == len(model), "len-mismatch", "%s: len %d != %d" % (what, sp.len(), len(model)))
    ctx.check(bool(sp) == bool(model), "bool-mismatch", what)
    ctx.check(set(sp.each()) == model, "each-mismatch", what)


def run_case(case, ctx):
    if case["which"] == "spans":
        run_spans(case, ctx)
    else:
        run_data(case, ctx)


def _runs(model):
    n = 0
    prev = None
    for x in sorted(model):
        if prev is None or x != prev + 1:
            n += 1
        prev = x
    return n


def _run_list(model):
    out = []
    for x in sorted(model):
        if out and out[-1][0] + out[-1][1] == x:
            out[-1][1] += 1
        else:
            out.append([x, 1])
    return out


def run_spans(case, ctx):
    from allmydata.util.spans import Spans
    a, b = Spans(), Spans()
    ma, mb = set(), set()
    classes = set()
    for i, (op, arg) in enumerate(case["ops"]):
        what = "step %d %s %r (before: a=%s)" % (i, op, arg, a.dump())
        try:
            if op == "add":
                r0 = _runs(ma)
                a.add(*arg)
                ma |= rng(*arg)
                if _runs(ma) < r0:
                    classes.add("merge")
            elif op == "remove":
                r0 = _runs(ma)
                a.remove(*arg)
                ma -= rng(*arg)
                if _runs(ma) > r0:
                    classes.add("split")
            elif op == "badd":
                b.add(*arg)
                mb |= rng(*arg)
            elif op == "bremove":
                b.remove(*arg)
                mb -= rng(*arg)
            elif op == "in":
                got = (tuple(arg) in a)
                ctx.check(got == rng(*arg).issubset(ma), "contains-mismatch", "%s -> %r" % (what, got))
            elif op == "new_b":
                b = Spans([tuple(x) for x in arg])
                mb = set()
                for x in arg:
                    mb |= rng(*x)
            elif op == "plus":
                r0 = _runs(ma)
                a = a + b
                ma = ma | mb
            elif op == "minus":
                r0 = _runs(ma)
                a = a - b
                ma = ma - mb
                if _runs(ma) > r0:
                    classes.add("split")
            elif op == "and":
                a = a & b
                ma = ma & mb
                classes.add("intersect")
            elif op == "iadd":
                a += b
                ma |= mb
            elif op == "isub":
                a -= b
                ma -= mb
            elif op == "isub_self":
                # the operand is the object itself (a set minus itself is empty)
                if ma:
                    classes.add("aliased-operand")
                a -= a
                ma -= set(ma)
            elif op == "iadd_self":
                a += a
                if ma:
                    classes.add("aliased-operand")
            elif op == "and_self":
                a = a & a
            elif op == "minus_self":
                a = a - a
                ma = set()
            elif op == "fill_gap":
                runs = _run_list(ma)
                if len(runs) >= 2:
                    i = arg[0] % (len(runs) - 1)
                    gs = runs[i][0] + runs[i][1]
                    a.add(gs, runs[i + 1][0] - gs)
                    ma |= rng(gs, runs[i + 1][0] - gs)
                    classes.add("merge")
                    classes.add("exact-fill")
            elif op == "in_run":
                runs = _run_list(ma)
                if runs:
                    r = runs[arg[0] % len(runs)]
                    ctx.check(tuple(r) in a, "contains-mismatch", "%s: maximal run %r not reported as contained" % (what, r))
            elif op == "copy":
                a = Spans(a)
            elif op == "swap":
                a, b = b, a
                ma, mb = mb, ma
        except AssertionError as e:
            ctx.fail("internal-assertion", "%s raised AssertionError %r" % (what, e))
            return
        except Exception as e:
            ctx.fail("exception", "%s raised %r" % (what, e))
            return
        _cmp_spans(ctx, a, ma, what + " [a]")
        _cmp_spans(ctx, b, mb, what + " [b]")
    ctx.note(sig=repr(case["ops"]), nontrivial=bool(classes & {"split", "merge", "intersect"}), classes=sorted(classes),
             sample={"which": "spans", "ops": case["ops"][:25], "n_ops": len(case["ops"])})


def run_data(case, ctx):
    from allmydata.util.spans import DataSpans
    d = DataSpans()
    m = {}
    classes = set()
    for i, (op, start, length, fill) in enumerate(case["ops"]):
        runs = _run_list(set(m))
        if op in ("fill_gap", "extend_left", "extend_right", "get_run", "pop_run", "get_cross"):
            if not runs:
                continue
            r = runs[start % len(runs)]
            nxt = runs[(start % len(runs)) + 1] if (start % len(runs)) + 1 < len(runs) else None
            if op == "fill_gap":
                if nxt is None:
                    continue
                op, start, length = "add", r[0] + r[1], nxt[0] - (r[0] + r[1])
                classes.add("exact-fill")
            elif op == "extend_right":
                gap = (nxt[0] - (r[0] + r[1])) if nxt else 10
                op, start, length = "add", r[0] + r[1], max(1, min(gap, length + 1))
            elif op == "extend_left":
                if r[0] == 0:
                    continue
                ln = min(r[0], length + 1)
                op, start, length = "add", r[0] - ln, ln
            elif op == "get_run":
                op, start, length = "get", r[0], r[1]
            elif op == "pop_run":
                op, start, length = "pop", r[0], r[1]
            elif op == "get_cross":
                # a range that straddles an interior point of the run
                if r[1] < 2:
                    continue
                mid = r[0] + 1 + (length % (r[1] - 1))
                lo = max(r[0], mid - 1 - fill % 5)
                hi = min(r[0] + r[1], mid + 1 + fill % 7)
                op, start, length = "get", lo, hi - lo
        what = "step %d %s(%d,%d) before=%s" % (i, op, start, length, d.dump())
        try:
            if op == "add":
                data = bytes((fill + j * 7) % 256 for j in range(length))
                r0 = _runs(set(m))
                if any((start + j) in m for j in range(length)):
                    classes.add("overwrite")
                d.add(start, data)
                for j in range(length):
                    m[start + j] = data[j]
                if _runs(set(m)) < r0:
                    classes.add("merge")
            elif op == "remove":
                r0 = _runs(set(m))
                d.remove(start, length)
                for j in range(length):
                    m.pop(start + j, None)
                if _runs(set(m)) > r0:
                    classes.add("split")
            elif op in ("get", "pop"):
                exp = bytes(m[start + j] for j in range(length)) if all((start + j) in m for j in range(length)) else None
                got = d.get(start, length) if op == "get" else d.pop(start, length)
                ctx.check(got == exp, "get-mismatch", "%s -> %r expected %r" % (what, got, exp))
                if op == "pop" and exp is not None:
                    r0 = _runs(set(m))
                    for j in range(length):
                        m.pop(start + j, None)
                    if _runs(set(m)) > r0:
                        classes.add("split")
            elif op == "copy":
                d = DataSpans(d)
        except AssertionError as e:
            ctx.fail("internal-assertion", "%s raised AssertionError %r" % (what, e))
            return
        except Exception as e:
            ctx.fail("exception", "%s raised %r" % (what, e))
            return
        try:
            d.assert_invariants()
        except AssertionError:
            ctx.fail("invariant", "%s: assert_invariants failed: %r" % (what, d.get_chunks()))
        got = {}
        prev_end = None
        for (s, data) in d.get_chunks():
            ctx.check(len(data) > 0, "empty-chunk", what)
            ctx.check(prev_end is None or s >= prev_end, "unsorted-or-overlapping", "%s chunks=%r" % (what, d.get_chunks()))
            prev_end = s + len(data)
            for j, byte in enumerate(data):
                got[s + j] = byte
        ctx.check(got == m, "map-mismatch", "%s: held bytes differ from model at offsets %r" % (what, sorted(k for k in set(got) | set(m) if got.get(k) != m.get(k))[:10]))
        ctx.check(d.len() == len(m), "len-mismatch", what)
        ctx.check(set(d.get_spans().each()) == set(m), "get_spans-mismatch", what)
        for (rs, rl) in _run_list(set(m)):
            exp = bytes(m[rs + j] for j in range(rl))
            got_run = d.get(rs, rl)
            ctx.check(got_run == exp, "get-mismatch", "%s: after the step get(%d,%d) of a fully held run returned %r" % (what, rs, rl, got_run if got_run is None else "wrong bytes"))
        rl_ = _run_list(set(m))
        if len(rl_) >= 2:
            g0 = rl_[0][0] + rl_[0][1]
            ctx.check(d.get(rl_[0][0], rl_[1][0] - rl_[0][0] + 1) is None, "get-mismatch", "%s: get across an unheld gap returned data" % what)
    ctx.note(sig=repr(case["ops"]), nontrivial=bool(classes), classes=sorted(classes),
             sample={"which": "data", "ops": case["ops"][:25], "n_ops": len(case["ops"])})
