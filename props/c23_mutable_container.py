"""C23 mutable share containers behave like growable byte arrays; data writes never alter leases."""
from hypothesis import strategies as st
from vf import boot, store, slots

ID = "C23"
LEVEL = "exploration"
ENGINE = "E1 store"
TECHNIQUE = "model-based testing: Hypothesis histories of read-test-write/read operations (state-relative offsets) on a real StorageServer vs. a bytearray + lease-table model, compared after every step"
RULE = ("per case: 1-3 shares (created by the server with the newest schema or directly with the v1 schema) receive 0-10 leases, then <=40 operations: "
        "read-test-write with 1-3 non-overlapping write vectors at offsets inside / at end / past end / far past end of the current data, new_length in "
        "{None, smaller, equal, larger, 0}, test vectors (matching, mismatching, 'must not exist'), and reads of arbitrary ranges. After every operation all "
        "shares are read back in full and by range and the lease tables are compared. Non-trivial = history with a truncation followed by a write past the "
        "new end, a gap write, a delete+re-create, or container growth with >4 leases; distinct by case.")
LEVEL_TEXT = "Random histories against the byte-array semantics of the RIStorageServer docstring; data and leases compared after every step."
ASSUMPTIONS = ["write vectors in one request do not overlap (documented precondition)", "offsets stay below 2^20 (MAX_MUTABLE_SHARE_SIZE is not approached)"]
REQUIRED_CLASSES = ["gap-zero-fill", "truncate", "delete", "create", "write-after-truncate", "grow-with-extra-leases", "testv-failed", "newlen-larger-ignored"]
BUDGET = {"quick": 600, "thorough": 3600}


def plan(tier):
    n = 300 if tier == "quick" else 1500
    return [{"kind": "hyp", "n": n} for _ in range(16)]


def vec():
    sel = st.sampled_from(["in", "in", "end", "end", "past", "far", "abs"])
    return st.tuples(sel, st.integers(0, 400), st.integers(1, 120))


def op():
    test = st.tuples(st.sampled_from(["in", "end", "abs"]), st.integers(0, 300), st.integers(0, 40), st.sampled_from(["ok", "ok", "ok", "bad", "empty"]))
    share_spec = st.fixed_dictionaries({"tests": st.lists(test, max_size=2), "writes": st.lists(vec(), max_size=3),
                                        "newlen": st.tuples(st.sampled_from(["none", "none", "none", "smaller", "smaller", "same", "larger", "zero"]), st.integers(0, 500))})
    return st.one_of(
        st.fixed_dictionaries({"op": st.just("rtw"), "spec": st.dictionaries(st.sampled_from(["0", "1", "2"]), share_spec, min_size=1, max_size=2),
                               "lease": st.integers(0, 2), "readv": st.lists(st.tuples(st.integers(0, 500), st.integers(0, 300)), max_size=2)}),
        st.fixed_dictionaries({"op": st.just("read"), "ranges": st.lists(st.tuples(st.integers(0, 700), st.integers(0, 400)), min_size=1, max_size=3)}),
        st.fixed_dictionaries({"op": st.just("advance"), "t": st.sampled_from([1, 3600, 86400 * 10])}),
    )


def cases():
    return st.fixed_dictionaries({"v1": st.lists(st.integers(0, 2), max_size=2, unique=True), "nleases": st.integers(0, 10),
                                  "init": st.integers(0, 300), "ops": st.lists(op(), min_size=1, max_size=40)})


def run_shard(spec, ctx):
    ctx.drive(cases(), spec["n"], run_case)


def run_case(case, ctx):
    boot.cancel_all_timers()
    w = slots.SlotWorld(ctx, ctx.casedir())
    si_i = 0
    for sh in case["v1"]:
        w.create_direct(si_i, sh, 0, 1)
    # initial content + leases
    from vf.core import pbytes
    if case["init"]:
        w.rtw(si_i, 0, 0, {0: ([], [(0, pbytes(1, case["init"]))], None)}, [], "init write")
    for li in range(case["nleases"]):
        tw = {sh: ([], [], None) for (s, sh) in list(w.shares) if s == si_i} or {0: ([], [], None)}
        w.rtw(si_i, 0, 10 + li, tw, [], "attach lease %d" % li)
    w.check_all("after set-up")
    truncated = set()
    nt = False
    for step, o in enumerate(case["ops"]):
        what = "step %d %r" % (step, o)
        if o["op"] == "rtw":
            tw = w.build_tw(si_i, o["spec"], step)
            pre = {sh: (len(w.shares[(si_i, sh)].data), len(w.shares[(si_i, sh)].leases)) if (si_i, sh) in w.shares else None for sh in tw}
            res = w.rtw(si_i, 0, o["lease"], tw, [tuple(r) for r in o["readv"]], what)
            if res == "applied":
                for sh, (testv, datav, newlen) in tw.items():
                    p = pre[sh]
                    if p and datav and sh in truncated and any(off > 0 for (off, d) in datav):
                        w.classes.add("write-after-truncate")
                        nt = True
                    if p and newlen is not None and 0 < newlen < p[0]:
                        truncated.add(sh)
                    if newlen == 0:
                        truncated.discard(sh)
                    if p and p[1] > 4 and (si_i, sh) in w.shares and len(w.shares[(si_i, sh)].data) > p[0]:
                        w.classes.add("grow-with-extra-leases")
                        nt = True
                if w.classes & {"gap-zero-fill", "delete"}:
                    nt = True
        elif o["op"] == "read":
            w.check_all(what, ranges=[tuple(r) for r in o["ranges"]])
        else:
            boot.R.advance(o["t"])
        w.check_all(what)
    boot.cancel_all_timers()
    ctx.note(sig=repr(case), nontrivial=nt, classes=sorted(w.classes), sample={"v1": case["v1"], "nleases": case["nleases"], "init": case["init"], "ops": case["ops"][:6], "n_ops": len(case["ops"])})
