"""C18 read-only directory access is transitive and leaks no child write-cap."""
from hypothesis import strategies as st
from vf import boot, mutfile, caps
from vf.grid import Grid

ID = "C18"
LEVEL = "exploration"
ENGINE = "E2 detgrid"
TECHNIQUE = ("Hypothesis-generated directory trees (depth <=3; children: literal/CHK files, SDMF/MDMF file caps with and without write authority, real SDMF/MDMF subdirectories, "
             "read-only links to directories, immutable directories, unknown future caps with rw+ro / ro. / imm. forms) built with write caps on the in-process grid, then "
             "walked through the root's read cap by a fresh client and by the SAME client before/after a write-cap walk (node cache); oracle = authority table per node + "
             "substring scan of the directory plaintext a read-cap holder obtains + the write-cap holder recovers every child write cap; optionally a second gateway with an access blacklist re-packs entries first")
RULE = ("each case: a tree of 1-8 real directories and up to 20 other children; walks: 'fresh-ro' (new client, read cap), 'rw-then-ro' and 'ro-then-rw' (one client, both caps). "
        "For every node reached through the read cap: get_write_uri() is None, the node is read-only or unknown, mutating calls (set_uri/delete on directories, overwrite on "
        "mutable files) fail, and the node's cap string is not a write cap; the raw contents of every directory file, as downloaded with the read cap, contain neither any "
        "child write-cap string of the tree nor the base32 of any write key; through the write cap every child's write cap equals the one it was linked with. "
        "Non-trivial = the tree has a write-capable child at depth >=2 and the same client walked it with both caps; distinct by whole case.")
LEVEL_TEXT = "Random trees and walk orders against an explicit authority table; leak detection by substring scan of what a read-cap holder can obtain."
ASSUMPTIONS = ["the walking client keeps references to the nodes it has seen (otherwise the weak node cache is always empty)", "file children are never dereferenced (only their caps matter)", "the AES encryption of the rw-cap slot is not attacked; the scan looks for cleartext caps and keys"]
REQUIRED_CLASSES = ["writecap-offered-in-read-slot:refused", "entry-repacked-by-second-gateway", "blacklisted-child", "depth>=2-writecap", "same-client-rw-then-ro", "same-client-ro-then-rw", "fresh-ro", "unknown-rw", "mdmf-dir", "imm-dir", "ro-link"]
BUDGET = {"quick": 900, "thorough": 7200}
LEAF = ["lit", "chk", "ssk", "ssk-ro", "mdmf", "mdmf-ro", "unknown-rw", "unknown-ro", "unknown-imm", "ro-link", "imm-dir", "unknown-rw-with-writecap-in-ro-slot"]


def plan(tier):
    n = 90 if tier == "quick" else 1500
    return [{"kind": "hyp", "n": n} for _ in range(16)]


def tree(depth):
    leaf = st.tuples(st.sampled_from(LEAF), st.integers(0, 30)).map(lambda t: [t[0], t[1], []])
    if depth == 0:
        return st.lists(leaf, max_size=4)
    sub = st.tuples(st.sampled_from(["dir", "dir", "dir-mdmf"]), st.integers(0, 30), st.deferred(lambda: tree(depth - 1))).map(list)
    return st.lists(st.one_of(leaf, leaf, sub), max_size=4)


@st.composite
def cases(draw):
    return {"hsalt": draw(st.integers(0, 15)), "root": draw(st.sampled_from(["sdmf", "mdmf"])), "tree": draw(tree(2)), "walk": draw(st.sampled_from(["fresh-ro", "rw-then-ro", "rw-then-ro", "ro-then-rw"])),
            "sched": draw(st.lists(st.integers(0, 5), max_size=20)),
            # a second gateway of the write-cap holder, configured with an access blacklist naming some of the children, edits the metadata of entries (which re-packs them)
            "gateway2": draw(st.none() | st.fixed_dictionaries({"blacklist": st.lists(st.integers(0, 30), max_size=6), "touch": st.lists(st.integers(0, 30), min_size=1, max_size=8)}))}


def run_shard(spec, ctx):
    ctx.drive(cases(), spec["n"], run_case)


def run_case(case, ctx):
    from allmydata.util import base32
    from allmydata import uri
    from allmydata.unknown import UnknownNode
    from allmydata.interfaces import IDirectoryNode, IMutableFileNode
    mutfile.set_segsize(4096)
    g = Grid(ctx.casedir(), 3, {"k": 1, "n": 2, "happy": 1, "max_segment_size": 131072}, choices=case["sched"])
    c = g.c0
    classes = set()
    writecaps = set()       # every write-cap string linked anywhere
    writekeys = set()
    expect = {}             # path tuple -> (rw or None)
    ndirs = [0]
    deep_wc = [False]
    try:
        def mkdir(fmt):
            ndirs[0] += 1
            r = g.run(c.nodemaker.create_new_mutable_directory(version=mutfile.version_const("mdmf" if fmt in ("mdmf", "dir-mdmf") else "sdmf")))
            if r[0] != "ok":
                raise RuntimeError("mkdir failed %r" % (r,))
            if fmt in ("mdmf", "dir-mdmf"):
                classes.add("mdmf-dir")
            return r[1]
        root = mkdir(case["root"])

        def build(dn, children, path):
            for i, (kind, a, sub) in enumerate(children):
                if ndirs[0] >= 8 and kind.startswith("dir"):
                    kind = "ssk"
                name = u"%s-%d" % (kind, i)
                p = path + (name,)
                rw = ro = None
                if kind in ("dir", "dir-mdmf"):
                    ch = mkdir(kind)
                    rw, ro = ch.get_uri(), ch.get_readonly_uri()
                    build(ch, sub, p)
                elif kind == "ro-link":
                    ro = root.get_readonly_uri()
                    classes.add("ro-link")
                elif kind == "imm-dir":
                    r = g.run(c.nodemaker.create_immutable_directory({u"inner": (c.nodemaker.create_from_cap(uri.LiteralFileURI(b"x%d" % a).to_string()), {})}))
                    if r[0] != "ok":
                        raise RuntimeError("immutable mkdir failed %r" % (r,))
                    ro = r[1].get_readonly_uri()
                    classes.add("imm-dir")
                elif kind == "unknown-rw-with-writecap-in-ro-slot":
                    # a careless writer: an unknown cap in the write slot and a KNOWN write cap where the read cap belongs.  Either the entry is
                    # refused, or what ends up in the read slot is not a write cap.
                    wc = caps.make({"kind": "SSK" if a % 2 else "DIR2-MDMF", "a": 7000 + a * 20 + i, "b": 7007 + a * 20 + i, "k": 3, "n": 10, "size": 100, "lit": ""}).to_string()
                    from allmydata.interfaces import CapConstraintError
                    try:
                        r = g.run(dn.set_uri(name, b"URI:FUTURE-RW:%d" % a, wc))
                    except CapConstraintError as e_:
                        r = ("err", e_)
                    classes.add("writecap-offered-in-read-slot" + (":refused" if r[0] != "ok" else ":stored"))
                    writecaps.add(wc)
                    try:
                        u_ = uri.from_string(wc)
                        wk_ = getattr(u_, "writekey", None) or getattr(getattr(u_, "_filenode_uri", None), "writekey", None)
                        if wk_:
                            writekeys.add(base32.b2a(wk_))
                    except Exception:
                        pass
                    if r[0] == "ok":
                        expect[p] = None
                    continue
                elif kind.startswith("unknown"):
                    tag = b"%d" % a
                    if kind == "unknown-rw":
                        rw, ro = b"URI:FUTURE-RW:" + tag, b"URI:FUTURE-RO:" + tag
                        classes.add("unknown-rw")
                    elif kind == "unknown-ro":
                        ro = b"ro.URI:FUTURE-RO:" + tag
                    else:
                        ro = b"imm.URI:FUTURE-IMM:" + tag
                else:
                    cap = caps.make({"kind": {"lit": "LIT", "chk": "CHK", "ssk": "SSK", "ssk-ro": "SSK-RO", "mdmf": "MDMF", "mdmf-ro": "MDMF-RO"}[kind], "a": (a * 40 + i) * 20 + LEAF.index(kind), "b": 7 + (a * 40 + i) * 20 + LEAF.index(kind),
                                     "k": 3, "n": 10, "size": 100 + a, "lit": (b"lit%d" % a).hex()})
                    if kind in ("ssk", "mdmf"):
                        rw, ro = cap.to_string(), cap.get_readonly().to_string()
                    else:
                        ro = cap.to_string()
                r = g.run(dn.set_uri(name, rw, ro))
                if r[0] != "ok":
                    raise RuntimeError("set_uri failed %r" % (r,))
                expect[p] = rw
                if rw:
                    writecaps.add(rw)
                    if len(p) >= 2:
                        deep_wc[0] = True
                    try:
                        u = uri.from_string(rw)
                        wk = getattr(u, "writekey", None) or getattr(getattr(u, "_filenode_uri", None), "writekey", None)
                        if wk:
                            writekeys.add(base32.b2a(wk))
                    except Exception:
                        pass
        build(root, case["tree"], ())
        writecaps.add(root.get_uri())
        if case.get("gateway2"):
            from allmydata.blacklist import Blacklist
            import os
            rwkids = sorted((p_, rw_) for p_, rw_ in expect.items() if rw_ and not rw_.startswith(b"URI:FUTURE"))
            w2 = g.add_client()
            fn = os.path.join(g.basedir, "access.blacklist")
            with open(fn, "wb") as f:
                for bi in case["gateway2"]["blacklist"]:
                    if rwkids:
                        p_, rw_ = rwkids[bi % len(rwkids)]
                        f.write(base32.b2a(uri.from_string(rw_).get_storage_index()) + b" prohibited by the operator\n")
                        classes.add("blacklisted-child")
            w2.nodemaker.blacklist = Blacklist(fn)
            allkids = sorted(expect)
            for ti in case["gateway2"]["touch"]:
                if not allkids:
                    break
                p_ = allkids[ti % len(allkids)]
                parent_cap = root.get_uri() if len(p_) == 1 else expect.get(p_[:-1])
                if not parent_cap:
                    continue
                pn = w2.nodemaker.create_from_cap(parent_cap)
                if not hasattr(pn, "set_metadata_for"):
                    continue                 # the parent itself is prohibited on this gateway
                r = g.run(pn.set_metadata_for(p_[-1], {"touched-by": "gateway2"}))
                if r[0] == "ok":
                    classes.add("entry-repacked-by-second-gateway")
        root_rw, root_ro = root.get_uri(), root.get_readonly_uri()
        desc = "root=%s tree=%r walk=%s" % (case["root"], case["tree"], case["walk"])

        alive = []

        def walk(client, cap, readonly, label):
            seen = set()

            def visit(node, path, depth):
                r = g.run(node.list())
                if r[0] != "ok":
                    ctx.fail("list-failed", "%s: %s: list at %r failed %r" % (desc, label, path, r))
                    return
                if readonly:
                    # what a read-cap holder can obtain: the raw directory file
                    raw = g.run(node._node.download_best_version())
                    if raw[0] == "ok":
                        for wc in writecaps:
                            ctx.check(wc not in raw[1], "writecap-in-plaintext", "%s: %s: the directory file at %r, as downloaded with a read cap, contains the write cap %r in the clear" % (desc, label, path, wc))
                        for wk in writekeys:
                            ctx.check(wk not in raw[1], "writekey-in-plaintext", "%s: %s: the directory file at %r contains write key %r" % (desc, label, path, wk))
                        # a read-cap holder who happens to know ONE child's write cap (e.g. he created that child) must not be able to strip the encryption of
                        # a sibling's write-cap slot with it: the key streams of different children must differ
                        from allmydata.util.netstring import split_netstring
                        pos_, slots = 0, []
                        while pos_ < len(raw[1]):
                            (entry,), pos_ = split_netstring(raw[1], 1, pos_)
                            (nm_, ro_, rwcapdata, md_), _x = split_netstring(entry, 4)
                            rwc = expect.get(path + (nm_.decode("utf-8"),))
                            if rwc and len(rwcapdata) > 48:
                                ct = rwcapdata[16:-32]
                                slots.append((nm_, rwc, bytes(a ^ b for a, b in zip(ct, rwc))))
                        for i_ in range(len(slots)):
                            for j_ in range(i_ + 1, len(slots)):
                                m_ = min(len(slots[i_][2]), len(slots[j_][2]), 24)
                                if slots[i_][1] != slots[j_][1] and m_ >= 16:
                                    classes.add("sibling-writecaps-compared")
                                    ctx.check(slots[i_][2][:m_] != slots[j_][2][:m_], "writecap-keystream-reused",
                                              "%s: %s: in the directory at %r the write-cap slots of %r and %r are encrypted with the same key stream: knowing one child's write cap reveals the other's" % (desc, label, path, slots[i_][0], slots[j_][0]))
                for name, (ch, md) in sorted(r[1].items()):
                    p = path + (name,)
                    alive.append(ch)      # the client keeps the nodes it has seen (as open operations and caches do), so the node cache stays populated
                    wu = ch.get_write_uri()
                    if readonly:
                        ctx.check(wu is None, "write-cap-through-read-cap", "%s: %s: child %r reached through the read-only root has get_write_uri()=%r" % (desc, label, p, wu), kind=name.split("-")[0])
                        ctx.check(isinstance(ch, UnknownNode) or ch.is_readonly(), "writeable-node-through-read-cap", "%s: %s: child %r (%s) reached through the read-only root is not read-only" % (desc, label, p, type(ch).__name__),
                                  kind=name.split("-")[0])
                        cs = ch.get_uri() if not isinstance(ch, UnknownNode) else (ch.get_readonly_uri() or b"")
                        ctx.check(cs not in writecaps, "write-cap-string", "%s: %s: child %r exposes the write cap string %r" % (desc, label, p, cs))
                        if IDirectoryNode.providedBy(ch) and ch.is_mutable():
                            rr = g.run(ch.set_uri(u"intruder", None, uri.LiteralFileURI(b"x").to_string()))
                            ctx.check(rr[0] == "err", "mutation-through-read-cap", "%s: %s: set_uri on directory %r reached through the read cap succeeded" % (desc, label, p))
                            rr = g.run(ch.delete(u"nothing", must_exist=False))
                            ctx.check(rr[0] == "err", "mutation-through-read-cap", "%s: %s: delete on directory %r reached through the read cap succeeded" % (desc, label, p))
                    else:
                        if p in expect:
                            ctx.check(wu == expect[p], "write-cap-lost", "%s: %s: through the write cap, child %r has write cap %r, linked with %r" % (desc, label, p, wu, expect[p]))
                    if IDirectoryNode.providedBy(ch) and depth < 4:
                        key = (ch.get_readonly_uri(), readonly)
                        if key not in seen:
                            seen.add(key)
                            visit(ch, p, depth + 1)
            node = client.nodemaker.create_from_cap(cap)
            if readonly:
                ctx.check(node.is_readonly() and node.get_write_uri() is None, "root-not-readonly", "%s: %s: root opened by read cap is writeable" % (desc, label))
                rr = g.run(node.set_uri(u"intruder", None, uri.LiteralFileURI(b"x").to_string()))
                ctx.check(rr[0] == "err", "mutation-through-read-cap", "%s: %s: set_uri on the read-only root succeeded" % (desc, label))
            visit(node, (), 0)
        w = case["walk"]
        if w == "fresh-ro":
            walk(g.add_client(), root_ro, True, "fresh client, read cap")
            classes.add("fresh-ro")
        elif w == "rw-then-ro":
            c2 = g.add_client()
            keep = []
            walk(c2, root_rw, False, "client X, write cap")
            walk(c2, root_ro, True, "client X again, read cap (after the write-cap walk)")
            classes.add("same-client-rw-then-ro")
        else:
            c2 = g.add_client()
            walk(c2, root_ro, True, "client X, read cap")
            walk(c2, root_rw, False, "client X again, write cap (after the read-cap walk)")
            walk(c2, root_ro, True, "client X, read cap once more")
            classes.add("same-client-ro-then-rw")
        if deep_wc[0]:
            classes.add("depth>=2-writecap")
    finally:
        g.stop()
        mutfile.restore_segsize()
    ctx.note(sig=repr(case), nontrivial=deep_wc[0] and w != "fresh-ro", classes=sorted(classes), sample={"root": case["root"], "tree": case["tree"], "walk": w})
