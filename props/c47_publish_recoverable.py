"""C47 a successful mutable publish is recoverable: success only with >=k distinct share numbers acknowledged; an error when fewer can be placed."""
from hypothesis import strategies as st
from vf import boot, mutfile
from vf.core import pbytes
from vf.grid import Grid

ID = "C47"
LEVEL = "fault_enumeration"
ENGINE = "E2 detgrid"
TECHNIQUE = ("Hypothesis-generated grids (1-12 servers; write calls that fail, fail on the n-th call, lose the connection, are applied but answered with a connection "
             "error, servers that disconnect after j calls, late or down servers) x SDMF/MDMF create/overwrite/update x delivery schedules; server-side ground truth of "
             "acknowledged share numbers collected at the wire; follow-up read from a fresh client; stale-survey step (another write-cap holder publishes between the writer's survey and its publish) judged by a wire-level clobber monitor")
RULE = ("each case: format, k<=3, N<=6, 1-12 servers with a drawn behaviour each; step 1 creates the file under fault plan A (or on a healthy grid), step 2 overwrites or "
        "updates it in place under fault plan B; for each publish the harness records, at the server side, the share numbers whose test-and-set write was executed, "
        "accepted and answered successfully. Oracle: publish success => those acknowledged share numbers number >= k and (after reconnecting everything) a fresh client that surveys "
        "all servers retrieves exactly the new contents as the best recoverable version; when no server can acknowledge any write the publish must end in an error (not success). A publish that neither succeeds nor "
        "fails with the system quiescent is reported as HANG. Non-trivial = a publish during which at least one write failed or was unacknowledged; distinct by whole case."
        " Added dimensions: an intermediate overwrite that some share holders miss (they stay listed, or leave and return so that their share numbers are re-homed), with the option that exactly the holders of the current version fail during the publish under test; a stale-survey template for grids with fewer servers than shares in which the interloper lands only part of its shares on one server and one of the writer's requests to that server is lost (oracle: a successful publish was never shown, in any answer to its writes, a share state it had neither surveyed nor written).")
LEVEL_TEXT = "Fault-plan and schedule search with wire-level ground truth for what was acknowledged."
ASSUMPTIONS = ["one writer (concurrent writers are C12)", "injected failures strike the write call (slot_testv_and_readv_and_writev); reads used by the survey succeed unless the server is down/disconnected"]
REQUIRED_CLASSES = ["update-by-client-with-other-defaults", "stale-survey-publish", "stale-survey-publish-sibling-share", "stale-shares-before-publish", "stale-shares-before-publish:new-holders-fail", "stale-shares-before-publish:share-numbers-rehomed", "success", "error", "success-with-failed-writes", "acked==k", "update", "create-under-faults", "mdmf", "sdmf", "fault-applied-but-unacked"]
BUDGET = {"quick": 900, "thorough": 7200}
KINDS = ["ok", "ok", "ok", "fail-write", "fail-write-nth", "dead-write", "dead-write-nth", "applied-unacked", "disconnect", "late", "down"]
W = "slot_testv_and_readv_and_writev"


def plan(tier):
    n = 120 if tier == "quick" else 2500
    return [{"kind": "hyp", "n": n} for _ in range(16)]


@st.composite
def cases(draw):
    k = draw(st.integers(1, 3))
    n = draw(st.integers(k, 6))
    nserv = draw(st.integers(1, 12))
    sib = draw(st.sampled_from([None, None, None, 1]))
    if sib:
        # fewer servers than shares: some server holds several share numbers
        n = max(n, 2)
        nserv = draw(st.integers(1, n - 1))
    heavy = draw(st.booleans())
    kinds = KINDS[3:] if heavy else KINDS

    def fplan():
        return [[draw(st.sampled_from(kinds)), draw(st.integers(0, 8))] for _ in range(nserv)]
    seg = draw(st.sampled_from([8, 16, 64]))
    case = _case(draw, k, n, nserv, seg, sib, fplan)
    if case["mid"] and draw(st.booleans()):
        # the in-place update of a file of several segments whose stale shares sit under the same share numbers as the current ones
        case.update({"fmt": "mdmf", "op": draw(st.sampled_from(["update", "update-append"])), "size": draw(st.integers(2 * seg + 1, 5 * seg))})
        case["mid"].update({"leave": True, "failnew": True})
    return case


def _case(draw, k, n, nserv, seg, sib, fplan):
    return {"hsalt": draw(st.integers(0, 15)), "threads": draw(st.sampled_from(["sync", "async", "held"])), "fmt": draw(st.sampled_from(["sdmf", "mdmf"])), "k": k, "n": n, "seg": seg, "size": draw(st.integers(0, 5 * seg)),
            "planA": draw(st.one_of(st.none(), st.just(0).map(lambda _: fplan()))), "planB": fplan(),
            "op": draw(st.sampled_from(["overwrite", "update", "update-append"])), "size2": draw(st.integers(1, 3 * seg)),
            "sched": draw(st.lists(st.integers(0, 9), max_size=draw(st.sampled_from([0, 40, 200])))),
            # an overwrite in between that some share holders miss: they keep shares of the creation version while its share numbers get new homes
            "mid": draw(st.sampled_from([None, None, 1])) and {"down": draw(st.lists(st.integers(0, 11), min_size=1, max_size=4)), "failnew": draw(st.booleans()),
                                                               # ...the writer knows they are away (so their share numbers get new homes) or still lists them
                                                               "leave": draw(st.booleans())},
            "other_k": draw(st.sampled_from([0, 0, 1, 2, 3])),
            "keyskip": draw(st.integers(0, 7)),      # which fixture key the file gets, hence its storage index and the servers' permuted order
            "interloper": (sib or draw(st.sampled_from([None, None, None, 1]))) and {"down": draw(st.lists(st.integers(0, 11), max_size=3)), "gone": draw(st.lists(st.integers(0, 11), max_size=4)), "template": draw(st.sampled_from([0, 1, 2, 3])), "size": draw(st.integers(1, 3 * seg)),
                                                                           # the interloper gets only part of its shares onto one server that holds several; the writer's write to (one of) them is lost
                                                                           "sib": sib and [draw(st.integers(0, 11)), draw(st.integers(0, 5)), draw(st.integers(0, 5))]}}


class _Done(Exception):
    pass


def run_shard(spec, ctx):
    ctx.drive(cases(), spec["n"], run_case)


def install(g, plan):
    for s in g.servers:
        s.fail.clear(); s.dead_for.clear(); s.fail_after.clear()
        s.disconnect_after = None
        s.down = False
    g.sched.late.clear()
    if not plan:
        return
    for s, (kd, arg) in zip(g.servers, plan):
        if kd == "fail-write":
            s.fail[W] = "all"
        elif kd == "fail-write-nth":
            s.fail[W] = {s.calls.get(W, 0) + arg % 3}
        elif kd == "dead-write":
            s.dead_for[W] = "all"
        elif kd == "dead-write-nth":
            s.dead_for[W] = {s.calls.get(W, 0) + arg % 3}
        elif kd == "applied-unacked":
            s.fail_after[W] = {s.calls.get(W, 0) + arg % 2}
        elif kd == "disconnect":
            s.disconnect_after = s.total_calls + 1 + arg
        elif kd == "late":
            g.sched.late.add(s.idx)
        elif kd == "down":
            s.down = True


def run_case(case, ctx):
    from vf import boot as _boot
    _boot.set_thread_mode(case.get("threads") or "sync")      # defer_to_thread answered in a later reactor turn (as in production) or synchronously
    from allmydata.mutable.common import NotEnoughServersError, UncoordinatedWriteError
    k, n, seg, fmt = case["k"], case["n"], case["seg"], case["fmt"]
    mutfile.set_segsize(seg)
    nserv = len(case["planB"])
    g = Grid(ctx.casedir(), nserv, {"k": k, "n": n, "happy": 1, "max_segment_size": 131072}, choices=case["sched"])
    classes = {fmt}
    g.c0.keygen.i = case.get("keyskip", 0)
    nt = False
    acked, failed_writes = set(), [0]

    def ob(m, phase, res):
        if phase == "delivered" and m.meth == W:
            if res[0] == "ok" and res[1][0]:
                acked.update(m.args[2].keys())
            else:
                failed_writes[0] += 1
    g.sched.observers.append(ob)
    hist = []
    try:
        def publish(label, plan, start):
            nonlocal nt
            install(g, plan)
            acked.clear()
            failed_writes[0] = 0
            r = g.sched.run_until(start(), maxsteps=20000)
            g.sched.settle()
            kinds = [p[0] for p in plan] if plan else ["ok"] * nserv
            desc = "fmt=%s k=%d N=%d seg=%d servers=%r history=%r; %s" % (fmt, k, n, seg, kinds, hist, label)
            capable = [kd for kd in kinds if kd in ("ok", "late", "fail-write-nth", "dead-write-nth", "applied-unacked", "disconnect")]
            if r[0] == "ok":
                classes.add("success")
                if failed_writes[0]:
                    classes.add("success-with-failed-writes")
                    nt = True
                if len(acked) == k:
                    classes.add("acked==k")
                ctx.check(len(acked) >= k, "success-without-k-shares", "%s reported success, but servers acknowledged writes for share numbers %r only (k=%d); %d write calls failed or went unanswered" % (
                    desc, sorted(acked), k, failed_writes[0]), acked=len(acked))
            elif r[0] == "err":
                classes.add("error")
                classes.add("error:" + type(r[1]).__name__)
                if failed_writes[0]:
                    nt = True
            else:
                classes.add("hang")
                ctx.fail("hang", "%s never completed although nothing is pending" % desc)
            if not capable:
                ctx.check(r[0] != "ok", "success-without-servers", "%s succeeded although no server can acknowledge a write" % desc)
            for kd in set(kinds):
                if kd == "applied-unacked":
                    classes.add("fault-applied-but-unacked")
            hist.append((label, r[0] if r[0] != "err" else type(r[1]).__name__, sorted(acked)))
            return r, desc
        contents = pbytes(3, case["size"])
        r, desc = publish("create(%d bytes)" % len(contents), case["planA"], lambda: g.c0.nodemaker.create_mutable_file(mutfile.mdata(contents), version=mutfile.version_const(fmt)))
        if case["planA"]:
            classes.add("create-under-faults")
        if r[0] != "ok":
            return

        def verify(want, desc, alt=()):
            wants = [want] + list(alt)
            install(g, None)
            for s in g.servers:
                s.reconnect()
            rd = g.add_client()
            node2 = rd.nodemaker.create_from_cap(cap)
            # survey EVERY server (MODE_CHECK): a default read stops as soon as it has located k shares of some version and may legitimately return an older
            # version whose shares the failed writes left behind; "recoverable" means the newest version can be retrieved when all its shares are located
            from allmydata.mutable.common import MODE_CHECK
            d = node2.get_servermap(MODE_CHECK)

            def fetch(sm):
                from allmydata.mutable.retrieve import Retrieve
                from allmydata.util.consumer import MemoryConsumer
                ver = sm.best_recoverable_version()
                if ver is None:
                    raise RuntimeError("no recoverable version in a full survey: %s" % sm.summarize_versions())
                c = MemoryConsumer()
                d2 = Retrieve(node2, rd.broker, sm, ver).download(c)
                d2.addCallback(lambda ign: b"".join(c.chunks))
                if hidden[0]:
                    # a version this publish could not see (its holders were unreachable for the writer) may carry the same sequence number: then the
                    # published version must be recoverable, not necessarily the one a full survey ranks first
                    def others(best):
                        if best in wants:
                            return best
                        rest = sorted(v for v in sm.recoverable_versions() if v != ver and v[0] == ver[0])
                        if not rest:
                            return best
                        c2 = MemoryConsumer()
                        d3 = Retrieve(node2, rd.broker, sm, rest[0]).download(c2)
                        d3.addCallback(lambda ign: b"".join(c2.chunks))
                        return d3
                    d2.addCallback(others)
                return d2
            d.addCallback(fetch)
            rr = g.run(d)
            if rr[0] != "ok":
                ctx.fail("unrecoverable-after-success", "%s reported success but a fresh client cannot read the file afterwards: %r" % (desc, rr), exc=type(rr[1]).__name__ if rr[0] == "err" else rr[0])
            elif rr[1] not in wants:
                first = next((i for i in range(min(len(rr[1]), len(want))) if rr[1][i] != want[i]), min(len(rr[1]), len(want)))
                what = "the previous contents" if rr[1] == prev[0] else "neither the new nor the previous contents (first difference at offset %d)" % first
                ctx.fail("stale-after-success", "%s reported success but the best recoverable version found by a full survey holds %d bytes, expected %d: %s" % (desc, len(rr[1]), len(want), what))
        node = r[1]
        cap = node.get_uri()
        prev = [b""]
        hidden = [False]
        verify(contents, desc)
        prev[0] = contents
        new = pbytes(5, case["size2"])
        if case.get("interloper"):
            # "...and no unexpected version was encountered": the writer surveys, another write-cap holder then publishes its own version (some servers
            # unreachable for it), and the writer publishes from its now stale survey.  If it reports success, no write it got applied may have hit a share
            # in a state other than the one its survey was shown.
            from vf.clobber import ClobberMonitor
            from allmydata.mutable.common import MODE_WRITE
            from allmydata.mutable.publish import Publish
            install(g, None)
            # servers that left the grid for good after the file was created: both writers must find new homes for the shares those held
            gone = set(x % nserv for x in case["interloper"].get("gone", []))
            if len(gone) >= nserv:
                gone = set(sorted(gone)[:nserv - 1])
            bdown = [x % nserv for x in case["interloper"]["down"]][:max(0, nserv - 1 - len(gone))]
            after_b_down = set()
            if case["interloper"].get("template"):
                # one share holder leaves for good; the interloper reaches none of the remaining holders, so it re-homes every share onto the spare servers;
                # the writer, who does reach them, then re-homes the departed holder's shares onto the same spare servers
                holders = sorted(set(sidx for (sidx, shn, p_) in g.all_share_paths(node.get_storage_index())))
                spare = [s_.idx for s_ in g.servers if s_.idx not in holders]
                if holders and spare:
                    gone = set(holders[:1 + case["interloper"]["template"] % max(1, len(holders) - 1)]) if len(holders) > 1 else set()
                    rest = [h_ for h_ in holders if h_ not in gone]
                    breach = rest[:k]                      # the interloper needs k shares to have a version to supersede
                    bdown = rest[k:]
                    after_b_down = set(breach)            # ...and those holders are unreachable when the writer publishes
                    if case["interloper"]["template"] >= 2:
                        gone |= set(spare[1:])           # a single spare server: both writers must re-home onto it
                    classes.add("stale-survey-publish-template")
            sibx = None
            if case["interloper"].get("sib"):
                per = {}
                for (sidx, shn, p_) in g.all_share_paths(node.get_storage_index()):
                    per.setdefault(sidx, []).append(shn)
                multi = sorted(s_ for s_, v_ in per.items() if len(v_) >= 2)
                if multi:
                    sibx = g.servers[multi[case["interloper"]["sib"][0] % len(multi)]]
                    gone, bdown, after_b_down = set(), [], set()
                    classes.add("stale-survey-publish-sibling-share")
            for s_ in g.servers:
                s_.down = s_.idx in gone
            if gone:
                classes.add("stale-survey-publish-with-homeless-shares")
            mon = ClobberMonitor(g)
            smr = g.run(node.get_servermap(MODE_WRITE))
            if smr[0] != "ok":
                return
            B = g.add_client()
            nodeB = B.nodemaker.create_from_cap(cap)
            for s_ in g.servers:
                s_.down = s_.idx in gone or s_.idx in bdown
            if sibx is not None:
                for s_ in g.servers:
                    s_.fail[W] = "all"
                sibx.fail[W] = {sibx.calls.get(W, 0) + case["interloper"]["sib"][1] % len(per[sibx.idx])}
            rB = g.run(nodeB.overwrite(mutfile.mdata(pbytes(7, case["interloper"]["size"]))))
            if sibx is not None:
                install(g, None)
                sibx.dead_for[W] = {sibx.calls.get(W, 0) + case["interloper"]["sib"][2] % len(per[sibx.idx])}
            for s_ in g.servers:
                if s_.idx not in gone and s_.idx not in after_b_down:
                    s_.down = False
                    s_.reconnect()
                elif s_.idx in after_b_down:
                    s_.down = True
            nprob, nenc = len(mon.problems), len(mon.encountered)
            g.sched.choices, g.sched.ci = list(case["sched"]), 0
            rA = g.sched.run_until(Publish(node, g.c0.broker, smr[1]).publish(mutfile.mdata(new)), maxsteps=20000)
            g.sched.settle()
            hist.append(("servers %r left for good; interloper overwrite while %r were unreachable for it" % (sorted(gone), sorted(set(bdown))), rB[0] if rB[0] != "err" else type(rB[1]).__name__))
            hist.append(("publish from the survey taken before that", rA[0] if rA[0] != "err" else type(rA[1]).__name__))
            classes.add("stale-survey-publish")
            classes.add("stale-survey-publish:" + (rA[0] if rA[0] != "err" else type(rA[1]).__name__))
            if rA[0] == "ok" and rB[0] == "ok":
                mine = [pr for pr in mon.problems[nprob:] if pr.startswith("client %d " % g.c0.idx)]
                ctx.check(not mine, "success-over-unexpected-version", "fmt=%s k=%d N=%d servers=%d history=%r: the publish reported success although %s" % (fmt, k, n, nserv, hist, "; ".join(mine[:2])), n=len(mine))
                nt = True
            if rA[0] == "ok":
                # "...and no unexpected version was encountered": nothing the servers answered to its writes may have shown it a share in a state it had neither
                # been shown by its survey nor written itself
                enc = [t_ for (c_, t_) in mon.encountered[nenc:] if c_ == g.c0.idx]
                ctx.check(not enc, "success-after-unexpected-version-shown", "fmt=%s k=%d N=%d servers=%d history=%r: the publish reported success although %s" % (fmt, k, n, nserv, hist, "; ".join(enc[:2])), n=len(enc))
                if sibx is not None:
                    nt = True
            raise _Done()
        planB = case["planB"]
        if case.get("mid"):
            si_ = node.get_storage_index()
            holders = sorted(set(sidx for (sidx, shn, p_) in g.all_share_paths(si_)))
            down = set(holders[x % len(holders)] for x in case["mid"]["down"])
            if len(down) < nserv:
                install(g, None)
                for s_ in g.servers:
                    s_.down = s_.idx in down
                    if s_.down and case["mid"].get("leave"):
                        g.c0.forget(s_)
                mid_contents = pbytes(9, case["size"])
                rm = g.run(node.overwrite(mutfile.mdata(mid_contents)))
                for s_ in g.servers:
                    s_.down = False
                    s_.reconnect()
                    if s_.idx in down and case["mid"].get("leave"):
                        g.c0.connect(s_)
                if case["mid"].get("leave"):
                    classes.add("stale-shares-before-publish:share-numbers-rehomed")
                hist.append(("overwrite(%d bytes) while servers %r are away; they return" % (len(mid_contents), sorted(down)), rm[0] if rm[0] != "err" else type(rm[1]).__name__))
                if rm[0] != "ok":
                    raise _Done()
                first_contents = contents
                prev[0] = contents = mid_contents
                hidden[0] = True
                classes.add("stale-shares-before-publish")
                if case["mid"]["failnew"]:
                    # the writes to the servers that took part in that overwrite are the ones that fail now
                    planB = [[("dead-write", "fail-write", "down", "applied-unacked")[arg % 4] if s_.idx not in down else "ok", arg] for s_, (kd, arg) in zip(g.servers, planB)]
                    classes.add("stale-shares-before-publish:new-holders-fail")
        alt = []
        if case["op"] == "overwrite" or len(contents) == 0:
            want = new
            start = lambda: node.overwrite(mutfile.mdata(new))
        else:
            off = len(contents) if case["op"] == "update-append" else min(len(contents) - 1, seg - 1)
            segeff = -(-seg // k) * k
            if fmt == "mdmf" and off == len(contents) and off % segeff == 0:
                off -= 1      # appending exactly at a segment boundary fails today for other reasons (see C09)
            want = contents[:off] + new + contents[off + len(new):]
            if hidden[0]:
                # a writer that cannot reach the holders of the overwrite in between works from the creation version
                alt = [first_contents[:off] + new + first_contents[off + len(new):]]
            classes.add("update")

            unode = node
            if case.get("other_k"):
                # the update is made by another client, configured with other encoding defaults, that has only just opened the file from its cap
                k2 = 1 + (k - 1 + case["other_k"]) % 4
                if k2 != k:
                    oc = g.add_client({"k": k2, "n": max(n, k2), "happy": 1, "max_segment_size": 131072})
                    unode = oc.nodemaker.create_from_cap(cap)
                    classes.add("update-by-client-with-other-defaults")

            def start():
                d = unode.get_best_mutable_version()
                d.addCallback(lambda mv: mv.update(mutfile.mdata(new), off))
                return d
        r, desc = publish("%s(%d bytes)" % (case["op"], len(new)), planB, start)
        if r[0] == "ok":
            verify(want, desc, alt)
    except _Done:
        pass
    finally:
        g.stop()
        mutfile.restore_segsize()
    ctx.note(sig=repr(sorted(case.items())), nontrivial=nt, classes=sorted(classes), sample={"fmt": fmt, "k": k, "n": n, "seg": seg, "planA": case["planA"], "planB": case["planB"], "history": hist})
