"""C48 durations, sizes and dates parse to their documented meaning; malformed values are rejected."""
import re, calendar, datetime, unicodedata
from hypothesis import strategies as st

ID = "C48"
LEVEL = "exploration"
ENGINE = "E0 pure"
TECHNIQUE = "grammar-based generation of documented spellings + malformed strings, differential against table-driven reference parsers; print-then-parse metamorphic check; end-to-end through the [storage] config reader (readonly next to reserved_space, malformed reserved_space)"
RULE = ("families: duration (number x every documented unit x optional space x case), size (number x K..E x optional i x optional B x optional space x case), "
        "date (valid and calendar-invalid YYYY-MM-DD), malformed (empty, negative, decimal, unit only, double unit, junk suffix, extra fields, look-alike "
        "characters), print-then-parse (abbreviate_space -> parse_abbreviated_size), and tahoe.cfg [storage] sections read by client.py. "
        "Non-trivial = spelling with a space, mixed case, a multi-letter suffix, a malformed string, or a calendar-invalid date; distinct by input string."
        ' Print-then-parse: the oracle computes what the printed string denotes; if that is exactly n the string must parse to n, if it is another whole number only that number may come back; sizes whose two-decimal print is exact are generated on purpose.')
LEVEL_TEXT = "Every documented spelling must give the exact reference value; any other string must raise or equal the reference value of its normalised reading."
ASSUMPTIONS = ["a month is 31 days and a year 365 days (the documentation gives no figure; 31 days is the lease period used throughout garbage-collection.rst)",
               "lenient-but-right readings (surrounding whitespace, Unicode digits) are tolerated; a silently different value is a violation"]
REQUIRED_CLASSES = ["duration-documented", "size-documented", "size-with-space", "date-valid", "date-calendar-invalid", "malformed", "print-parse", "cfg", "cfg-readonly", "cfg-malformed-reserved"]
BUDGET = {"quick": 600, "thorough": 3600}

DAY = 86400
DUR_UNITS = {"s": 1, "second": 1, "seconds": 1, "day": DAY, "days": DAY, "mo": 31 * DAY, "month": 31 * DAY, "months": 31 * DAY, "year": 365 * DAY, "years": 365 * DAY}
SIZE_MULT = {"": 1, "K": 1000, "M": 1000 ** 2, "G": 1000 ** 3, "T": 1000 ** 4, "P": 1000 ** 5, "E": 1000 ** 6}
SIZE_MULT_I = {"K": 1024, "M": 1024 ** 2, "G": 1024 ** 3, "T": 1024 ** 4, "P": 1024 ** 5, "E": 1024 ** 6}
FAMS = ["duration", "size", "date", "malformed", "printparse", "cfg"]


def plan(tier):
    n = 750 if tier == "quick" else 4000
    return [{"kind": "hyp", "fam": f, "n": n if f != "cfg" else max(60, n // 4)} for f in FAMS for _ in range(2)] + \
           [{"kind": "hyp", "fam": "malformed", "n": n} for _ in range(4)]


def randcase(draw, s):
    bits = draw(st.integers(0, 2 ** len(s) - 1)) if s else 0
    mode = draw(st.sampled_from(["lower", "upper", "mixed", "lower"]))
    if mode == "lower":
        return s.lower()
    if mode == "upper":
        return s.upper()
    return "".join(c.upper() if (bits >> i) & 1 else c.lower() for i, c in enumerate(s))


num = st.one_of(st.integers(0, 400), st.sampled_from([0, 1, 7, 31, 60, 365, 1000, 10 ** 9, 2 ** 64]), st.integers(0, 10 ** 12))


@st.composite
def durations(draw):
    n = draw(num)
    unit = draw(st.sampled_from(sorted(DUR_UNITS)))
    sp = draw(st.sampled_from(["", " ", "", "  "]))
    lead0 = draw(st.sampled_from(["", "", "0"]))
    return {"fam": "duration", "s": "%s%d%s%s" % (lead0, n, sp, randcase(draw, unit)), "n": n, "unit": unit}


@st.composite
def sizes(draw):
    n = draw(num)
    k = draw(st.sampled_from(["", "K", "M", "G", "T", "P", "E"]))
    i = draw(st.sampled_from(["", "i"])) if k else ""
    b = draw(st.sampled_from(["", "B"]))
    sp = draw(st.sampled_from(["", " ", ""])) if (k or b) else ""
    return {"fam": "size", "s": "%d%s%s" % (n, sp, randcase(draw, k + i + b)), "n": n, "k": k, "i": i, "sp": sp}


@st.composite
def dates(draw):
    y = draw(st.integers(1970, 2200) | st.sampled_from([1970, 2000, 2008, 2009, 2038, 2100]))
    m = draw(st.integers(1, 12))
    d = draw(st.integers(1, 31) | st.sampled_from([28, 29, 30, 31]))
    return {"fam": "date", "s": "%04d-%02d-%02d" % (y, m, d), "y": y, "m": m, "d": d}


@st.composite
def malformed(draw):
    base = draw(st.sampled_from(["7days", "2mo", "12 months", "100MB", "1MiB", "1024 Ki", "2009-01-16", "31", "5s", "100000kb", "1G"]))
    op = draw(st.sampled_from(["neg", "dec", "unitonly", "double", "junk", "empty", "space-in-num", "lookalike", "newline", "plus", "hex", "exp",
                               "date-time", "date-short", "date-sep", "date-month13", "date-day00", "insert", "twice", "underscore", "comma"]))
    ch = draw(st.sampled_from(list("x-+._ ,;:/eE#%ſKıİ٣５") + [" ", "\t", "\n", "\x00"]))
    pos = draw(st.integers(0, 20))
    s = base
    if op == "neg":
        s = "-" + base
    elif op == "dec":
        s = re.sub(r"(\d+)", r"\1.5", base, count=1)
    elif op == "unitonly":
        s = re.sub(r"^[\d\- ]+", "", base)
    elif op == "double":
        s = base + re.sub(r"^[\d\- ]+", "", base)
    elif op == "junk":
        s = base + ch
    elif op == "empty":
        s = draw(st.sampled_from(["", " ", "\n"]))
    elif op == "space-in-num":
        s = re.sub(r"(\d)(\d)", r"\1 \2", base, count=1)
    elif op == "lookalike":
        s = base.replace("s", "ſ").replace("K", "K").replace("i", "ı").replace("1", "１")
    elif op == "newline":
        s = base + "\n"
    elif op == "plus":
        s = "+" + base
    elif op == "hex":
        s = "0x" + base
    elif op == "exp":
        s = re.sub(r"(\d+)", r"\1e3", base, count=1)
    elif op == "date-time":
        s = "2009-01-16" + draw(st.sampled_from([" 10:00:00", "T10:00:00", "_23:59:59", "T00:00:00", " 1"]))
    elif op == "date-short":
        s = draw(st.sampled_from(["2009-1-16", "09-01-16", "2009-01-6", "20090116", "2009-01", "2009"]))
    elif op == "date-sep":
        s = draw(st.sampled_from(["2009/01/16", "2009.01.16", "16-01-2009", "2009-01-16-", "2009--01-16"]))
    elif op == "date-month13":
        s = draw(st.sampled_from(["2009-13-01", "2009-00-10", "2009-99-99"]))
    elif op == "date-day00":
        s = draw(st.sampled_from(["2009-01-00", "2009-01-32", "2009-02-30", "2009-02-31", "2009-04-31", "2100-02-29", "2009-02-29"]))
    elif op == "insert":
        p = pos % (len(base) + 1)
        s = base[:p] + ch + base[p:]
    elif op == "twice":
        s = base + " " + base
    elif op == "underscore":
        s = re.sub(r"(\d)(\d)", r"\1_\2", base, count=1)
    elif op == "comma":
        s = re.sub(r"(\d)(\d)", r"\1,\2", base, count=1)
    return {"fam": "malformed", "s": s, "op": op}


def strat(fam):
    if fam == "duration":
        return durations()
    if fam == "size":
        return sizes()
    if fam == "date":
        return dates()
    if fam == "malformed":
        return malformed()
    if fam == "printparse":
        return st.fixed_dictionaries({"fam": st.just("printparse"), "n": st.one_of(st.integers(0, 1100), st.integers(0, 2 ** 70),
                                                                                   # sizes whose two-decimal print loses nothing
                                                                                   st.builds(lambda a, e, b: a * 10 ** max(0, 3 * e - 2) if not b else (a * 1024 ** e) // 4, st.integers(100, 99999), st.integers(1, 6), st.booleans()),
                                                                                   st.sampled_from(
            [999, 1000, 1023, 1024, 10 ** 6, 2 ** 20, 10 ** 9])), "si": st.booleans()})
    return st.fixed_dictionaries({"fam": st.just("cfg"), "reserved": st.none() | sizes(), "mode": st.sampled_from(["age", "cutoff-date"]),
                                  "dur": st.none() | durations(), "date": dates(), "enabled": st.booleans(),
                                  "imm": st.booleans(), "mut": st.booleans(),
                                  # other documented [storage] keys next to the parsed ones (configuration.rst shows readonly together with reserved_space)
                                  "readonly": st.sampled_from([None, None, True, False]), "bad_reserved": st.sampled_from([None, None, None, "10 megs", "1,5G", "1.46 kiB", "-5", "5 5", "G"])})


def run_shard(spec, ctx):
    ctx.drive(strat(spec["fam"]), spec["n"], run_case)


# ---- reference parsers ---------------------------------------------------------
class Either(int):
    """reference verdict 'reject, or accept with exactly this value'"""


def norm(s):
    return unicodedata.normalize("NFKC", s).strip()


def ref_duration(s):
    m = re.fullmatch(r"(\d+)\s*([A-Za-z]+)", norm(s))
    if not m or m.group(2).lower() not in DUR_UNITS:
        return None
    return int(m.group(1)) * DUR_UNITS[m.group(2).lower()]


def ref_size(s):
    m = re.fullmatch(r"(\d+)(?:\.(\d+))?\s*([KMGTPE]?)(I?)(B?)", norm(s).upper())
    if not m:
        return None
    n, frac, k, i, b = m.groups()
    mult = 1 if (i and not k) else (SIZE_MULT_I[k] if i else SIZE_MULT[k])
    if frac is not None:
        # a decimal fraction ("1.50 kB", what the node itself prints): not a documented spelling either, so rejection is fine; if it is
        # read, then as the whole number of bytes it denotes (and never when it denotes none)
        import fractions
        v = fractions.Fraction(n + "." + frac) * mult
        return Either(int(v)) if v.denominator == 1 else None
    if i and not k:
        # "31i" / "31iB": a binary marker without a prefix.  Not a documented spelling, but the parser's own table gives it
        # multiplier 1 (the only reading it could have), so both rejecting it and reading it as n bytes are accepted.
        return Either(int(n))
    return int(n) * (SIZE_MULT_I[k] if i else SIZE_MULT[k])


def ref_date(s):
    m = re.fullmatch(r"(\d{4})-(\d{2})-(\d{2})", norm(s))
    if not m:
        return None
    try:
        d = datetime.date(int(m.group(1)), int(m.group(2)), int(m.group(3)))
    except ValueError:
        return None
    return calendar.timegm((d.year, d.month, d.day, 0, 0, 0, 0, 1, 0))


def call(f, s):
    try:
        return ("ok", f(s))
    except Exception as e:
        return ("err", e)


def run_case(case, ctx):
    from allmydata.util.time_format import parse_duration, parse_date
    from allmydata.util.abbreviate import parse_abbreviated_size, abbreviate_space
    fam = case["fam"]
    if fam == "duration":
        s = case["s"]
        exp = case["n"] * DUR_UNITS[case["unit"]]
        r = call(parse_duration, s)
        ctx.check(r == ("ok", exp), "duration-wrong", "parse_duration(%r) -> %r, documented meaning %d s" % (s, r, exp), unit=case["unit"])
        nt = " " in s or s != s.lower()
        ctx.note(sig=s, nontrivial=nt, classes=["duration-documented"], sample=case)
    elif fam == "size":
        s = case["s"]
        exp = case["n"] * (SIZE_MULT_I[case["k"]] if case["i"] else SIZE_MULT[case["k"]])
        r = call(parse_abbreviated_size, s)
        ctx.check(r == ("ok", exp), "size-wrong", "parse_abbreviated_size(%r) -> %r, documented meaning %d bytes" % (s, r, exp), space=bool(case["sp"]))
        ctx.note(sig=s, nontrivial=bool(case["sp"]) or bool(case["i"]), classes=["size-documented"] + (["size-with-space"] if case["sp"] else []), sample=case)
    elif fam == "date":
        s = case["s"]
        exp = ref_date(s)
        r = call(parse_date, s)
        if exp is None:
            ctx.check(r[0] == "err", "date-invalid-accepted", "parse_date(%r) -> %r but there is no such calendar day" % (s, r[1]))
            ctx.note(sig=s, nontrivial=True, classes=["date-calendar-invalid"], sample=case)
        else:
            ctx.check(r == ("ok", exp), "date-wrong", "parse_date(%r) -> %r, expected %d (midnight UTC)" % (s, r, exp))
            ctx.note(sig=s, nontrivial=False, classes=["date-valid"], sample=case)
    elif fam == "malformed":
        s = case["s"]
        for name, f, ref in (("parse_duration", parse_duration, ref_duration), ("parse_abbreviated_size", parse_abbreviated_size, ref_size), ("parse_date", parse_date, ref_date)):
            r = call(f, s)
            exp = ref(s)
            if r[0] == "ok":
                if name == "parse_abbreviated_size" and s == "" and r[1] is None:
                    continue  # documented: empty means "not set"
                ctx.check(exp is not None and r[1] == exp, "malformed-accepted",
                          "%s(%r) returned %r; %s" % (name, s, r[1], "the string is not a documented spelling" if exp is None else "its reading is %r" % exp), parser=name)
            else:
                # rejection is always acceptable for a non-documented spelling; a documented one must parse
                documented = exp is not None and not isinstance(exp, Either) and norm(s) == s and s.isascii()
                ctx.check(not documented, "documented-rejected", "%s(%r) raised %r but the spelling is documented (= %r)" % (name, s, r[1], exp), parser=name)
        ctx.note(sig=s, nontrivial=True, classes=["malformed", "malformed:" + case["op"]], sample=case)
    elif fam == "printparse":
        n = case["n"]
        printed = abbreviate_space(n, SI=case["si"])
        r = call(parse_abbreviated_size, printed)
        # what the printed string denotes: exactly n again (the print lost nothing), another whole number of bytes (rounded print), or no whole number
        import fractions
        mo = re.fullmatch(r"(\d+(?:\.\d+)?) ([kMGTPE]?)(i?)B", printed)
        den = fractions.Fraction(mo.group(1)) * ((SIZE_MULT_I if mo.group(3) else SIZE_MULT)[mo.group(2).upper()]) if mo else None
        exact = den is not None and den == n
        if r[0] == "ok":
            ctx.check(den is not None and den.denominator == 1 and r[1] == int(den), "print-parse-different", "abbreviate_space(%d)=%r parses back as %r%s" % (
                n, printed, r[1], "" if den is None else ", it denotes %s bytes" % den))
        else:
            ctx.check(not exact, "print-parse-rejected", "abbreviate_space(%d)=%r denotes exactly that many bytes but parse_abbreviated_size rejects it (%r)" % (n, printed, r[1]), big=n >= 1024)
        ctx.note(sig=(n, case["si"]), nontrivial=True, classes=["print-parse", "print-exact" if exact else "print-lossy"], sample={"n": n, "printed": printed, "parsed": repr(r)})
    else:
        run_cfg(case, ctx)


def run_cfg(case, ctx):
    """Through client.py: a generated [storage] section -> StorageServer attributes."""
    import os
    from allmydata.node import config_from_string
    from allmydata import client
    d = ctx.casedir()
    lines = ["[storage]", "enabled = true"]
    if case.get("readonly") is not None:
        lines.append("readonly = %s" % ("true" if case["readonly"] else "false"))
    if case.get("bad_reserved"):
        lines.append("reserved_space = %s" % case["bad_reserved"])
    elif case["reserved"]:
        lines.append("reserved_space = %s" % case["reserved"]["s"])
    lines.append("expire.enabled = %s" % ("true" if case["enabled"] else "false"))
    lines.append("expire.mode = %s" % case["mode"])
    if case["mode"] == "age" and case["dur"]:
        lines.append("expire.override_lease_duration = %s" % case["dur"]["s"])
    if case["mode"] == "cutoff-date":
        lines.append("expire.cutoff_date = %s" % case["date"]["s"])
    lines.append("expire.immutable = %s" % ("true" if case["imm"] else "false"))
    lines.append("expire.mutable = %s" % ("true" if case["mut"] else "false"))
    cfg = config_from_string(d, "client.port", "\n".join(lines) + "\n", _valid_config=client._valid_config())
    captured = {}

    class FakeSS:
        name = "storage"

        def __init__(self, storedir, nodeid, **kw):
            captured.update(kw)

        def setServiceParent(self, parent):
            pass

    class Shell(client._Client):
        def __init__(self, config):
            self.config = config
            self.nodeid = b"\x00" * 20
            self.stats_provider = None

        def get_long_nodeid(self):
            return b"n" * 32

        def getServiceNamed(self, name):
            raise KeyError(name)

        def get_config(self, *a, **kw):
            return self.config.get_config(*a, **kw)

    orig = client.StorageServer
    client.StorageServer = FakeSS
    try:
        try:
            Shell(cfg).get_anonymous_storage_server()
            ok = True
        except Exception as e:
            ok = False
            err = e
    finally:
        client.StorageServer = orig
    date_ok = ref_date(case["date"]["s"]) is not None
    if case.get("bad_reserved"):
        ctx.check(not ok, "malformed-accepted", "[storage] reserved_space = %s (readonly=%r) was accepted and configured as %r" % (case["bad_reserved"], case.get("readonly"), captured.get("reserved_space")), parser="cfg-reserved_space")
        ctx.note(sig=repr(lines), nontrivial=True, classes=["cfg", "cfg-malformed-reserved"] + (["cfg-readonly"] if case.get("readonly") else []), sample=lines)
        return
    if case["mode"] == "cutoff-date" and not date_ok:
        ctx.check(not ok, "date-invalid-accepted", "[storage] expire.cutoff_date=%s accepted (cutoff=%r)" % (case["date"]["s"], captured.get("expiration_cutoff_date")))
        ctx.note(sig=repr(lines), nontrivial=True, classes=["cfg", "date-calendar-invalid"], sample=lines)
        return
    if not ok:
        ctx.fail("cfg-rejected", "valid [storage] section rejected: %r -> %r" % (lines, err))
        return
    if case["reserved"]:
        r = case["reserved"]
        exp = r["n"] * (SIZE_MULT_I[r["k"]] if r["i"] else SIZE_MULT[r["k"]])
        ctx.check(captured.get("reserved_space") == exp, "size-wrong", "reserved_space = %s (readonly=%r) configured as %r, documented meaning %d" % (r["s"], case.get("readonly"), captured.get("reserved_space"), exp), space=bool(r["sp"]))
    if case.get("readonly") is not None:
        ctx.check(bool(captured.get("readonly_storage")) == case["readonly"], "cfg-wrong", "readonly = %r configured as %r" % (case["readonly"], captured.get("readonly_storage")))
    ctx.check(captured.get("expiration_enabled") == case["enabled"], "cfg-wrong", "expire.enabled")
    ctx.check(captured.get("expiration_mode") == case["mode"], "cfg-wrong", "expire.mode")
    if case["mode"] == "age" and case["dur"]:
        exp = case["dur"]["n"] * DUR_UNITS[case["dur"]["unit"]]
        ctx.check(captured.get("expiration_override_lease_duration") == exp, "duration-wrong", "override_lease_duration = %s configured as %r, documented %d" % (case["dur"]["s"], captured.get("expiration_override_lease_duration"), exp))
    if case["mode"] == "cutoff-date":
        ctx.check(captured.get("expiration_cutoff_date") == ref_date(case["date"]["s"]), "date-wrong", "cutoff_date = %s configured as %r" % (case["date"]["s"], captured.get("expiration_cutoff_date")))
    st_ = tuple(captured.get("expiration_sharetypes", ()))
    ctx.check(set(st_) == ({"immutable"} if case["imm"] else set()) | ({"mutable"} if case["mut"] else set()), "cfg-wrong", "sharetypes %r" % (st_,))
    ctx.note(sig=repr(lines), nontrivial=bool(case["reserved"]) or case["mode"] == "cutoff-date", classes=["cfg"] + (["cfg-readonly"] if case.get("readonly") else []), sample=lines)
