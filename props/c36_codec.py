"""C36 any k distinct blocks decode back to the segment."""
import itertools, random
from hypothesis import strategies as st
from vf.core import pbytes
from vf.util import now_result

ID = "C36"
LEVEL = "exploration"
ENGINE = "E0 pure"
TECHNIQUE = "bounded-exhaustive enumeration of k-subsets (N<=7) + Hypothesis-drawn subsets/orders up to N=256, round-trip oracle through the codec, DownloadNode._decode_blocks and Retrieve._decode_blocks"
RULE = ("exhaustive: for all 1<=k<=N<=Nmax (quick 6, thorough 7) every k-subset of the N blocks, in sorted and in one shuffled order, for a "
        "segment whose size is a multiple of k and for a padded tail segment; random: k<=N<=64 (thorough 256), random subsets, orders and "
        "sizes. Non-trivial = subset containing at least one secondary block (id>=k); distinct by (k,N,size,subset,order).")
LEVEL_TEXT = "Round trip encode -> pick any k blocks -> decode == segment; complete over all subsets for small N, sampled beyond; includes the pad/trim arithmetic the callers use for tail segments, and the same blocks are also pushed, in the same arrival order, through the immutable downloader's DownloadNode._decode_blocks and the mutable downloader's Retrieve._decode_blocks (full and tail segment)."
ASSUMPTIONS = ["tail padding/trim is re-implemented here as callers do it (pad to a multiple of k, trim after decode) and additionally exercised through a bare DownloadNode (sizes from its own _calculate_sizes); whole downloads are covered by C01/C09",
               "zfec from /venv is the erasure-coding primitive"]
EXHAUSTIVE = {"quick": True, "thorough": True}
REQUIRED_CLASSES = ["has-secondary", "padded-tail", "shuffled-order"]
BUDGET = {"quick": 600, "thorough": 3600}


def plan(tier):
    nmax = 6 if tier == "quick" else 7
    shards = [{"kind": "ex", "k": k, "N": N} for N in range(1, nmax + 1) for k in range(1, N + 1)]
    n = 200 if tier == "quick" else 3000
    for i in range(8):
        shards.append({"kind": "hyp", "n": n, "maxN": 64 if tier == "quick" else 256})
    return shards


def run_shard(spec, ctx):
    if spec["kind"] == "ex":
        k, N = spec["k"], spec["N"]

        def gen():
            for size in (k, k * 3, k * 3 + 1, k * 2 - 1 if k > 1 else 5):
                if size <= 0:
                    continue
                for sub in itertools.combinations(range(N), k):
                    yield {"k": k, "N": N, "size": size, "subset": list(sub), "shuffle": 0, "fill": 1}
                    if k > 1:
                        yield {"k": k, "N": N, "size": size, "subset": list(sub), "shuffle": 1 + sub[0], "fill": 2}
        ctx.enumerate(gen(), run_case)
    else:
        ctx.drive(cases(spec["maxN"]), spec["n"], run_case)


@st.composite
def cases(draw, maxN):
    N = draw(st.integers(1, maxN) | st.sampled_from([1, 2, 3, 10, 16, maxN]))
    k = draw(st.integers(1, N) | st.sampled_from([1, N]).filter(lambda x: x <= N))
    size = draw(st.one_of(st.integers(1, 8).map(lambda j: j * k), st.integers(1, 4 * k + 7), st.sampled_from([1, k, k + 1, 2 * k - 1, 1000])))
    subset = draw(st.lists(st.integers(0, N - 1), min_size=k, max_size=k, unique=True))
    return {"k": k, "N": N, "size": max(1, size), "subset": sorted(subset), "shuffle": draw(st.integers(0, 1000)), "fill": draw(st.integers(0, 50))}


class _VC:
    pass


class _DS:
    def add_misc_event(self, *a, **kw):
        pass


def _via_downloader(ctx, case, k, N, size, segment, padded, blocks, order, bs):
    from allmydata import codec
    from allmydata.immutable.downloader.node import DownloadNode
    S = len(padded)
    vc = _VC()
    vc.size, vc.needed_shares, vc.total_shares = S + size, k, N
    n = DownloadNode.__new__(DownloadNode)
    n._verifycap = vc
    n._download_status = _DS()
    n.segment_size = S
    for name, v in n._calculate_sizes(S).items():
        setattr(n, name, v)
    n._codec = codec.CRSDecoder()
    n._codec.set_params(S, k, N)
    ctx.check(n.num_segments == 2 and n.tail_segment_size == size and n.block_size == bs, "downloader-sizes",
              "k=%d N=%d file=%d seg=%d: sizes %r" % (k, N, S + size, S, n._calculate_sizes(S)))
    # segment 0 is `padded` itself (S bytes, a full segment); segment 1 is `segment` padded to S by the encoder
    for segnum, want in ((0, padded), (1, segment)):
        try:
            got, _t = now_result(n._decode_blocks(segnum, dict((i, blocks[i]) for i in order)))
        except Exception as e:
            ctx.fail("downloader-decode-exception", "DownloadNode._decode_blocks raised %r for k=%d N=%d segnum=%d blocks=%r" % (e, k, N, segnum, order))
            continue
        ctx.check(got == want, "downloader-wrong-decode",
                  "k=%d N=%d size=%d segnum=%d blocks=%r: DownloadNode._decode_blocks returned data differing from the segment" % (k, N, size, segnum, order))


class _Status:
    def accumulate_decode_time(self, t):
        pass


def _via_retrieve(ctx, case, k, N, size, segment, padded, blocks, order, bs):
    """The same blocks, in the same arrival order, through the mutable downloader's decode step (Retrieve._decode_blocks, which receives a
    {shnum: (block, salt)} dict in the order the servers answered): a two-segment file [S bytes][size bytes]."""
    from allmydata.mutable.retrieve import Retrieve
    S = len(padded)
    r = Retrieve.__new__(Retrieve)
    r.log = lambda *a, **kw: None
    r._set_current_status = lambda st_: None
    r._status = _Status()
    r.verinfo = (1, b"r" * 32, None, S, S + size, k, N, b"", ())
    r._data_length = S + size
    r._offset, r._read_length = 0, S + size
    try:
        r._setup_encoding_parameters()
    except Exception as e:
        ctx.fail("retrieve-setup-exception", "Retrieve._setup_encoding_parameters raised %r for k=%d N=%d segsize=%d datalength=%d" % (e, k, N, S, S + size))
        return
    salt = b"s" * 16
    for segnum, want in ((0, padded), (1, segment)):
        try:
            got, got_salt = now_result(r._decode_blocks([dict((i, (blocks[i], salt)) for i in order)], segnum))
        except Exception as e:
            ctx.fail("retrieve-decode-exception", "Retrieve._decode_blocks raised %r for k=%d N=%d segnum=%d blocks=%r" % (e, k, N, segnum, order))
            continue
        ctx.check(got == want and got_salt == salt, "retrieve-wrong-decode",
                  "k=%d N=%d size=%d segnum=%d blocks (in arrival order)=%r: Retrieve._decode_blocks returned data differing from the segment" % (k, N, size, segnum, order))


def run_case(case, ctx):
    from allmydata import codec
    from allmydata.util import mathutil
    k, N, size = case["k"], case["N"], case["size"]
    segment = pbytes(case["fill"], size)
    padded_size = mathutil.next_multiple(size, k)
    padded = segment + b"\x00" * (padded_size - size)
    enc = codec.CRSEncoder()
    enc.set_params(padded_size, k, N)
    bs = enc.get_block_size()
    ctx.check(bs * k == padded_size, "block-size", "block size %d * k %d != padded segment %d" % (bs, k, padded_size))
    pieces = [padded[i * bs:(i + 1) * bs] for i in range(k)]
    try:
        blocks, ids = now_result(enc.encode(pieces))
    except Exception as e:
        ctx.fail("encode-exception", "encode raised %r for k=%d N=%d size=%d" % (e, k, N, size))
        return
    ctx.check(len(blocks) == N and list(ids) == list(range(N)), "encode-shape", "encode returned %d blocks ids=%r" % (len(blocks), ids))
    ctx.check(all(len(b) == bs for b in blocks), "encode-shape", "block lengths %r != %d" % ([len(b) for b in blocks], bs))
    order = list(case["subset"])
    if case["shuffle"]:
        random.Random(case["shuffle"]).shuffle(order)
    dec = codec.CRSDecoder()
    dec.set_params(padded_size, k, N)
    try:
        out = now_result(dec.decode([blocks[i] for i in order], order))
    except Exception as e:
        ctx.fail("decode-exception", "decode raised %r for k=%d N=%d blocks=%r" % (e, k, N, order))
        return
    got = b"".join(out)[:size]
    ctx.check(got == segment, "wrong-decode", "k=%d N=%d size=%d blocks=%r: decoded data differs from the segment" % (k, N, size, order))
    # the same blocks through the downloader's own decode step (DownloadNode._decode_blocks), which owns the
    # tail pad/trim arithmetic in production: a two-segment file [S bytes][size bytes] with S = padded_size
    _via_downloader(ctx, case, k, N, size, segment, padded, blocks, order, bs)
    _via_retrieve(ctx, case, k, N, size, segment, padded, blocks, order, bs)
    sec = any(i >= k for i in order)
    cl = [c for c, f in (("has-secondary", sec), ("padded-tail", padded_size != size), ("shuffled-order", order != sorted(order)), ("N>16", N > 16)) if f]
    ctx.note(sig=(k, N, size, tuple(order)), nontrivial=sec, classes=cl, sample=case)
