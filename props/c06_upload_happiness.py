"""C06 a successful immutable upload meets servers-of-happiness; a failed one is an unhappiness error and leaves nothing partial behind."""
import os
from hypothesis import strategies as st
from vf import boot, store, models
from vf.core import pbytes
from vf.grid import Grid

ID = "C06"
LEVEL = "fault_enumeration"
ENGINE = "E2 detgrid"
TECHNIQUE = ("Hypothesis-generated grids (1-12 servers: ok, read-only, full before/after announcing, failing allocate / n-th write / close, disconnecting, late) x pre-existing "
             "shares (incl. one share number on several read-only servers) x (k, happy, N) x delivery schedules on the real Uploader; success oracle = independent maximum matching over (reported shares + shares the "
             "servers told the uploader about) + on-disk completeness of every reported share; failure oracle = error class when the threshold is unreachable + no incomplete share visible to readers")
RULE = ("each case: 1-12 servers each with a drawn behaviour, (k<=4, N<=8, happy<=N), a file of 1-3 segments; optionally an earlier honest upload of the same file whose shares "
        "are kept on a drawn subset of servers (pre-existing shares, also on read-only/full servers); then the upload under test from a fresh client under a drawn schedule. "
        "After the result every pending message (aborts) and disconnect callback is delivered. Success => matching(sharemap U shares reported by servers in answers) >= happy, "
        "each sharemap entry is a complete share in that server's share directory (byte-identical to the reference encoding), not in incoming/. "
        "In every outcome every share visible through get_buckets is complete (no partial share is visible to readers). Failure with fewer than `happy` servers that could possibly "
        "hold a share (upper bound by matching) => the error is UploadUnhappinessError/NoServersError; other error types when the threshold was reachable, and allocations left in "
        "incoming/, are counted in the evidence but not asserted (the statement does not cover them). "
        "Non-trivial = at least one faulty/read-only/full server or pre-existing share; distinct by whole case.")
LEVEL_TEXT = "Fault-plan and schedule search with an independent matching reference and direct inspection of the servers' share directories."
ASSUMPTIONS = ["shares of a convergent upload are deterministic, so a complete share equals the reference encoding byte for byte in its data region",
               "a disconnected server's incoming/ is cleaned by its disconnect callbacks, which the harness fires"]
REQUIRED_CLASSES = ["success", "unhappy", "preexisting", "pre-dups", "fault-fail-write", "fault-readonly", "fault-full-later", "fault-disconnect", "success-with-fault"]
BUDGET = {"quick": 900, "thorough": 7200}
KINDS = ["ok", "ok", "ok", "readonly", "full-announced", "full-later", "fail-allocate", "fail-allocate-once", "fail-write", "fail-close", "disconnect", "late", "down"]


def plan(tier):
    n = 100 if tier == "quick" else 2500
    return [{"kind": "hyp", "n": n} for _ in range(16)]


@st.composite
def cases(draw):
    k = draw(st.integers(1, 4))
    n = draw(st.integers(k, 8))
    happy = draw(st.integers(1, n))
    nserv = draw(st.integers(1, 12))
    servers = [[draw(st.sampled_from(KINDS)), draw(st.integers(0, 12))] for _ in range(nserv)]
    seg = draw(st.sampled_from([k * 8, 64]))
    size = max(56, seg * draw(st.integers(1, 3)) - draw(st.integers(0, seg - 1)))
    pre = draw(st.one_of(st.none(), st.lists(st.tuples(st.integers(0, nserv - 1), st.integers(0, n - 1)).map(list), max_size=n + 2), st.just("prior"), st.just("dups")))
    if pre == "dups" and n >= 2:
        # one share number already held by several servers that cannot take anything else (read-only / full), few writable servers, a threshold
        # near the number of servers: counting the final layout needs augmenting paths through reverse edges
        nro = draw(st.integers(1, 3))
        nw = draw(st.integers(1, 2))
        nserv = nro + nw
        sh = draw(st.integers(0, n - 1))
        # which grid positions (hence which server ids, hence which set/dict iteration order) play which role is drawn too
        posn = draw(st.permutations(list(range(nserv))))
        ro, wr = posn[:nro], posn[nro:]
        servers = [None] * nserv
        for i in ro:
            servers[i] = [draw(st.sampled_from(["readonly", "full-announced"])), 0]
        for i in wr:
            servers[i] = ["ok", 0]
        pre = [[i, sh] for i in ro] + ([[wr[0], sh]] if draw(st.booleans()) else [])
        happy = draw(st.integers(min(n, max(1, nserv - 1)), min(n, nserv + 1)))
    elif pre == "dups":
        pre = None
    if pre == "prior":
        # the layout an earlier upload to the first j servers leaves behind (several shares per server); the upload under test then sees a bigger grid and
        # usually a higher threshold, so it must spread duplicates of existing shares onto new servers
        j = draw(st.integers(1, nserv))
        pre = [[i % j, i] for i in range(n)]
        happy = draw(st.integers(min(n, j), n))
        if draw(st.booleans()):
            servers = [[draw(st.sampled_from(["ok", "ok", "ok", "fail-write", "fail-close", "disconnect"])), draw(st.integers(0, 6))] if i >= j else ["ok", 0] for i in range(nserv)]
    return {"hsalt": draw(st.integers(0, 15)), "k": k, "n": n, "happy": happy, "servers": servers, "seg": seg, "size": size, "pre": pre,
            "sched": draw(st.lists(st.integers(0, 12), max_size=draw(st.sampled_from([0, 30, 200]))))}


def run_shard(spec, ctx):
    ctx.drive(cases(), spec["n"], run_case)


def reference_shares(ctx, case, data):
    """share number -> share data (as BucketReader.read returns it) from an honest upload on a separate grid."""
    from allmydata.immutable.upload import Data
    from allmydata import uri
    k, n = case["k"], case["n"]
    g = Grid(os.path.join(ctx.casedir(), "ref"), n, {"k": k, "n": n, "happy": 1, "max_segment_size": case["seg"]})
    try:
        r = g.run(g.c0.upload(Data(data, convergence=b"c")))
        assert r[0] == "ok", r
        si = uri.from_string(r[1].get_uri()).get_storage_index()
        out = {}
        for s in g.servers:
            for shnum, br in s.ss.get_buckets(si).items():
                out[shnum] = br.read(0, 10 ** 9)
        raw = {shnum: open(p, "rb").read() for (_, shnum, p) in g.all_share_paths(si)}
        return si, out, raw, r[1].get_uri()
    finally:
        g.stop()


def run_case(case, ctx):
    from allmydata.immutable.upload import Data
    from allmydata.interfaces import UploadUnhappinessError, NoServersError
    from allmydata.storage.common import storage_index_to_dir
    k, n, happy = case["k"], case["n"], case["happy"]
    data = pbytes(1, case["size"])
    si, ref, refraw, refcap = reference_shares(ctx, case, data)
    base = os.path.join(ctx._casedir, "g")         # (the directory reference_shares() just created for this case)
    kinds = [s[0] for s in case["servers"]]
    skw = {i: ({"readonly_storage": True} if kd == "readonly" else {}) for i, kd in enumerate(kinds)}
    g = Grid(base, len(kinds), {"k": k, "n": n, "happy": happy, "max_segment_size": case["seg"]}, server_kw=skw, nclients=0)
    classes = set()
    try:
        # ---- pre-existing shares
        pre = set()
        for sidx, shnum in (case["pre"] or []):
            d = os.path.join(g.servers[sidx].ss.sharedir, storage_index_to_dir(si))
            os.makedirs(d, exist_ok=True)
            with open(os.path.join(d, "%d" % shnum), "wb") as f:
                f.write(refraw[shnum])
            pre.add((sidx, shnum))
        # ---- behaviours that must be in place before the client connects
        for s, (kd, arg) in zip(g.servers, case["servers"]):
            if kd == "full-announced":
                s.ss.get_available_space = lambda: 0
        c = g.add_client({"k": k, "n": n, "happy": happy, "max_segment_size": case["seg"]})
        for s, (kd, arg) in zip(g.servers, case["servers"]):
            if kd == "full-later":
                s.ss.get_available_space = lambda: 0
            elif kd == "fail-allocate":
                s.fail["allocate_buckets"] = "all"
            elif kd == "fail-allocate-once":
                s.fail["allocate_buckets"] = {0}
            elif kd == "fail-write":
                s.fail["write"] = set(range(arg, 10 ** 5))
            elif kd == "fail-close":
                s.fail["close"] = "all"
            elif kd == "disconnect":
                s.disconnect_after = 1 + arg
            elif kd == "late":
                g.sched.late.add(s.idx)
            elif kd == "down":
                s.down = True
        # what the servers tell the uploader
        told = set()

        def ob(m, phase, res):
            if phase != "delivered" or res[0] != "ok":
                return
            if m.meth == "get_buckets":
                told.update((m.server.idx, sh) for sh in res[1])
            elif m.meth == "allocate_buckets":
                told.update((m.server.idx, sh) for sh in res[1][0])
        g.sched.observers.append(ob)
        g.sched.choices, g.sched.ci = list(case["sched"]), 0
        r = g.sched.run_until(c.upload(Data(data, convergence=b"c")), maxsteps=20000)
        # deliver everything that is still in flight (aborts), fire disconnect callbacks of dropped servers
        g.sched.settle(maxsteps=20000)
        desc = "k=%d happy=%d N=%d size=%d seg=%d servers=%r pre-existing=%r schedule=%r" % (k, happy, n, case["size"], case["seg"], kinds, sorted(pre), case["sched"][:20])
        by_id = {s.server_id: s for s in g.servers}

        def visible(s):
            try:
                return {sh: br.read(0, 10 ** 9) for sh, br in s.ss.get_buckets(si).items()}
            except Exception as e:
                return {"error": repr(e)}
        if r[0] == "ok":
            classes.add("success")
            if any(kd not in ("ok",) for kd in kinds):
                classes.add("success-with-fault")
            res = r[1]
            ctx.check(res.get_uri() == refcap, "cap-differs", "%s: cap %r differs from the reference upload's %r" % (desc, res.get_uri(), refcap))
            edges = set()
            for shnum, servers in res.get_sharemap().items():
                for srv in servers:
                    s = by_id[srv.get_serverid()]
                    edges.add((s.idx, shnum))
                    vis = visible(s)
                    if vis.get(shnum) != ref[shnum]:
                        state = "absent" if shnum not in vis else "%d bytes, differs from the reference share (%d bytes)" % (len(vis[shnum]), len(ref[shnum]))
                        ctx.fail("reported-share-not-readable", "%s: upload succeeded and reports share %d on server %d (%s), but that share is %s" % (desc, shnum, s.idx, kinds[s.idx], state),
                                 kind=kinds[s.idx])
            found = set(e for e in told if e not in edges)
            for (sidx, shnum) in found:
                pass
            graph = {}
            for (sidx, shnum) in edges | found:
                graph.setdefault(shnum, set()).add(sidx)
            hval = models.max_matching(graph)
            ctx.check(hval >= happy, "unhappy-success", "%s: upload reported success but shares placed %r + found %r give servers-of-happiness %d < %d" % (desc, sorted(edges), sorted(found), hval, happy))
            # and on disk, at the end: the complete shares actually present must also satisfy the threshold
            graph2 = {}
            for s in g.servers:
                for sh, b in visible(s).items():
                    if sh != "error" and b == ref.get(sh):
                        graph2.setdefault(sh, set()).add(s.idx)
            h2 = models.max_matching(graph2)
            ctx.check(h2 >= happy, "unhappy-on-disk", "%s: upload reported success but the complete shares in the servers' share directories %r give happiness %d < %d" % (desc, {a: sorted(b) for a, b in graph2.items()}, h2, happy))
        elif r[0] == "err":
            e = r[1]
            unhappy = isinstance(e, (UploadUnhappinessError, NoServersError))
            classes.add("unhappy" if unhappy else "other-error:" + type(e).__name__)
            # upper bound on the reachable happiness
            graph = {}
            for i, kd in enumerate(kinds):
                if kd in ("ok", "late", "fail-allocate-once", "disconnect", "fail-write", "fail-close"):
                    for sh in range(n):
                        graph.setdefault(sh, set()).add(i)
                elif kd != "down":
                    for (sidx, sh) in pre:
                        if sidx == i:
                            graph.setdefault(sh, set()).add(i)
            ub = models.max_matching(graph)
            if ub < happy and not unhappy:
                ctx.fail("wrong-error", "%s: at most %d servers can hold a share (< happy=%d) but the upload failed with %s: %s instead of an unhappiness error" % (desc, ub, happy, type(e).__name__, str(e)[:200]), exc=type(e).__name__)
        else:
            ctx.fail("hang", "%s: upload never completed (%s)" % (desc, r[0]))
        # ---- in every outcome: nothing partial is visible, nothing stays allocated
        for s in g.servers:
            vis = visible(s)
            for sh, b in vis.items():
                if sh == "error":
                    ctx.fail("server-error", "%s: server %d get_buckets fails after the upload: %s" % (desc, s.idx, b))
                elif b != ref.get(sh):
                    ctx.fail("partial-share-visible", "%s: outcome %s; server %d (%s) shows share %d with %d bytes that are not the complete share (%d bytes)" % (
                        desc, r[0] if r[0] == "ok" else type(r[1]).__name__, s.idx, kinds[s.idx], sh, len(b), len(ref.get(sh, b""))), skind=kinds[s.idx])
            # allocations that outlive the upload are not visible to readers: measured, not asserted (the statement speaks about visible partial shares)
            if store.incoming_files(s.ss) or s.ss.allocated_size():
                classes.add("leftover-allocation-after-" + ("success" if r[0] == "ok" else "failure"))
    finally:
        g.stop()
    for kd in set(kinds):
        if kd != "ok":
            classes.add("fault-" + kd)
    if pre:
        classes.add("preexisting")
        byshare = {}
        for (sidx, sh) in pre:
            byshare.setdefault(sh, set()).add(sidx)
        if any(len(v) >= 2 and all(kinds[i] in ("readonly", "full-announced") for i in v if i < len(kinds)) or len(v) >= 3 for v in byshare.values()):
            classes.add("pre-dups")
    nt = bool(pre) or any(kd != "ok" for kd in kinds)
    ctx.note(sig=repr(sorted(case.items())), nontrivial=nt, classes=sorted(classes),
             sample={"k": k, "happy": happy, "n": n, "servers": kinds, "pre": sorted(pre), "outcome": r[0] if r[0] != "err" else type(r[1]).__name__})
