"""C22 immutable share storage semantics (model-based, real StorageServer)."""
import os
from hypothesis import strategies as st
from vf import boot, store
from vf.core import pbytes

ID = "C22"
LEVEL = "exploration"
ENGINE = "E1 store"
TECHNIQUE = "model-based testing: Hypothesis operation histories (state-relative operations) on a real StorageServer/FoolscapStorageServer vs. a sparse-byte-map model, checked after every step"
RULE = ("histories of <=40 operations over 3 storage indexes x 4 share numbers x 3 client connections: allocate, write (next chunk / random range / "
        "identical rewrite / conflicting overlap / beyond allocated size), close, abort, clock advance (30-minute upload timeout), disconnect, "
        "get_buckets+read of any range, list. After every step: visible shares == closed uploads, reads == written bytes clipped at the allocated size, "
        "conflicting writes rejected without changing stored bytes, aborted/timed-out/disconnected uploads leave no file and release their reservation. "
        "Non-trivial = history containing a conflicting or out-of-order overlapping write, or an abort/timeout/disconnect of an upload with data; "
        "distinct by op list.")
LEVEL_TEXT = "Random histories against an explicit reference model of the documented immutable-share semantics; every observable is compared after every operation."
ASSUMPTIONS = ["zero-length writes are not generated (RangeMap rejects empty ranges; clients never send them)",
               "bytes of holes in a share closed before it was completely written are not asserted (the statement speaks about written bytes)",
               "collections_extended.RangeMap is provided by the shim in /verif/shims"]
REQUIRED_CLASSES = ["conflict-rejected", "out-of-order", "timeout-abort", "disconnect-abort", "abort", "close-complete", "read-past-end"]
BUDGET = {"quick": 600, "thorough": 3600}


def plan(tier):
    n = 360 if tier == "quick" else 2000
    return [{"kind": "hyp", "n": n} for _ in range(16)]


def ops():
    i = st.integers(0, 60)
    return st.lists(st.one_of(
        st.tuples(st.just("alloc"), st.integers(0, 2), st.integers(1, 15), st.integers(1, 120) | st.sampled_from([1, 2, 64]), st.integers(0, 2)),
        st.tuples(st.just("write"), i, st.sampled_from([0, 0, 0, 1, 1, 2, 3, 3, 4]), st.integers(0, 200), st.integers(0, 40), st.integers(0, 9)),
        st.tuples(st.just("write"), i, st.sampled_from([0, 1, 3]), st.integers(0, 200), st.integers(0, 40), st.integers(0, 9)),
        st.tuples(st.just("close"), i),
        st.tuples(st.just("finish"), i),
        st.tuples(st.just("abort"), i),
        st.tuples(st.just("advance"), st.sampled_from([60, 600, 1200, 1799, 1800, 1801, 4000])),
        st.tuples(st.just("disconnect"), st.integers(0, 2)),
        st.tuples(st.just("read"), st.integers(0, 2), st.integers(0, 3), st.integers(0, 150), st.integers(0, 200)),
        st.tuples(st.just("list"), st.integers(0, 2)),
    ), min_size=1, max_size=40)


def histories():
    first = st.tuples(st.just("alloc"), st.integers(0, 2), st.integers(1, 15), st.integers(2, 120), st.integers(0, 2))
    w = st.tuples(st.just("write"), st.integers(0, 60), st.sampled_from([0, 1, 1, 1, 2, 3, 3]), st.integers(0, 200), st.integers(0, 40), st.integers(0, 9))
    burst = st.lists(w, min_size=2, max_size=8)
    return st.tuples(first, burst, ops()).map(lambda t: [t[0]] + t[1] + t[2])


def run_shard(spec, ctx):
    ctx.drive(histories().map(lambda o: {"ops": [list(x) for x in o]}), spec["n"], run_case)


class Up:
    def __init__(self, si_i, sh, size, bw, conn, now):
        self.si_i, self.sh, self.size, self.bw, self.conn = si_i, sh, size, bw, conn
        self.written = {}
        self.state = "open"
        self.deadline = now + 1800       # earliest moment the 30-minute inactivity timeout may fire (last accepted write)
        self.deadline_max = now + 1800   # latest moment (last write attempt, accepted or not)

    def runs(self):
        out = []
        for x in sorted(self.written):
            if out and out[-1][1] == x:
                out[-1][1] = x + 1
            else:
                out.append([x, x + 1])
        return out


def run_case(case, ctx):
    from allmydata.storage.server import FoolscapStorageServer
    from allmydata.interfaces import ConflictingWriteError
    d = ctx.casedir()
    R = boot.R
    boot.cancel_all_timers()
    ss = store.make_server(os.path.join(d, "srv"))
    fss = FoolscapStorageServer(ss)
    conns = [store.Canary() for _ in range(3)]
    ups = []          # all uploads ever
    final = {}        # (si_i, sh) -> Up (closed)
    classes = set()
    nt = False

    def open_ups():
        return [u for u in ups if u.state == "open"]

    def check_state(what):
        # visibility
        for si_i in range(3):
            try:
                b = fss.remote_get_buckets(store.si(si_i))
            except Exception as e:
                ctx.fail("get_buckets-raised", "%s: %r" % (what, e))
                return
            exp = sorted(sh for (s, sh) in final if s == si_i)
            ctx.check(sorted(b) == exp, "visibility", "%s: get_buckets(si%d) lists %r, completed uploads are %r" % (what, si_i, sorted(b), exp))
        # reservations
        exp_alloc = sum(u.size for u in open_ups())
        ctx.check(ss.allocated_size() == exp_alloc, "reservation", "%s: allocated_size()=%d, in-progress uploads hold %d" % (what, ss.allocated_size(), exp_alloc))
        inc = store.incoming_files(ss)
        ctx.check(len(inc) == len(open_ups()), "incoming-leftover", "%s: %d files under incoming/, %d uploads in progress: %r" % (what, len(inc), len(open_ups()), inc))
        nfiles = len(store.share_files(ss))
        ctx.check(nfiles == len(final), "share-files", "%s: %d share files on disk, %d completed uploads" % (what, nfiles, len(final)))

    def expire(what):
        now = R.seconds()
        for u in open_ups():
            if u.deadline_max <= now:
                u.state = "timed-out"
                classes.add("timeout-abort")
            elif u.deadline <= now:
                # the statement does not say whether a rejected write counts as activity: adopt what the server did
                if u.bw._bucket_writer.closed:
                    u.state = "timed-out"
                    classes.add("timeout-abort")

    for step, op in enumerate(case["ops"]):
        kind = op[0]
        what = "step %d %r" % (step, op)
        if kind == "alloc":
            _, si_i, mask, size, ci = op
            shnums = {s for s in range(4) if (mask >> s) & 1}
            try:
                already, writers = fss.remote_allocate_buckets(store.si(si_i), store.secret(ci, b"r"), store.secret(ci, b"c"), shnums, size, conns[ci])
            except Exception as e:
                ctx.fail("allocate-raised", "%s: %r" % (what, e))
                return
            exp_already = {sh for (s, sh) in final if s == si_i}
            ctx.check(set(already) == exp_already, "alreadygot", "%s: alreadygot=%r expected %r" % (what, sorted(already), sorted(exp_already)))
            busy = {u.sh for u in open_ups() if u.si_i == si_i}
            exp_new = shnums - exp_already - busy
            ctx.check(set(writers) == exp_new, "allocate-grant", "%s: writers for %r, expected %r (complete=%r in-progress=%r)" % (what, sorted(writers), sorted(exp_new), sorted(exp_already), sorted(busy)))
            for sh, w in writers.items():
                ups.append(Up(si_i, sh, size, w, ci, R.seconds()))
        elif kind == "write":
            _, ui, mode, a, b, fill = op
            cand = open_ups()
            if not cand:
                continue
            u = cand[ui % len(cand)]
            runs = u.runs()
            if mode == 0:      # next unwritten chunk in order
                unwritten = [x for x in range(u.size) if x not in u.written]
                if not unwritten:
                    continue
                off = unwritten[0]
                ln = 1
                while ln <= b and off + ln < u.size and (off + ln) not in u.written:
                    ln += 1
            elif mode == 1:    # arbitrary range inside the share
                off = a % u.size
                ln = min(b + 1, u.size - off)
            elif mode == 2:    # rewrite identical bytes over (part of) a written run, maybe extending into unwritten space
                if not runs:
                    continue
                r = runs[a % len(runs)]
                off = r[0] + (b % (r[1] - r[0]))
                ln = min(u.size - off, (r[1] - off) + (fill % 3))
            elif mode == 3:    # conflicting overlap: covers at least one written byte with different content
                if not runs:
                    continue
                r = runs[a % len(runs)]
                off = max(0, r[0] - (b % 7))
                ln = min(u.size - off, (r[0] - off) + 1 + (fill % 5))
            else:              # beyond the allocated size
                off = max(0, u.size - (b % 3))
                ln = (b % 3) + 1 + (fill % 4)
            data = bytearray(pbytes(step * 131 + fill, ln))
            if mode == 2:
                for j in range(ln):
                    if off + j in u.written:
                        data[j] = u.written[off + j]
            conflict = any((off + j) in u.written and u.written[off + j] != data[j] for j in range(ln))
            if mode == 3 and not conflict:
                # force a difference on the first overlapped byte
                for j in range(ln):
                    if off + j in u.written:
                        data[j] = (u.written[off + j] + 1) % 256
                        conflict = True
                        break
            too_big = off + ln > u.size
            if runs and off < runs[-1][1] and not conflict and any((off + j) not in u.written for j in range(ln)):
                classes.add("out-of-order")
            u.deadline_max = R.seconds() + 1800
            try:
                u.bw.remote_write(off, bytes(data))
                ok, err = True, None
            except Exception as e:
                ok, err = False, e
            if conflict:
                ctx.check(not ok, "conflict-accepted", "%s: write [%d,%d) overlapping already written bytes with different content was accepted (written runs %r)" % (what, off, off + ln, runs))
                if not ok:
                    ctx.check(isinstance(err, ConflictingWriteError) or too_big, "conflict-error-type", "%s: conflicting write raised %r" % (what, err))
                    classes.add("conflict-rejected")
                    nt = True
            elif too_big:
                ctx.check(not ok, "oversize-accepted", "%s: write [%d,%d) beyond allocated size %d accepted" % (what, off, off + ln, u.size))
                classes.add("oversize-rejected")
            else:
                ctx.check(ok, "write-rejected", "%s: legal write [%d,%d) rejected with %r (written runs %r)" % (what, off, off + ln, err, runs))
                if ok:
                    for j in range(ln):
                        u.written[off + j] = data[j]
                    u.deadline = R.seconds() + 1800
                    u.deadline_max = u.deadline
        elif kind in ("close", "finish"):
            cand = open_ups()
            if not cand:
                continue
            u = cand[op[1] % len(cand)]
            if kind == "finish":
                # write everything that is missing, in runs, then close
                x = 0
                while x < u.size:
                    if x in u.written:
                        x += 1
                        continue
                    y = x
                    while y < u.size and y not in u.written:
                        y += 1
                    data = pbytes(step * 977 + x, y - x)
                    try:
                        u.bw.remote_write(x, data)
                    except Exception as e:
                        ctx.fail("write-rejected", "%s: completing write [%d,%d) rejected: %r" % (what, x, y, e))
                        return
                    for j in range(y - x):
                        u.written[x + j] = data[j]
                    x = y
            try:
                u.bw.remote_close()
            except Exception as e:
                ctx.fail("close-raised", "%s: %r" % (what, e))
                return
            u.state = "closed"
            final[(u.si_i, u.sh)] = u
            classes.add("close-complete" if len(u.written) == u.size else "close-incomplete")
        elif kind == "abort":
            cand = open_ups()
            if not cand:
                continue
            u = cand[op[1] % len(cand)]
            try:
                u.bw.remote_abort()
            except Exception as e:
                ctx.fail("abort-raised", "%s: %r" % (what, e))
                return
            u.state = "aborted"
            classes.add("abort")
            if u.written:
                nt = True
        elif kind == "advance":
            try:
                R.advance(op[1])
            except Exception as e:
                ctx.fail("timeout-raised", "%s: %r" % (what, e))
                return
            had = any(u.written for u in open_ups() if u.deadline <= R.seconds())
            expire(what)
            nt = nt or had
        elif kind == "disconnect":
            ci = op[1]
            victims = [u for u in open_ups() if u.conn == ci]
            try:
                conns[ci].disconnect()
            except Exception as e:
                ctx.fail("disconnect-raised", "%s: %r" % (what, e))
                return
            for u in victims:
                u.state = "disconnected"
                classes.add("disconnect-abort")
                if u.written:
                    nt = True
        elif kind == "read":
            _, si_i, sh, off, ln = op
            u = final.get((si_i, sh))
            b = fss.remote_get_buckets(store.si(si_i))
            if u is None:
                ctx.check(sh not in b, "visibility", "%s: share si%d/%d readable but never completed" % (what, si_i, sh))
                continue
            if sh not in b:
                ctx.fail("visibility", "%s: completed share si%d/%d not listed" % (what, si_i, sh))
                continue
            got = b[sh].remote_read(off, ln)
            exp_len = max(0, min(ln, u.size - off))
            ctx.check(len(got) == exp_len, "read-length", "%s: read(%d,%d) of a %d-byte share returned %d bytes, expected %d" % (what, off, ln, u.size, len(got), exp_len))
            bad = [off + j for j in range(min(len(got), exp_len)) if (off + j) in u.written and got[j] != u.written[off + j]]
            ctx.check(not bad, "read-bytes", "%s: read(%d,%d) differs from the written bytes at offsets %r" % (what, off, ln, bad[:8]))
            if off + ln > u.size:
                classes.add("read-past-end")
        elif kind == "list":
            pass
        check_state(what)
    # final sweep: every completed share reads back in full
    for (si_i, sh), u in sorted(final.items()):
        got = fss.remote_get_buckets(store.si(si_i))[sh].remote_read(0, u.size + 10)
        ctx.check(len(got) == u.size, "read-length", "final: si%d/%d length %d != allocated %d" % (si_i, sh, len(got), u.size))
        bad = [x for x in u.written if x < len(got) and got[x] != u.written[x]]
        ctx.check(not bad, "read-bytes", "final: si%d/%d stored bytes differ from what was written at %r" % (si_i, sh, sorted(bad)[:8]))
    boot.cancel_all_timers()
    ctx.note(sig=repr(case["ops"]), nontrivial=nt or "out-of-order" in classes, classes=sorted(classes), sample={"ops": case["ops"][:20], "n_ops": len(case["ops"])})
