"""C09 mutable files read back what one writer wrote: operation histories against a bytearray model."""
from hypothesis import strategies as st
from vf import boot, mutfile
from vf.core import pbytes
from vf.grid import Grid, Consumer

ID = "C09"
LEVEL = "exploration"
ENGINE = "E2 detgrid"
TECHNIQUE = ("model-based testing: Hypothesis-generated operation histories (create, overwrite, modify, in-place update/append with state-relative offsets around segment "
             "boundaries and power-of-two segment counts, ranged reads, re-open from the cap in a fresh client) on real SDMF/MDMF nodes over the in-process grid with "
             "generator-drawn delivery order; defer_to_thread answered synchronously or in a later turn; bytearray reference model compared after every step")
RULE = ("each case: format in {SDMF, MDMF}, k<=3, N<=5, the mutable segment size set to a small drawn value (so files span 1-9+ segments), initial contents of a drawn size, "
        "then up to 8 operations: overwrite(len), update(offset,len) with offset in [0,size] drawn relative to segment boundaries/EOF/power-of-two segment counts, "
        "modify(append|prepend|replace|identity), read(offset,len), reopen (new client, node from the cap string); after every operation the whole file, its size and a "
        "ranged read are compared with the model. An operation that errbacks is not applied to the model (the statement speaks about successful operations) but the file "
        "must still read back as the model. Non-trivial = a successful update that crosses a segment boundary, ends on one, or changes the number of segments; "
        "distinct by whole case.")
LEVEL_TEXT = "Random histories against a byte-string reference model, compared after every step, with boundary-directed generation."
ASSUMPTIONS = ["one writer; servers are honest, except that a 'flaky-writes' step makes chosen servers fail or not acknowledge their next write calls during the following operation (that operation may then fail; if it reports success the model applies)", "each update uses a freshly obtained best version (as the web API and SFTP front ends do)",
               "update with offset > size is not generated (the code asserts offset <= size)", "ranged reads lie inside the file (Retrieve.download asserts it; the web front end clips ranges before calling)"]
REQUIRED_CLASSES = ["update-of-empty-file", "update-append-at-segment-boundary", "threads-async", "verified-by-second-client", "update-ok-under-flaky-writes", "mdmf", "sdmf", "update-cross-boundary", "update-ends-on-boundary", "update-grows-segments", "update-append", "modify", "reopen", "multi-segment", "overwrite-shrink"]
BUDGET = {"quick": 900, "thorough": 7200}
# classes of operations that fail today without damaging the file (outside the statement: it speaks about successful operations); counted in the evidence
TOLERATED_FAILURES = "update at EOF of an MDMF file whose size is a multiple of the segment size; update of an empty file"


def plan(tier):
    n = 90 if tier == "quick" else 1500
    return [{"kind": "hyp", "n": n} for _ in range(16)]


pos = st.one_of(st.tuples(st.just("seg"), st.integers(0, 9), st.integers(-1, 1)), st.tuples(st.just("eof"), st.integers(-3, 0)),
                st.tuples(st.just("pow2"), st.integers(0, 3), st.integers(-1, 1)), st.tuples(st.just("abs"), st.integers(0, 400))).map(list)
length = st.one_of(st.tuples(st.just("seg"), st.integers(0, 4), st.integers(-1, 1)), st.tuples(st.just("abs"), st.integers(1, 40)),
                   st.tuples(st.just("toseg"), st.integers(0, 9), st.integers(-1, 1)), st.tuples(st.just("toseg"), st.integers(1, 5), st.just(0)), st.tuples(st.just("toeof"), st.integers(-2, 2))).map(list)


@st.composite
def cases(draw):
    k = draw(st.integers(1, 3))
    n = draw(st.integers(k, 5))
    seg = draw(st.sampled_from([6, 8, 9, 16, 33, 64]))
    ops = draw(st.lists(st.one_of(
        st.tuples(st.just("update"), pos, length, st.integers(0, 9)),
        st.tuples(st.just("update"), pos, length, st.integers(0, 9)),
        st.tuples(st.just("flaky"), st.lists(st.tuples(st.integers(0, 5), st.sampled_from(["nth", "all", "dead-nth", "unacked"]), st.integers(0, 2)).map(list), min_size=1, max_size=5)),
        st.tuples(st.just("overwrite"), length, st.integers(0, 9)),
        st.tuples(st.just("modify"), st.sampled_from(["append", "prepend", "replace", "identity"]), pos, length, st.integers(0, 9)),
        st.tuples(st.just("read"), pos, length),
        st.tuples(st.just("reopen")),
    ).map(list), min_size=1, max_size=8))
    return {"hsalt": draw(st.integers(0, 15)), "observer": draw(st.booleans()), "fmt": draw(st.sampled_from(["sdmf", "mdmf", "mdmf"])), "k": k, "n": n, "seg": seg, "size0": draw(length), "ops": ops,
            "sched": draw(st.lists(st.integers(0, 9), max_size=draw(st.sampled_from([0, 40, 300])))), "threads": draw(st.sampled_from(["sync", "async", "async", "held"]))}


def run_shard(spec, ctx):
    ctx.drive(cases(), spec["n"], run_case)


def rlen(spec, off, size, seg):
    if spec[0] == "seg":
        v = spec[1] * seg + spec[2]
    elif spec[0] == "toseg":
        v = spec[1] * seg + spec[2] - off
    elif spec[0] == "toeof":
        v = size - off + spec[1]
    else:
        v = spec[1]
    return max(0, min(v, 12 * seg))


def run_case(case, ctx):
    k, n, seg, fmt = case["k"], case["n"], case["seg"], case["fmt"]
    mutfile.set_segsize(seg)
    g = Grid(ctx.casedir(), n + 1, {"k": k, "n": n, "happy": 1, "max_segment_size": 131072}, choices=case["sched"])
    classes = {fmt, "threads-" + case.get("threads", "sync")}
    nt = False
    failed_core = []
    # CPU-bound steps (hashing, en/decryption, zfec) handed to defer_to_thread: synchronous (the repository's test switch) or, as in
    # production, answered in a later reactor turn so that other work interleaves
    boot.set_thread_mode(case.get("threads") or "sync")
    try:
        model = bytearray(pbytes(77, rlen(case["size0"], 0, 0, seg)))
        r = mutfile.create(g, g.c0, fmt, model)
        if r[0] != "ok":
            ctx.fail("create-failed", "create %s k=%d N=%d seg=%d size=%d failed: %r" % (fmt, k, n, seg, len(model), r))
            return
        node = r[1]
        cap = node.get_uri()
        client = g.c0
        hist = [("create", fmt, len(model))]

        def desc():
            return "fmt=%s k=%d N=%d segsize=%d history=%r" % (fmt, k, n, seg, hist)

        flaky = ever_flaky = False
        observer = []
        bricked = False
        maybe = None     # contents the file may ALSO hold: an operation that failed under flaky writes may or may not have been applied

        def verify(after):
            nonlocal maybe, bricked
            if ever_flaky:
                # stale shares of the previous version may remain where writes failed: survey every server (see vf/mutfile.read_full_survey)
                r = mutfile.read_full_survey(g, client, node)
                if r[0] != "ok" and maybe is not None:
                    # an operation that FAILED under injected write failures may leave fewer than k shares of any one version (no atomicity across servers)
                    classes.add("unrecoverable-after-failed-op")
                    bricked = True
                    return
            elif case.get("observer"):
                # read through ANOTHER client's node object, so that the writer's node is not refreshed by the verification read
                if not observer:
                    oc = g.add_client()
                    observer.append(oc.nodemaker.create_from_cap(cap))
                    classes.add("verified-by-second-client")
                r = g.run(observer[0].download_best_version())
            else:
                r = g.run(node.download_best_version())
            if r[0] != "ok":
                ctx.fail("read-failed", "%s: download_best_version after %s failed: %r" % (desc(), after, r))
                return
            got = r[1]
            if maybe is not None and got == maybe and got != bytes(model):
                model[:] = maybe
                classes.add("failed-op-was-applied")
            maybe = None
            if got != bytes(model):
                first = next((i for i in range(min(len(got), len(model))) if got[i] != model[i]), min(len(got), len(model)))
                ctx.fail("wrong-contents", "%s: after %s the file reads %d bytes, expected %d; first difference at offset %d (segment %d)" % (desc(), after, len(got), len(model), first, first // seg), after=after)
            r = g.run(node.get_size_of_best_version()) if not (ever_flaky or case.get("observer")) else ("ok", len(model))
            ctx.check(r == ("ok", len(model)), "wrong-size", "%s: get_size_of_best_version after %s = %r, expected %d" % (desc(), after, r, len(model)))
        verify("create")
        for op in case["ops"]:
            if op[0] != "flaky" and hist and hist[-1][0] != "flaky-writes":
                if flaky:
                    for srv in g.servers:
                        srv.fail.clear(); srv.dead_for.clear(); srv.fail_after.clear()
                flaky = False
            size = len(model)
            nseg_before = -(-size // seg)
            if len(model) > seg:
                classes.add("multi-segment")
            if op[0] == "update":
                off = mutfile.resolve(op[1], size, seg)
                ln = rlen(op[2], off, size, seg)
                if ln == 0:
                    continue
                new = pbytes(op[3], ln)
                hist.append(("update", off, ln))
                rv = g.run(node.get_best_mutable_version())
                if rv[0] != "ok":
                    ctx.fail("read-failed", "%s: get_best_mutable_version failed: %r" % (desc(), rv))
                    return
                r = g.run(rv[1].update(mutfile.mdata(new), off))
                segeff = -(-seg // k) * k   # MDMF rounds the segment size up to a multiple of k
                core = True     # (until fix D43 the update of an empty file and an MDMF append exactly at a segment boundary raised; they are ordinary inputs)
                if size == 0:
                    classes.add("update-of-empty-file")
                elif fmt == "mdmf" and off == size and size % segeff == 0:
                    classes.add("update-append-at-segment-boundary")
                if r[0] == "ok":
                    model[off:off + ln] = new
                    end = off + ln
                    if off // seg != (end - 1) // seg:
                        classes.add("update-cross-boundary")
                        nt = True
                    if end % seg == 0 and end < size:
                        classes.add("update-ends-on-boundary")
                        nt = True
                    if flaky:
                        classes.add("update-ok-under-flaky-writes")
                    if -(-len(model) // seg) != nseg_before:
                        classes.add("update-grows-segments")
                        nt = True
                    if off == size:
                        classes.add("update-append")
                else:
                    hist[-1] = hist[-1] + ("FAILED:" + (type(r[1]).__name__ if r[0] == "err" else r[0]),)
                    if flaky:
                        maybe = bytes(model[:off]) + new + bytes(model[off + ln:])
                    classes.add("op-failed:update:" + (type(r[1]).__name__ if r[0] == "err" else r[0]))
                    if r[0] == "hang":
                        ctx.fail("hang", "%s: update never completed" % desc())
                    if core and not ever_flaky:
                        failed_core.append(hist[-1])
                        ctx.fail("update-failed", "%s: in-place update(offset=%d, %d bytes) of a %d-byte %s file failed on an honest grid: %r" % (desc(), off, ln, size, fmt, r[1]), exc=type(r[1]).__name__)
            elif op[0] == "overwrite":
                ln = rlen(op[1], 0, size, seg)
                new = pbytes(op[2], ln)
                hist.append(("overwrite", ln))
                r = g.run(node.overwrite(mutfile.mdata(new)))
                if r[0] == "ok":
                    if ln < size:
                        classes.add("overwrite-shrink")
                    model[:] = new
                elif not ever_flaky:
                    ctx.fail("overwrite-failed", "%s: overwrite failed on an honest grid: %r" % (desc(), r), exc=type(r[1]).__name__ if r[0] == "err" else r[0])
                else:
                    classes.add("op-failed-under-flaky-writes")
                    maybe = new
            elif op[0] == "modify":
                kind = op[1]
                off = mutfile.resolve(op[2], size, seg)
                ln = rlen(op[3], off, size, seg)
                new = pbytes(op[4], ln)
                hist.append(("modify", kind, off, ln))

                def modifier(old, servermap, first_time, kind=kind, off=off, new=new):
                    if kind == "append":
                        return old + new
                    if kind == "prepend":
                        return new + old
                    if kind == "replace":
                        return old[:off] + new + old[off + len(new):]
                    return None
                r = g.run(node.modify(modifier))
                if r[0] == "ok":
                    classes.add("modify")
                    old = bytes(model)
                    res = modifier(old, None, True)
                    if res is not None:
                        model[:] = res
                elif not ever_flaky:
                    ctx.fail("modify-failed", "%s: modify failed on an honest grid: %r" % (desc(), r), exc=type(r[1]).__name__ if r[0] == "err" else r[0])
                else:
                    classes.add("op-failed-under-flaky-writes")
                    maybe = modifier(bytes(model), None, True)
            elif op[0] == "read" and ever_flaky:
                continue
            elif op[0] == "read":
                off = mutfile.resolve(op[1], size, seg)
                ln = min(rlen(op[2], off, size, seg), size - off)   # Retrieve.download's precondition: the range lies inside the file (callers clip)
                if ln <= 0:
                    continue
                hist.append(("read", off, ln))
                rv = g.run(node.get_best_readable_version())
                if rv[0] != "ok":
                    ctx.fail("read-failed", "%s: get_best_readable_version failed: %r" % (desc(), rv))
                    return
                c = Consumer()
                r = g.run(rv[1].read(c, off, ln))
                want = bytes(model[off:off + ln])
                if r[0] != "ok":
                    if ln > 0 and off < size:
                        ctx.fail("read-failed", "%s: ranged read failed: %r" % (desc(), r), exc=type(r[1]).__name__ if r[0] == "err" else r[0])
                    else:
                        classes.add("empty-read-failed")
                else:
                    ctx.check(c.data() == want, "wrong-range", "%s: read(offset=%d,size=%d) returned %d bytes differing from the model slice" % (desc(), off, ln, len(c.data())))
                continue
            elif op[0] == "flaky":
                # environment fault for the NEXT operation only: some servers fail (or apply but do not acknowledge) their next write calls
                W = "slot_testv_and_readv_and_writev"
                for (sidx, how, nth) in op[1]:
                    srv = g.servers[sidx % len(g.servers)]
                    at = srv.calls.get(W, 0) + nth
                    if how == "nth":
                        srv.fail[W] = {at}
                    elif how == "all":
                        srv.fail[W] = set(range(at, at + 4))
                    elif how == "dead-nth":
                        srv.dead_for[W] = {at}
                    else:
                        srv.fail_after[W] = {at}
                hist.append(("flaky-writes", op[1]))
                flaky = ever_flaky = True
                continue
            elif op[0] == "reopen":
                hist.append(("reopen",))
                client = g.add_client()
                node = client.nodemaker.create_from_cap(cap)
                classes.add("reopen")
            verify(hist[-1][0])
            if bricked:
                break
    finally:
        g.stop()
        mutfile.restore_segsize()
        boot.set_thread_mode(False)
    ctx.note(sig=repr(sorted(case.items())), nontrivial=nt, classes=sorted(classes), sample={"fmt": fmt, "k": k, "n": n, "seg": seg, "history": hist})
