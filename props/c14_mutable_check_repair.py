"""C14 mutable check and repair preserve the newest content."""
import os, struct
from hypothesis import strategies as st
from vf import boot, mutfile, mut_share, refhash
from vf.core import pbytes
from vf.grid import Grid

ID = "C14"
LEVEL = "fault_enumeration"
ENGINE = "E2 detgrid"
TECHNIQUE = ("Hypothesis-generated share layouts built from four genuinely published states of one file (current, older, a competing version with the same sequence number, "
             "a newer version), with per-share-number states {current, older, competitor, newer, block-corrupted, missing} and duplicate placements of one share number on a "
             "second server; check with/without verify and repair with/without force; oracle = version/share-number model computed from the share files, byte-for-byte "
             "snapshots for 'repair refused => nothing changed', full-survey read after a successful repair")
RULE = ("each case: SDMF/MDMF, k<=3, N<=5 on N..N+2 servers; every share number gets a drawn state and optionally a duplicate on another server; then check(verify in {F,T}) "
        "and repair(force in {F,T}) by a fresh write-cap client. Oracle: healthy <=> exactly one version is present, with N distinct share numbers (and, with verify, no "
        "corrupt share); recoverable <=> some version has >=k distinct share numbers; repair without force raises MustForceRepairError when a newer unrecoverable version "
        "or a recoverable same-seqnum competitor exists and then leaves every share file byte-identical; a successful repair leaves the best version's contents unchanged "
        "as the best recoverable version of a full survey, with N distinct share numbers of one version. Non-trivial = at least two versions present or any share missing/"
        "corrupt/duplicated; distinct by whole case."
        ' Added shapes: every copy of one share number damaged (twin), several damaged shares among current ones (pair), damaged duplicates.')
LEVEL_TEXT = "Layout search over genuinely published versions with a file-derived reference model."
ASSUMPTIONS = ["block corruption is only detectable with verify=True; without verify a block-corrupted share counts as a share of its version",
               "an unrecoverable competitor with the same sequence number as the best version is accepted either way (the statement speaks about picking between competing versions)"]
REQUIRED_CLASSES = ["duplicate-share-corrupt", "share-with-damaged-write-enabler", "check_and_repair", "healthy", "unhealthy", "must-force-newer", "must-force-competitor", "repair-ok", "repair-refused", "duplicate-share", "verify", "unrecoverable", "forced-repair"]
BUDGET = {"quick": 900, "thorough": 7200}
STATES = ["cur", "cur", "cur", "old", "comp", "newer", "corrupt", "missing", "bad-enabler"]


def plan(tier):
    n = 50 if tier == "quick" else 2000
    return [{"kind": "hyp", "n": n} for _ in range(16)]


@st.composite
def cases(draw):
    k = draw(st.integers(1, 3))
    n = draw(st.integers(k, 5))
    servers = n + draw(st.sampled_from([0, 1, 2, 2, 2, 9, 13]))       # (on the large grids a stray share can sit far beyond the first empty servers)
    style = draw(st.sampled_from(["mixed", "mixed", "mostly-cur", "all-cur"]))
    pool = {"mixed": STATES, "mostly-cur": ["cur"] * 6 + STATES, "all-cur": ["cur"]}[style]
    states = [draw(st.sampled_from(pool)) for _ in range(n)]
    dups = draw(st.lists(st.tuples(st.integers(0, n - 1), st.integers(0, servers - 1), st.sampled_from(["cur", "cur", "old", "comp", "newer", "corrupt"])).map(list), max_size=2))
    verify = draw(st.booleans())
    shape = draw(st.sampled_from([None] * 6 + ["twin", "pair"]))
    if shape == "twin" and servers > 1:
        # every copy of one share number is damaged: the verifier must not count any of them
        i = draw(st.integers(0, n - 1))
        states[i] = "corrupt"
        dups = [[i, draw(st.integers(0, servers - 1)), "corrupt"]] + dups[:1]
        verify = True
    elif shape == "pair" and n > 1:
        # several damaged shares among otherwise current ones
        for i in draw(st.lists(st.integers(0, n - 1), min_size=2, max_size=3)):
            states[i] = "corrupt"
        verify = True
    return {"hsalt": draw(st.integers(0, 15)), "threads": draw(st.sampled_from(["sync", "async", "held"])), "fmt": draw(st.sampled_from(["sdmf", "mdmf"])), "k": k, "n": n, "servers": servers, "states": states, "dups": dups,
            "verify": verify, "force": draw(st.booleans()), "via": draw(st.sampled_from(["check+repair", "check+repair", "check_and_repair"])), "sched": draw(st.lists(st.integers(0, 9), max_size=30))}


class _Done(Exception):
    pass


def run_shard(spec, ctx):
    ctx.drive(cases(), spec["n"], run_case)


def verkey(raw):
    sh = raw[mut_share.DATA:]
    return (struct.unpack(">Q", sh[1:9])[0], sh[9:41])


def run_case(case, ctx):
    from vf import boot as _boot
    _boot.set_thread_mode(case.get("threads") or "sync")      # defer_to_thread answered in a later reactor turn (as in production) or synchronously
    from allmydata.monitor import Monitor
    from allmydata.mutable.repairer import MustForceRepairError
    from allmydata import uri
    from allmydata.storage.common import storage_index_to_dir
    k, n, fmt = case["k"], case["n"], case["fmt"]
    mutfile.set_segsize(16)
    g = Grid(ctx.casedir(), case["servers"], {"k": k, "n": n, "happy": 1, "max_segment_size": 131072})
    classes = {fmt}
    try:
        A, B, C, D = b"contents-A-" + pbytes(1, 30), b"contents-B-" + pbytes(2, 41), b"contents-C-" + pbytes(3, 17), b"contents-D-" + pbytes(4, 50)
        r = mutfile.create(g, g.c0, fmt, A)
        if r[0] != "ok":
            ctx.fail("create-failed", "create failed %r" % (r,))
            return
        node = r[1]
        cap, si = node.get_uri(), node.get_storage_index()
        writekey = uri.from_string(cap).writekey

        def snap():
            return {(s, sh): open(p, "rb").read() for (s, sh, p) in g.all_share_paths(si)}

        def restore(sn):
            for (s, sh, p) in g.all_share_paths(si):
                os.unlink(p)
            for (s, sh), raw in sn.items():
                d = os.path.join(g.servers[s].ss.sharedir, storage_index_to_dir(si))
                os.makedirs(d, exist_ok=True)
                open(os.path.join(d, "%d" % sh), "wb").write(raw)
        S1 = snap()
        assert g.run(node.overwrite(mutfile.mdata(B)))[0] == "ok"
        S2 = snap()
        restore(S1)
        n2 = g.add_client().nodemaker.create_from_cap(cap)
        assert g.run(n2.overwrite(mutfile.mdata(C)))[0] == "ok"
        S2c = snap()
        restore(S2)
        n3 = g.add_client().nodemaker.create_from_cap(cap)
        assert g.run(n3.overwrite(mutfile.mdata(D)))[0] == "ok"
        S3 = snap()
        by_state = {"cur": S2, "old": S1, "comp": S2c, "newer": S3, "corrupt": S2, "bad-enabler": S2}
        text = {verkey(next(iter(S1.values()))): A, verkey(next(iter(S2.values()))): B, verkey(next(iter(S2c.values()))): C, verkey(next(iter(S3.values()))): D}
        if len(text) < 4 or verkey(next(iter(S2.values())))[0] != verkey(next(iter(S2c.values())))[0]:
            return    # the competitor did not get the same sequence number (should not happen)

        def verkey_of(contents):
            return next(v for v, t in text.items() if t == contents)

        def share_from(sn, sh, target_server):
            (srv, _), raw = next(((kk, v) for kk, v in sorted(sn.items()) if kk[1] == sh))
            if srv != target_server:
                t = g.servers[target_server]
                raw = raw[:32] + t.nodeid + refhash.write_enabler(writekey, t.nodeid) + raw[84:]
            return raw
        home = {sh: srv for (srv, sh) in S2}
        layout = {}

        def damaged(raw):
            tmp = os.path.join(g.basedir, "tmpshare")
            open(tmp, "wb").write(raw)
            a, b = mut_share.parse(tmp)["fields"]["share_data"]
            mut_share.flip(tmp, a + (16 if fmt == "mdmf" and b - a > 16 else 0), 0x10)
            raw = open(tmp, "rb").read()
            os.unlink(tmp)
            return raw
        corrupt = set()
        for sh, stt in enumerate(case["states"]):
            if stt == "missing":
                continue
            raw = share_from(by_state[stt], sh, home[sh])
            if stt == "bad-enabler":
                # a current share whose container header carries a damaged write enabler: it reads fine, but the server will refuse to overwrite it
                raw = raw[:60] + bytes([raw[60] ^ 0x04]) + raw[61:]
                classes.add("share-with-damaged-write-enabler")
            if stt == "corrupt":
                raw = damaged(raw)
                corrupt.add((home[sh], sh))
            layout[(home[sh], sh)] = raw
        for (sh, srv, stt) in case["dups"]:
            if (srv, sh) not in layout and case["states"][sh] != "missing":
                layout[(srv, sh)] = share_from(by_state[stt], sh, srv)
                if stt == "corrupt":
                    layout[(srv, sh)] = damaged(layout[(srv, sh)])
                    corrupt.add((srv, sh))
                    classes.add("duplicate-share-corrupt")
                classes.add("duplicate-share")
        restore(layout)
        # ---- model
        versions = {}
        for (srv, sh), raw in layout.items():
            versions.setdefault(verkey(raw), set()).add(sh)
        good_versions = {}
        for (srv, sh), raw in layout.items():
            if (srv, sh) not in corrupt:
                good_versions.setdefault(verkey(raw), set()).add(sh)
        verify, force = case["verify"], case["force"]
        seen = good_versions if verify else versions
        healthy_exp = len(seen) == 1 and len(next(iter(seen.values()))) == n
        # with verify, a corrupt extra copy next to N good distinct shares: the statement (one version, N distinct shares, no other version) calls it healthy,
        # a stricter checker may not -- either verdict is accepted for exactly that situation
        amb_health = bool(verify and corrupt and healthy_exp)
        rec_versions = sorted(v for v, shs in seen.items() if len(shs) >= k)
        recoverable_exp = bool(rec_versions)
        amb_rec = bool([v for v, shs in versions.items() if len(shs) >= k]) != bool([v for v, shs in good_versions.items() if len(shs) >= k])
        desc = "fmt=%s k=%d N=%d servers=%d states=%r dups=%r verify=%r force=%r; versions on disk %r" % (
            fmt, k, n, case["servers"], case["states"], case["dups"], verify, force, {"seq%d-%s" % (v[0], v[1][:2].hex()): sorted(s) for v, s in sorted(versions.items())})
        before = snap()
        cl = g.add_client()
        nd = cl.nodemaker.create_from_cap(cap)
        g.sched.choices, g.sched.ci = list(case["sched"]), 0
        rc = g.run(nd.check(Monitor(), verify=verify))
        if rc[0] != "ok":
            ctx.fail("check-failed", "%s: check failed: %r" % (desc, rc))
            return
        cr = rc[1]
        if verify:
            classes.add("verify")
        classes.add("healthy" if healthy_exp else "unhealthy")
        if amb_health:
            classes.add("healthy-with-corrupt-extra-copy")
        ctx.check(amb_health or cr.is_healthy() == healthy_exp, "wrong-health", "%s: check reports healthy=%r, expected %r (good shares counted %r, corrupt %r)" % (
            desc, cr.is_healthy(), healthy_exp, cr.get_share_counter_good(), sorted(corrupt)), reported=cr.is_healthy())
        if not amb_rec:
            ctx.check(cr.is_recoverable() == recoverable_exp, "wrong-recoverability", "%s: check reports recoverable=%r, expected %r" % (desc, cr.is_recoverable(), recoverable_exp))
        if not recoverable_exp:
            classes.add("unrecoverable")
        ctx.check(snap() == before, "check-modified-shares", "%s: check changed share files" % desc)
        if case.get("via") == "check_and_repair":
            # the combined operation judges the file in its own survey before deciding whether to repair: the same verdict is required of it
            classes.add("check_and_repair")
            rc2 = g.run(g.add_client().nodemaker.create_from_cap(cap).check_and_repair(Monitor(), verify=verify))
            g.sched.settle()
            if rc2[0] == "ok":
                pre = rc2[1].get_pre_repair_results()
                ctx.check(amb_health or pre.is_healthy() == healthy_exp, "wrong-health", "%s: check_and_repair's pre-repair verdict is healthy=%r, expected %r (repair attempted: %r)" % (
                    desc, pre.is_healthy(), healthy_exp, rc2[1].get_repair_attempted()), reported=pre.is_healthy(), via="check_and_repair")
            else:
                classes.add("check_and_repair-error:" + (type(rc2[1]).__name__ if rc2[0] == "err" else rc2[0]))
            raise _Done()
        # ---- repair
        allrec = sorted(v for v, shs in versions.items() if len(shs) >= k)
        if not allrec:
            return_early = True
        else:
            best = allrec[-1]
            newer_unrec = [v for v, shs in versions.items() if v[0] > best[0]]
            rec_comp = [v for v in allrec if v[0] == best[0] and v != best]
            unrec_comp = [v for v, shs in versions.items() if v[0] == best[0] and v != best and v not in allrec]
            rr = g.run(nd.repair(cr, force=force))
            g.sched.settle()
            must = bool(newer_unrec or rec_comp)
            if newer_unrec:
                classes.add("must-force-newer")
            if rec_comp:
                classes.add("must-force-competitor")
            if must and not force:
                if rr[0] == "err" and isinstance(rr[1], MustForceRepairError):
                    classes.add("repair-refused")
                    ctx.check(snap() == before, "refused-repair-modified-shares", "%s: repair refused (MustForceRepairError) but share files changed" % desc)
                else:
                    ctx.fail("repair-not-refused", "%s: repair without force should refuse (newer unrecoverable %r, recoverable competitor %r) but ended with %s %r" % (
                        desc, [v[0] for v in newer_unrec], [v[0] for v in rec_comp], rr[0], rr[1] if rr[0] == "err" else rr[1].get_successful()),
                        newer=bool(newer_unrec), competitor=bool(rec_comp))
            elif rr[0] == "ok" and rr[1].get_successful():
                classes.add("repair-ok")
                if force and must:
                    classes.add("forced-repair")
                fresh = g.add_client()
                fn = fresh.nodemaker.create_from_cap(cap)
                got = mutfile.read_full_survey(g, fresh, fn)
                want = text[best]
                if unrec_comp and not must:
                    classes.add("unrecoverable-competitor")
                ctx.check(got == ("ok", want), "repair-changed-contents", "%s: after a successful repair the best recoverable version reads %r, the best version before was %r" % (
                    desc, got[1][:30] if got[0] == "ok" else got, want[:30]))
                after = {}
                for (srv, sh), raw in snap().items():
                    after.setdefault(verkey(raw), set()).add(sh)
                top = max(after)
                ctx.check(len(after[top]) == n, "repair-left-fewer-than-N", "%s: after a successful repair the newest version seq%d has share numbers %r, not all %d" % (desc, top[0], sorted(after[top]), n), have=len(after[top]))
            elif rr[0] == "err":
                classes.add("repair-error:" + type(rr[1]).__name__)
                if isinstance(rr[1], MustForceRepairError):
                    classes.add("must-force-raised-with-force=%r-model-must=%r" % (force, must))
                # a repair that fails is outside the statement (it speaks about refused and successful repairs); it must not have destroyed the best version though
                fresh = g.add_client()
                got = mutfile.read_full_survey(g, fresh, fresh.nodemaker.create_from_cap(cap))
                if "bad-enabler" in case["states"]:
                    # a publish is not atomic across servers: when one server refuses its write (here: damaged write enabler) after others have
                    # accepted theirs, fewer than k shares of either version may remain.  The statement does not cover failed repairs; only counted.
                    classes.add("repair-failed-with-unwritable-share" + ("" if got[0] == "ok" else ":file-now-unrecoverable"))
                elif not corrupt:
                    ctx.check(got[0] == "ok" and got[1] in text.values() and (verkey_of(got[1]) >= best), "failed-repair-lost-data", "%s: repair failed (%s) and afterwards a full survey reads %r" % (
                        desc, type(rr[1]).__name__, got[1][:30] if got[0] == "ok" else got))
            elif rr[0] == "hang":
                ctx.fail("hang", "%s: repair never completed" % desc)
            else:
                classes.add("repair-unsuccessful")
    except _Done:
        pass
    finally:
        g.stop()
        mutfile.restore_segsize()
    nt = len(versions) > 1 or bool(corrupt) or "missing" in case["states"] or "duplicate-share" in classes
    ctx.note(sig=repr(sorted(case.items())), nontrivial=nt, classes=sorted(classes), sample={kk: case[kk] for kk in ("fmt", "k", "n", "servers", "states", "dups", "verify", "force")})
