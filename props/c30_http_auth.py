"""C30 HTTP storage API authorization."""
import os, base64
from hypothesis import strategies as st
from vf import boot, store, httpmem
from vf.core import pbytes

ID = "C30"
LEVEL = "exploration"
ENGINE = "E1 store"
TECHNIQUE = ("Hypothesis-generated raw HTTP requests to every route of the real HTTPServer resource tree (in-memory transport): Authorization header variants (missing, wrong "
             "swissnum, prefix/suffix of the right one, wrong scheme, undecodable, duplicated) x X-Tahoe-Authorization variants (missing, extra, duplicated, malformed base64, "
             "empty, wrong length, wrong value, correct) x bodies, interleaved with a legitimate client's uploads and mutable writes (the mutable share optionally deleted and re-created under another write enabler beforehand); oracle = status class + byte-for-byte "
             "snapshot of the server's directory and in-progress uploads + scan of the response for share bytes")
RULE = ("each case: a server holding a complete immutable share, an in-progress upload owned by another client (its own upload secret) and a mutable slot (write enabler W); then "
        "1-6 generated requests. Oracle: Authorization not carrying the exact swissnum => status 401/400, the response contains none of the stored share bytes, and the "
        "server's files, allocations and in-progress uploads are unchanged; exact swissnum but missing/extra/malformed/empty/wrong-length secrets => 4xx and unchanged; "
        "PATCH/abort on the foreign in-progress upload with another upload secret => 4xx and unchanged; mutable read-test-write with a wrong write enabler on an existing "
        "slot (also when it only names share numbers the slot does not hold yet) => 401 and unchanged. Non-trivial = a state-changing route with exactly one credential wrong; "
        "distinct by whole case.")
LEVEL_TEXT = "Random search over the credential space of every route with a snapshot oracle."
ASSUMPTIONS = ["TLS and the NURL handshake are outside the harness", "duplicated Authorization headers that include the correct value are not asserted either way"]
REQUIRED_CLASSES = ["secret-base64-with-junk", "mutable-share-recreated-under-new-enabler", "foreign-upload-after-reallocation", "wrong-swissnum", "missing-authorization", "swissnum-prefix", "secrets-missing", "secrets-malformed", "wrong-upload-secret", "wrong-write-enabler", "wrong-enabler-new-share-only",
                    "legit-ok", "route-read", "route-write"]
BUDGET = {"quick": 900, "thorough": 7200}
SW = b"swissnum-" + b"x" * 23
ROUTES = ["version", "allocate", "abort", "patch", "list-imm", "read-imm", "lease", "corrupt-imm", "rtw", "read-mut", "list-mut", "corrupt-mut"]
AUTH = ["ok", "ok", "missing", "wrong", "prefix", "suffix-extra", "wrong-scheme", "garbage", "nonascii", "dup-wrong-first", "dup-right-first", "lowercase-scheme"]
SECR = ["ok", "ok", "ok", "missing-one", "missing-all", "extra", "dup", "bad-b64", "empty", "short-lease", "wrong-value", "wrong-enabler-newshare"]


def plan(tier):
    n = 80 if tier == "quick" else 3000
    return [{"kind": "hyp", "n": n} for _ in range(16)]


@st.composite
def cases(draw):
    reqs = draw(st.lists(st.fixed_dictionaries({"route": st.sampled_from(ROUTES), "auth": st.sampled_from(AUTH), "secrets": st.sampled_from(SECR), "which": st.integers(0, 2),
                                                 "target": st.sampled_from(["complete", "inprogress", "mutable", "fresh", "fresh"]), "arg": st.integers(0, 50),
                                                 "actor": st.sampled_from(["A", "B"]), "share": st.integers(0, 1)}), min_size=1, max_size=8))
    # make the single-wrong-credential combinations on state-changing routes common
    # two clients with different upload secrets allocating, aborting and writing shares of one storage index ("fresh"): ownership of an in-progress share follows the
    # allocation that created it
    if draw(st.integers(0, 2)) == 0:
        pre = []
        for _ in range(draw(st.integers(2, 6))):
            pre.append({"route": draw(st.sampled_from(["allocate", "allocate", "abort", "patch", "patch"])), "auth": "ok", "secrets": "ok", "which": 0, "target": "fresh", "arg": 0,
                        "actor": draw(st.sampled_from(["A", "B"])), "share": draw(st.integers(0, 1))})
        if draw(st.booleans()):
            # one client gives up a share while its other share is still in progress; another client takes the share over; the first one comes back
            x, y = draw(st.sampled_from([("A", "B"), ("B", "A")]))
            shn = draw(st.integers(0, 1))
            mk = lambda route, actor: {"route": route, "auth": "ok", "secrets": "ok", "which": 0, "target": "fresh", "arg": 0, "actor": actor, "share": shn}
            pre = [mk("allocate", x), mk("abort", x), mk("allocate", y), mk(draw(st.sampled_from(["patch", "abort"])), x), mk("patch", y)] + pre[:2]
        reqs = pre + reqs
    combos = [("rtw", "ok", "wrong-value", "mutable"), ("rtw", "ok", "wrong-enabler-newshare", "mutable"), ("patch", "ok", "ok", "inprogress"), ("abort", "ok", "ok", "inprogress"),
              ("allocate", "wrong", "ok", "fresh"), ("rtw", "prefix", "ok", "mutable"), ("lease", "missing", "ok", "complete"), ("read-imm", "wrong", "ok", "complete"),
              ("read-mut", "missing", "ok", "mutable"), ("rtw", "ok", "ok", "mutable"), ("allocate", "ok", "ok", "fresh")]
    for rq in reqs:
        if draw(st.integers(0, 2)) == 0:
            rq["route"], rq["auth"], rq["secrets"], rq["target"] = draw(st.sampled_from(combos))
    return {"reqs": reqs, "slot_history": draw(st.sampled_from(["fresh", "fresh", "recreated"]))}


def run_shard(spec, ctx):
    ctx.drive(cases(), spec["n"], run_case)


def b64(x):
    return base64.b64encode(x).decode("ascii")


def run_case(case, ctx):
    import cbor2
    from twisted.web.http_headers import Headers
    d = ctx.casedir()
    H = httpmem.HTTPStack(os.path.join(d, "srv"), swissnum=SW)
    ss = H.ss
    SI = {"complete": store.si(1), "inprogress": store.si(2), "mutable": store.si(3), "fresh": store.si(4)}
    RENEW, CANCEL = store.secret(1, b"r"), store.secret(1, b"c")
    U_OWNER = b"owner-upload-secret-0000"
    U_ATTACKER = b"attacker-upload-secret-1"
    WE, WE_BAD = store.secret(7, b"we"), store.secret(8, b"we")
    secret_marker = [pbytes(11, 80), pbytes(12, 40), pbytes(13, 60)]
    from allmydata.storage.http_client import StorageClientImmutables, StorageClientMutables, TestWriteVectors, WriteVector
    imm = StorageClientImmutables(H.client)
    # complete share
    r = H.result(imm.create(SI["complete"], {0}, 80, b"legit-upload-secret-000", RENEW, CANCEL))
    assert r[0] == "ok", r
    assert H.result(imm.write_share_chunk(SI["complete"], 0, b"legit-upload-secret-000", 0, secret_marker[0]))[0] == "ok"
    # another client's in-progress upload (half written)
    assert H.result(imm.create(SI["inprogress"], {0}, 40, U_OWNER, RENEW, CANCEL))[0] == "ok"
    assert H.result(imm.write_share_chunk(SI["inprogress"], 0, U_OWNER, 0, secret_marker[1][:20]))[0] == "ok"
    mut = StorageClientMutables(H.client)
    if case.get("slot_history") == "recreated":
        # the slot's share existed before under another write enabler (the one the attacker will present), was written, deleted (new length 0) and re-created
        assert H.result(mut.read_test_write_chunks(SI["mutable"], WE_BAD, RENEW, CANCEL, {0: TestWriteVectors(write_vectors=[WriteVector(offset=0, data=b"previous incarnation")])}, []))[0] == "ok"
        assert H.result(mut.read_test_write_chunks(SI["mutable"], WE_BAD, RENEW, CANCEL, {0: TestWriteVectors(write_vectors=[WriteVector(offset=3, data=b"xyz")])}, []))[0] == "ok"
        assert H.result(mut.read_test_write_chunks(SI["mutable"], WE_BAD, RENEW, CANCEL, {0: TestWriteVectors(new_length=0)}, []))[0] == "ok"
    assert H.result(mut.read_test_write_chunks(SI["mutable"], WE, RENEW, CANCEL, {0: TestWriteVectors(write_vectors=[WriteVector(offset=0, data=secret_marker[2])])}, []))[0] == "ok"

    def snapshot():
        ups = H.http_server._uploads
        return (store.snapshot(ss.storedir if hasattr(ss, "storedir") else os.path.join(d, "srv")), ss.allocated_size(),
                sorted((k, sorted(v.shares)) for k, v in ups._uploads.items()))
    classes = set()
    if case.get("slot_history") == "recreated":
        classes.add("mutable-share-recreated-under-new-enabler")
    nt = False
    hist = []
    owner, ever_owned, realloc, alloc_hist = {}, {}, {}, []
    for rq in case["reqs"]:
        route, auth, sec, tgt = rq["route"], rq["auth"], rq["secrets"], rq["target"]
        si_b32 = __import__("allmydata.storage.common", fromlist=["x"]).si_b2a(SI[tgt]).decode("ascii")
        method, path, needed, body, hdrs = "GET", "/storage/v1/version", [], None, {}
        sharenum = 0 if sec != "wrong-enabler-newshare" else 1
        fsh = rq.get("share", 0) if tgt == "fresh" else 0
        if route == "allocate":
            method, path, needed = "POST", "/storage/v1/immutable/%s" % si_b32, ["lease-renew-secret", "lease-cancel-secret", "upload-secret"]
            body = cbor2.dumps({"share-numbers": {0, 1}, "allocated-size": 30})
            hdrs["Content-Type"] = ["application/cbor"]
        elif route == "abort":
            method, path, needed = "PUT", "/storage/v1/immutable/%s/%d/abort" % (si_b32, fsh), ["upload-secret"]
        elif route == "patch":
            method, path, needed = "PATCH", "/storage/v1/immutable/%s/%d" % (si_b32, fsh), ["upload-secret"]
            body = b"Z" * 10
            hdrs["Content-Range"] = ["bytes %d-%d/*" % (20, 29) if tgt != "fresh" else "bytes 0-9/*"]
        elif route == "list-imm":
            path = "/storage/v1/immutable/%s/shares" % si_b32
        elif route == "read-imm":
            path = "/storage/v1/immutable/%s/0" % si_b32
            if rq["arg"] % 2:
                hdrs["Range"] = ["bytes=0-%d" % (rq["arg"] + 5)]
        elif route == "lease":
            method, path, needed = "PUT", "/storage/v1/lease/%s" % si_b32, ["lease-renew-secret", "lease-cancel-secret"]
        elif route == "corrupt-imm":
            method, path = "POST", "/storage/v1/immutable/%s/0/corrupt" % si_b32
            body = cbor2.dumps({"reason": "because"})
            hdrs["Content-Type"] = ["application/cbor"]
        elif route == "rtw":
            method, path, needed = "POST", "/storage/v1/mutable/%s/read-test-write" % si_b32, ["lease-renew-secret", "lease-cancel-secret", "write-enabler"]
            body = cbor2.dumps({"test-write-vectors": {sharenum: {"test": [], "write": [{"offset": 0, "data": b"INTRUDER"}], "new-length": None}}, "read-vector": [{"offset": 0, "size": 100}]})
            hdrs["Content-Type"] = ["application/cbor"]
        elif route == "read-mut":
            path = "/storage/v1/mutable/%s/0" % si_b32
        elif route == "list-mut":
            path = "/storage/v1/mutable/%s/shares" % si_b32
        elif route == "corrupt-mut":
            method, path = "POST", "/storage/v1/mutable/%s/0/corrupt" % si_b32
            body = cbor2.dumps({"reason": "because"})
            hdrs["Content-Type"] = ["application/cbor"]
        state_changing = route in ("allocate", "abort", "patch", "lease", "rtw", "corrupt-imm", "corrupt-mut")
        classes.add("route-write" if state_changing else "route-read")
        # ---- Authorization
        good = "Tahoe-LAFS " + b64(SW)
        authorized = auth in ("ok", "dup-right-first")
        unknown_auth = auth in ("dup-wrong-first",)
        if auth == "ok":
            hdrs["Authorization"] = [good]
        elif auth == "wrong":
            hdrs["Authorization"] = ["Tahoe-LAFS " + b64(b"swissnum-" + b"y" * 23)]
            classes.add("wrong-swissnum")
        elif auth == "prefix":
            hdrs["Authorization"] = ["Tahoe-LAFS " + b64(SW[:-3 - rq["which"]])]
            classes.add("swissnum-prefix")
        elif auth == "suffix-extra":
            hdrs["Authorization"] = [good + "A"]
        elif auth == "wrong-scheme":
            hdrs["Authorization"] = ["Basic " + b64(SW)]
        elif auth == "lowercase-scheme":
            hdrs["Authorization"] = ["tahoe-lafs " + b64(SW)]
        elif auth == "garbage":
            hdrs["Authorization"] = ["!!!not base64!!!"]
        elif auth == "nonascii":
            hdrs["Authorization"] = ["Tahoe-LAFS \xff\xfe"]
        elif auth == "dup-wrong-first":
            hdrs["Authorization"] = ["Tahoe-LAFS " + b64(b"nope"), good]
        elif auth == "dup-right-first":
            hdrs["Authorization"] = [good, "Tahoe-LAFS " + b64(b"nope")]
        else:
            classes.add("missing-authorization")
        # ---- secrets
        actor = rq.get("actor", "A")
        actor_secret = {"A": b"client-A-upload-secret-0", "B": b"client-B-upload-secret-1"}[actor]
        values = {"lease-renew-secret": RENEW, "lease-cancel-secret": CANCEL, "upload-secret": U_ATTACKER if tgt == "inprogress" else actor_secret, "write-enabler": WE}
        secrets_ok = True
        wrong_value = False
        xs = []
        for nme in needed:
            xs.append("%s %s" % (nme, b64(values[nme])))
        if needed or sec in ("extra",):
            if sec == "missing-one" and needed:
                xs.pop(rq["which"] % len(xs)); secrets_ok = False
            elif sec == "missing-all":
                xs = []; secrets_ok = not needed
            elif sec == "extra":
                xs.append("write-enabler %s" % b64(WE) if "write-enabler" not in needed else "upload-secret %s" % b64(b"x" * 20)); secrets_ok = False
            elif sec == "dup" and needed:
                # one kind of secret given twice: the same value again, or a wrong value before / after the right one.  More secrets than the
                # endpoint asks for: refused, whatever their values
                i = rq["which"] % len(xs)
                k_, v_ = xs[i].split(" ", 1)
                how = rq["arg"] % 3
                if how == 0:
                    xs.append(xs[i])
                elif how == 1:
                    xs.insert(i, k_ + " " + b64(b"\x07" * 32))
                else:
                    xs.append(k_ + " " + b64(b"\x07" * 32))
                classes.add("secret-kind-twice:" + ("same", "wrong-first", "wrong-last")[how])
                secrets_ok = False
            elif sec == "bad-b64" and needed:
                i = rq["which"] % len(xs)
                if rq["arg"] % 2:
                    xs[i] = xs[i].split(" ")[0] + " ***"
                else:
                    # the right secret's base64 text with characters from outside the base64 alphabet mixed in: not a base64 string any more
                    k_, v_ = xs[i].split(" ", 1)
                    xs[i] = k_ + " !*" + "(~)".join(v_[j:j + 3] for j in range(0, len(v_), 3))
                    classes.add("secret-base64-with-junk")
                secrets_ok = False
            elif sec == "empty" and needed:
                i = rq["which"] % len(xs)
                xs[i] = xs[i].split(" ")[0] + " "; secrets_ok = False
            elif sec == "short-lease" and any(n2.startswith("lease") for n2 in needed):
                i = next(j for j, n2 in enumerate(needed) if n2.startswith("lease"))
                xs[i] = needed[i] + " " + b64(RENEW[:31]); secrets_ok = False
            elif sec in ("wrong-value", "wrong-enabler-newshare"):
                if "write-enabler" in needed:
                    xs = [x if not x.startswith("write-enabler") else "write-enabler %s" % b64(WE_BAD) for x in xs]
                    wrong_value = True
                # for upload-secret routes the attacker's secret is already 'wrong' for the foreign upload
        if not secrets_ok and sec in ("missing-one", "missing-all", "extra"):
            classes.add("secrets-missing")
        if not secrets_ok and sec in ("bad-b64", "empty", "short-lease"):
            classes.add("secrets-malformed")
        if xs:
            hdrs["X-Tahoe-Authorization"] = xs
        before = snapshot()
        try:
            resp = H.result(H.treq.request(method, "http://127.0.0.1" + path, headers=Headers({k: v for k, v in hdrs.items()}), data=body))
        except UnicodeError:
            hist.append((route, auth, sec, tgt, "client-could-not-send"))
            continue
        if resp[0] != "ok":
            ctx.fail("request-failed", "request %r failed in the transport: %r" % ((method, path), resp))
            continue
        code = resp[1].code
        content = H.result(resp[1].content())
        content = content[1] if content[0] == "ok" else b""
        after = snapshot()
        hist.append((route, auth, sec, tgt, code))
        desc = "history=%r: %s %s with Authorization=%s, secrets=%s" % (hist, method, path, auth, sec)
        leaked = [i for i, m_ in enumerate(secret_marker) if m_[:16] in content]
        if not authorized and not unknown_auth:
            ctx.check(code in (401, 400), "unauthorized-accepted", "%s: answered %d without the correct swissnum" % (desc, code), route=route, auth=auth)
            ctx.check(not leaked, "share-data-leaked", "%s: the response contains stored share bytes" % desc, route=route, auth=auth)
            ctx.check(after == before, "state-changed-without-swissnum", "%s: server state changed" % desc, route=route, auth=auth)
            if state_changing:
                nt = True
        elif authorized:
            if not secrets_ok:
                ctx.check(400 <= code < 500, "bad-secrets-accepted", "%s: answered %d although the X-Tahoe-Authorization secrets are missing/extra/malformed" % (desc, code), route=route, secrets=sec)
                ctx.check(after == before, "state-changed-with-bad-secrets", "%s: server state changed" % desc, route=route, secrets=sec)
                nt = nt or state_changing
            elif route in ("patch", "abort") and tgt == "fresh" and secrets_ok and owner.get(fsh) not in (None, actor):
                classes.add("wrong-upload-secret")
                classes.add("foreign-upload-after-reallocation" if realloc.get(fsh) else "foreign-upload-other-client")
                nt = True
                ctx.check(400 <= code < 500, "foreign-upload-touched", "%s: answered %d to client %s's request on share %d, whose in-progress upload belongs to client %s (allocation history %r)" % (
                    desc, code, actor, fsh, owner.get(fsh), alloc_hist), route=route)
                ctx.check(after == before, "foreign-upload-changed", "%s: client %s's in-progress upload of share %d changed" % (desc, owner.get(fsh), fsh), route=route)
            elif route in ("patch", "abort") and tgt == "inprogress":
                classes.add("wrong-upload-secret")
                nt = True
                ctx.check(400 <= code < 500, "foreign-upload-touched", "%s: answered %d to a request on another client's in-progress upload made with a different upload secret" % (desc, code), route=route)
                ctx.check(after == before, "foreign-upload-changed", "%s: another client's in-progress upload changed" % desc, route=route)
            elif route == "rtw" and wrong_value and tgt == "mutable":
                classes.add("wrong-write-enabler" if sharenum == 0 else "wrong-enabler-new-share-only")
                nt = True
                ctx.check(code == 401, "wrong-enabler-accepted", "%s: answered %d to a mutable write with the wrong write enabler (share %d of an existing slot)" % (desc, code, sharenum), sharenum=sharenum)
                ctx.check(after == before, "slot-changed-with-wrong-enabler", "%s: the slot changed" % desc, sharenum=sharenum)
            elif 200 <= code < 300:
                classes.add("legit-ok")
            # ---- ownership bookkeeping for the two-client storage index
            if tgt == "fresh" and 200 <= code < 300 and secrets_ok:
                if route == "allocate":
                    try:
                        got_alloc = cbor2.loads(content).get("allocated", [])
                    except Exception:
                        got_alloc = []
                    for sh_ in got_alloc:
                        if sh_ in ever_owned and ever_owned[sh_] != actor:
                            realloc[sh_] = True
                        owner[sh_] = actor
                        ever_owned[sh_] = actor
                        alloc_hist.append((actor, "allocate", sh_))
                elif route == "abort" and owner.get(fsh) == actor:
                    owner[fsh] = None
                    alloc_hist.append((actor, "abort", fsh))
                elif route == "patch" and owner.get(fsh) == actor:
                    try:
                        if cbor2.loads(content).get("required") == []:
                            owner[fsh] = "done"
                    except Exception:
                        pass
    ctx.note(sig=repr(case), nontrivial=nt, classes=sorted(classes), sample={"requests": hist[:6]})
