"""C42 the backup database reuses caps only for unchanged content."""
import os, stat as statmod
from hypothesis import strategies as st
from vf import boot

ID = "C42"
LEVEL = "exploration"
ENGINE = "E0 pure"
TECHNIQUE = ("model-based testing: Hypothesis-generated histories (local file changes of size/mtime/ctime independently, renames, backup checks with and without trusted "
             "timestamps, uploads whose caps come from a small pool so that the same cap is recorded for several paths, forgotten caps, directory snapshots, clock advances) "
             "against the real BackupDB_v2 on a fresh sqlite database with os.stat replaced by a generated stat table; dictionary reference model.  Second family: histories of "
             "file writes (equal-size variants, modification time restored or not), deletions, clock jumps with a healthy/unhealthy grid and whole backup runs through the real "
             "tahoe_backup code (collect_backup_targets, run_backup, BackupProgress, BackerUpper.upload/upload_directory) over a real directory tree and sqlite database, only "
             "do_http replaced by an in-memory grid; the snapshot read back from the grid is compared with the local tree and every re-used cap with what it holds")
RULE = ("each case: up to 25 operations over 4 paths, 4 content caps and small pools of sizes/timestamps. Model: path -> (size, mtime, ctime, cap) recorded by the most recent "
        "did_upload for that path, dropped when a check finds a mismatch (as the tool then re-uploads); directories: frozenset of (name, cap) -> dircap of the latest "
        "did_create. Oracle: check_file().was_uploaded() returns a cap iff the model holds a record for that path whose size, mtime and ctime equal the file's current ones, "
        "timestamps are trusted and the cap was not forgotten -- and then exactly that record's cap; check_directory().was_created() returns a dircap iff exactly the same "
        "name->cap contents were recorded, and then the latest one. Non-trivial = a reuse decision for a path whose cap is also recorded for another path, or after exactly "
        "one of size/mtime/ctime changed; distinct by whole case.  Tool family: 2-6 files in up to 4 directories (3 levels), 4-16 operations incl. >=2 backups; oracle: "
        "a file cap is re-used only when size, mtime and ctime equal those of the path's most recent upload and timestamps are trusted, and it is that upload's cap; a "
        "directory cap is re-used only when it holds exactly the name->cap mapping of the current run; the snapshot equals the local tree (for a file whose stat triple "
        "is unchanged either the recorded or the current contents). Non-trivial there = a backup in which a sub-directory cap is re-used while its parent is re-created, "
        "or any directory re-use in the third or a later backup.")
LEVEL_TEXT = "Random histories against a dictionary model; the file system is a generated stat table."
ASSUMPTIONS = ["should_check()/did_check_healthy (probabilistic re-checking) are exercised but not asserted", "paths are absolute (no cwd dependence)"]
REQUIRED_CLASSES = ["reuse", "no-reuse-size", "no-reuse-mtime", "no-reuse-ctime", "no-reuse-timestamps-untrusted", "cap-shared-by-paths", "rename", "dir-reuse", "dir-changed", "forgot", "changed-during-upload", "tool-file-reuse", "tool-file-upload", "tool-dir-reuse", "tool-subdir-reused-parent-recreated"]
BUDGET = {"quick": 600, "thorough": 3600}
PATHS = ["/verif-fake/a", "/verif-fake/b", "/verif-fake/c", "/verif-fake/d é"]


def plan(tier):
    n = 600 if tier == "quick" else 6000
    return [{"kind": "hyp", "n": n} for _ in range(12)] + [{"kind": "tool", "n": 40 if tier == "quick" else 600} for _ in range(4)]


p = st.integers(0, 3)
small = st.integers(0, 2)
op = st.one_of(
    st.tuples(st.just("create"), p, small, small, small, st.integers(0, 3)),
    st.tuples(st.just("change"), p, st.sampled_from(["size", "mtime", "ctime", "content", "size+mtime", "all"]), small),
    st.tuples(st.just("rename"), p, p),
    st.tuples(st.just("backup"), p, st.sampled_from([True, True, True, False]), st.sampled_from([None, None, None, "size", "mtime", "ctime", "all"])),
    st.tuples(st.just("backup"), p, st.just(True), st.sampled_from([None, None, "mtime", "ctime"])),
    st.tuples(st.just("forget"), p),
    st.tuples(st.just("dir"), st.lists(st.tuples(st.integers(0, 2), st.integers(0, 3)), max_size=3), st.booleans()),
    st.tuples(st.just("tick"), st.integers(1, 10 ** 7)),
).map(list)


@st.composite
def cases(draw):
    pre = []
    for i in range(draw(st.integers(1, 4))):
        pre.append(["create", i, draw(small), draw(small), draw(small), draw(st.integers(0, 1))])
        pre.append(["backup", i, True])
    body = draw(st.lists(st.one_of(op, st.tuples(st.just("backup"), p, st.sampled_from([True, True, True, False])).map(list)), min_size=1, max_size=25))
    return {"ops": pre + body}


TOOL_PATHS = ["a.txt", "b.txt", "sub/c.txt", "sub/d.txt", "sub/deep/e.txt", "other/f \u00e9.txt"]
tp = st.integers(0, len(TOOL_PATHS) - 1)
tool_op = st.one_of(
    st.tuples(st.just("write"), tp, st.integers(0, 5), st.sampled_from(["new", "new", "new", "mtime-kept", "ctime-kept", "both-kept"])),
    st.tuples(st.just("write"), st.integers(2, 4), st.integers(0, 5), st.sampled_from(["new", "new", "mtime-kept", "both-kept"])),
    st.tuples(st.just("delete"), tp),
    st.tuples(st.just("backup"), st.sampled_from([False, False, False, True])),
    st.tuples(st.just("backup"), st.just(False)),
    st.tuples(st.just("tick"), st.sampled_from([1, 40, 61]), st.booleans()),
).map(list)


@st.composite
def tool_cases(draw):
    pre = [["write", i, draw(st.integers(0, 5)), "new"] for i in draw(st.lists(tp, min_size=2, max_size=6, unique=True))]
    body = draw(st.lists(tool_op, min_size=2, max_size=14))
    return {"fam": "tool", "ops": pre + [["backup", False]] + body + [["backup", False]]}


def run_shard(spec, ctx):
    if spec["kind"] == "tool":
        ctx.drive(tool_cases(), spec["n"], run_case)
    else:
        ctx.drive(cases(), spec["n"], run_case)


class _Resp:
    def __init__(self, status, body=b""):
        self.status, self._body = status, body

    def read(self):
        return self._body


class FakeGrid:
    """The only replaced part of `tahoe backup`: do_http.  Immutable files and immutable directories, caps numbered in creation order."""
    def __init__(self):
        self.files, self.dirs, self.healthy, self.requests = {}, {}, True, []

    def do_http(self, method, url, body=b""):
        import json
        self.requests.append((method, url.split("/")[-1][:40]))
        if method == "PUT" and url.endswith("/uri"):
            data = body.read() if hasattr(body, "read") else body
            cap = b"URI:CHK:file%04d" % len(self.files)
            self.files[cap] = data
            return _Resp(200, cap)
        if method == "POST" and url.endswith("uri?t=mkdir-immutable"):
            kids = json.loads(body.decode("utf-8"))
            children = {}
            for name, (kind_, info) in kids.items():
                ro = info["ro_uri"]
                children[name] = ro.encode("ascii") if isinstance(ro, str) else ro
            cap = b"URI:DIR2-CHK:dir%04d" % len(self.dirs)
            self.dirs[cap] = children
            return _Resp(200, cap)
        if method == "POST" and "t=check" in url:
            return _Resp(200, json.dumps({"results": {"healthy": self.healthy}}).encode("ascii"))
        raise AssertionError("unexpected request %s %s" % (method, url))

    def read_tree(self, dircap, prefix=""):
        out = {}
        for name, cap in self.dirs[dircap].items():
            if cap in self.dirs:
                out[prefix + name + "/"] = None
                out.update(self.read_tree(cap, prefix + name + "/"))
            else:
                out[prefix + name] = self.files[cap]
        return out


def run_tool_case(case, ctx):
    """Histories of local changes and whole `tahoe backup` runs through the real tahoe_backup code (collect_backup_targets, run_backup,
    BackupProgress, BackerUpper.upload/upload_directory) and a real sqlite backupdb.  Reference: per path the stat triple and the
    contents of its most recent upload."""
    import io, datetime
    from allmydata.scripts import tahoe_backup, backupdb
    from allmydata.util.encodingutil import listdir_unicode
    d = ctx.casedir()
    src = os.path.join(d, "home")
    os.makedirs(src)
    bdb = backupdb.get_backupdb(os.path.join(d, "backupdb.sqlite"), stderr=io.StringIO())
    assert bdb is not None
    grid = FakeGrid()
    orig_http = tahoe_backup.do_http
    tahoe_backup.do_http = grid.do_http
    rec = {}            # abs path -> (size, mtime, ctime, contents uploaded then)
    classes = set()
    hist = []
    nt = False
    nbackups = 0
    times = {}          # abs path -> (mtime, ctime) shown to the database
    stamp = [0]
    real_os = backupdb.os

    class StatOS(FakeOS):
        def stat(self, path):
            r = os.stat(path)
            if path in times:
                m, c = times[path]
                return os.stat_result((r.st_mode, r.st_ino, r.st_dev, r.st_nlink, r.st_uid, r.st_gid, r.st_size, m, m, c))
            return r
    backupdb.os = StatOS({})

    def fstat(path):
        r = backupdb.os.stat(path)
        return (r[statmod.ST_SIZE], r[statmod.ST_MTIME], r[statmod.ST_CTIME])

    class Options(dict):
        pass
    try:
        for o in case["ops"]:
            kind = o[0]
            if kind == "write":
                path = os.path.join(src, *TOOL_PATHS[o[1]].split("/"))
                os.makedirs(os.path.dirname(path), exist_ok=True)
                data = (b"variant %d " % (o[2] // 2 * 2)) * (1 + o[2] // 2) + (b"x" if o[2] % 2 else b"y")      # variants 2j and 2j+1 have equal sizes
                with open(path, "wb") as f:
                    f.write(data)
                # whole-second timestamps as the database reads them; a write inside the same second (or a tool restoring mtime) keeps them
                stamp[0] += 1
                oldm, oldc = times.get(path, (None, None))
                mode = o[3] if oldm is not None else "new"
                times[path] = (oldm if mode in ("mtime-kept", "both-kept") else 1000 + stamp[0], oldc if mode in ("ctime-kept", "both-kept") else 2000 + stamp[0])
                hist.append(("write", TOOL_PATHS[o[1]], len(data), mode))
            elif kind == "delete":
                path = os.path.join(src, *TOOL_PATHS[o[1]].split("/"))
                if os.path.exists(path):
                    os.unlink(path)
                    hist.append(("delete", TOOL_PATHS[o[1]]))
            elif kind == "tick":
                boot.R.advance(o[1] * 86400)
                grid.healthy = o[2]
                hist.append(("tick-days", o[1], "grid-healthy" if o[2] else "grid-unhealthy"))
            elif kind == "backup":
                nbackups += 1
                options = Options()
                options["node-url"] = "http://127.0.0.1:3456/"
                options["ignore-timestamps"] = o[1]
                options.stdout, options.stderr = io.StringIO(), io.StringIO()
                bu = tahoe_backup.BackerUpper(options)
                bu.backupdb = bdb
                bu.verbosity = 0
                label = "backup #%d%s" % (nbackups, " (ignore-timestamps)" if o[1] else "")
                hist.append((label,))
                # ---- expectation, from the statement's rule
                expected = {}
                uploads_expected = {}
                for dirpath, dirnames, filenames in os.walk(src):
                    rel = os.path.relpath(dirpath, src).replace(os.sep, "/")
                    if rel != ".":
                        expected[rel + "/"] = None
                    for fn in filenames:
                        full = os.path.join(dirpath, fn)
                        st3 = fstat(full)
                        cur = open(full, "rb").read()
                        r = rec.get(full)
                        relf = (rel + "/" if rel != "." else "") + fn
                        same = r is not None and (r[0], r[1], r[2]) == st3
                        if same and not o[1]:
                            expected[relf] = (r[3], cur)          # reuse permitted (either is what a correct tool may store)
                            if r[3] != cur:
                                classes.add("same-stat-different-content")
                        else:
                            expected[relf] = (cur, cur)
                            uploads_expected[full] = st3
                            if r is not None and sum(1 for i in range(3) if r[i] != st3[i]) == 1:
                                classes.add("tool-exactly-one-of-size-mtime-ctime-changed")
                reused_dirs = []

                def upload_directory(path, compare_contents, create_contents, bu=bu):
                    created, dircap = bu.upload_directory(path, compare_contents, create_contents)
                    if not created:
                        wanted = dict((n, create_contents[n][1]) for n in create_contents)
                        have = grid.dirs.get(dircap)
                        reused_dirs.append(path)
                        if wanted != have:
                            diff = sorted(n for n in set(wanted) | set(have or {}) if wanted.get(n) != (have or {}).get(n))
                            ctx.fail("dir-reused-for-different-contents", "history=%r: %s re-used the directory cap %r for %s although its name->cap contents differ in %r" % (
                                hist, label, dircap, os.path.relpath(path, src), diff), names=len(diff))
                    return created, dircap

                def upload(path, bu=bu):
                    created, cap, md = bu.upload(path)
                    if not created:
                        r = rec.get(path)
                        ok = r is not None and (r[0], r[1], r[2]) == fstat(path) and not o[1]
                        ctx.check(ok, "file-reused-without-matching-record", "history=%r: %s re-used a cap for %s although %s" % (
                            hist, label, os.path.relpath(path, src), "timestamps are not trusted" if o[1] else "size/mtime/ctime do not all match its most recent upload"))
                        if ok:
                            ctx.check(grid.files.get(cap) == r[3], "file-reused-wrong-cap", "history=%r: %s re-used for %s a cap that is not the one of its most recent upload" % (hist, label, os.path.relpath(path, src)))
                            classes.add("tool-file-reuse")
                    else:
                        rec[path] = fstat(path) + (grid.files[cap],)
                        classes.add("tool-file-upload")
                    return created, cap, md
                targets = list(tahoe_backup.collect_backup_targets(src, lambda p_: sorted(listdir_unicode(p_)), lambda children: children))
                completed = tahoe_backup.run_backup(warn=bu.warn, upload_file=upload, upload_directory=upload_directory, targets=targets,
                                                    start_timestamp=datetime.datetime(2030, 1, 1), stdout=io.StringIO())
                snapshot = grid.read_tree(completed.dircap)
                bad = sorted(k for k in set(snapshot) | set(expected) if (k not in snapshot) or (k not in expected) or (expected[k] is not None and snapshot[k] not in expected[k]))
                if bad:
                    ctx.fail("snapshot-differs", "history=%r: the snapshot made by %s differs from the local tree in %r (a stale cap was re-used or an entry was lost)" % (hist, label, bad[:6]), n=len(bad))
                if reused_dirs:
                    classes.add("tool-dir-reuse")
                    if any(p_ != src for p_ in reused_dirs) and src not in reused_dirs:
                        classes.add("tool-subdir-reused-parent-recreated")
                        nt = True
                if bu._files_checked or bu._directories_checked:
                    classes.add("tool-grid-check" + ("" if grid.healthy else "-unhealthy"))
                if nbackups >= 3:
                    nt = nt or bool(reused_dirs)
    finally:
        tahoe_backup.do_http = orig_http
        backupdb.os = real_os
        try:
            bdb.connection.close()
        except Exception:
            pass
    ctx.note(sig=repr(case), nontrivial=nt, classes=sorted(classes), sample={"history": hist[:14]})


class FakeOS:
    def __init__(self, table):
        self.table = table
        self.path = os.path

    def stat(self, path):
        if path not in self.table:
            raise OSError(2, "No such file", path)
        size, mtime, ctime = self.table[path][:3]
        return os.stat_result((0o100644, 1, 1, 1, 0, 0, size, mtime, mtime, ctime))

    def __getattr__(self, name):
        return getattr(os, name)


def run_case(case, ctx):
    if case.get("fam") == "tool":
        return run_tool_case(case, ctx)
    import sys, io
    from allmydata.scripts import backupdb
    d = ctx.casedir()
    bdb = backupdb.get_backupdb(os.path.join(d, "backupdb.sqlite"), stderr=io.StringIO())
    assert bdb is not None
    fs = {}           # path -> [size, mtime, ctime, content]
    rec = {}          # path -> (size, mtime, ctime, cap)
    dirs = {}         # frozenset -> dircap
    forgotten = set() # caps whose last_upload row was deleted behind the database's back
    real_os = backupdb.os
    backupdb.os = FakeOS(fs)
    classes = set()
    nt = False
    hist = []
    ndir = 0
    try:
        for o in case["ops"]:
            kind = o[0]
            if kind == "create":
                fs[PATHS[o[1]]] = [100 + o[2], 1000 + o[3], 2000 + o[4], o[5]]
                hist.append(("create", o[1], fs[PATHS[o[1]]][:]))
            elif kind == "change":
                path = PATHS[o[1]]
                if path not in fs:
                    continue
                f = fs[path]
                w = o[2]
                if "size" in w or w == "all":
                    f[0] = 100 + (f[0] - 100 + 1 + o[3]) % 4
                if "mtime" in w or w == "all":
                    f[1] = 1000 + (f[1] - 1000 + 1 + o[3]) % 4
                if w in ("ctime", "all"):
                    f[2] = 2000 + (f[2] - 2000 + 1 + o[3]) % 4
                if w in ("content", "all"):
                    f[3] = (f[3] + 1 + o[3]) % 4
                hist.append(("change", o[1], w, f[:]))
            elif kind == "rename":
                a, b = PATHS[o[1]], PATHS[o[2]]
                if a not in fs or a == b:
                    continue
                fs[b] = fs.pop(a)
                classes.add("rename")
                hist.append(("rename", o[1], o[2]))
            elif kind == "backup":
                path = PATHS[o[1]]
                if path not in fs:
                    continue
                use_ts = o[2]
                size, mtime, ctime, content = fs[path]
                r = bdb.check_file(path, use_timestamps=use_ts)
                got = r.was_uploaded()
                m = rec.get(path)
                exp = None
                why = None
                if m is None:
                    why = "no-record"
                elif m[0] != size:
                    why = "size"
                elif not use_ts:
                    why = "timestamps-untrusted"
                elif m[1] != mtime:
                    why = "mtime"
                elif m[2] != ctime:
                    why = "ctime"
                elif m[3] in forgotten:
                    why = "forgot"
                else:
                    exp = m[3]
                hist.append(("backup", o[1], use_ts, "reuse" if got else "upload"))
                desc = "history=%r" % (hist,)
                shared = exp is not None and any(pp != path and rr[3] == exp for pp, rr in rec.items())
                if shared:
                    classes.add("cap-shared-by-paths")
                    nt = True
                if exp is None:
                    if why not in ("no-record",):
                        classes.add("no-reuse-" + why if why != "forgot" else "forgot")
                        nt = nt or why in ("size", "mtime", "ctime")
                    ctx.check(not got, "reused-changed-file", "%s: check_file(%s) offers cap %r for reuse although %s (file now size=%d mtime=%d ctime=%d, last upload record %r)" % (
                        desc, path, got, {"no-record": "no upload of this path is on record", "size": "the size changed", "mtime": "the mtime changed", "ctime": "the ctime changed",
                                          "timestamps-untrusted": "timestamps are not trusted", "forgot": "the cap was forgotten"}[why], size, mtime, ctime, m), why=why)
                    rec.pop(path, None)
                else:
                    classes.add("reuse")
                    ctx.check(got == exp, "wrong-cap" if got else "no-reuse", "%s: check_file(%s) returned %r; the most recent upload of this unchanged path recorded %r" % (desc, path, got, exp), got=bool(got))
                if not got:
                    cap = b"URI:CHK:content-%d" % content
                    if len(o) > 3 and o[3]:
                        # the file changes while it is being uploaded (after the tool looked at it, before the upload is recorded): the record belongs to what was uploaded
                        f = fs[path]
                        w = o[3]
                        if w in ("size", "all"):
                            f[0] = 100 + (f[0] - 100 + 1) % 4
                        if w in ("mtime", "all"):
                            f[1] = 1000 + (f[1] - 1000 + 1) % 4
                        if w in ("ctime", "all"):
                            f[2] = 2000 + (f[2] - 2000 + 1) % 4
                        f[3] = (f[3] + 1) % 4
                        classes.add("changed-during-upload")
                        hist.append(("changed-during-upload", o[1], w))
                    r.did_upload(cap)
                    forgotten.discard(cap)      # the upload re-creates the cap's row
                    rec[path] = (size, mtime, ctime, cap)
                else:
                    r.should_check()
            elif kind == "forget":
                path = PATHS[o[1]]
                if path in rec and rec[path][3] not in forgotten:
                    cap = rec[path][3]
                    c = bdb.cursor
                    c.execute("SELECT fileid FROM caps WHERE filecap=?", (cap.decode("ascii"),))
                    row = c.fetchone() or bdb.cursor.execute("SELECT fileid FROM caps WHERE filecap=?", (cap,)).fetchone()
                    if row:
                        c.execute("DELETE FROM last_upload WHERE fileid=?", (row[0],))
                        bdb.connection.commit()
                        forgotten.add(cap)
                        hist.append(("forget", o[1]))
            elif kind == "dir":
                contents = {u"child%d" % n: b"URI:CHK:content-%d" % cc for (n, cc) in o[1]}
                key = frozenset(contents.items())
                r = bdb.check_directory(contents)
                got = r.was_created()
                exp = dirs.get(key)
                hist.append(("dir", sorted(contents.items()), "reuse" if got else "create"))
                desc = "history=%r" % (hist,)
                if exp is None:
                    classes.add("dir-changed")
                    ctx.check(not got, "reused-different-directory", "%s: check_directory offers %r for contents never recorded" % (desc, got))
                else:
                    classes.add("dir-reuse")
                    ctx.check(got == exp, "directory-not-reused", "%s: check_directory returned %r, recorded %r" % (desc, got, exp))
                if not got or o[2]:
                    ndir += 1
                    dc = b"URI:DIR2-CHK:dir-%d" % ndir
                    r.did_create(dc)
                    dirs[key] = dc
            elif kind == "tick":
                boot.R.advance(o[1])
    finally:
        backupdb.os = real_os
        try:
            bdb.connection.close()
        except Exception:
            pass
    ctx.note(sig=repr(case), nontrivial=nt, classes=sorted(classes), sample={"history": hist[:12]})
