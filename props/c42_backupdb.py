"""C42 the backup database reuses caps only for unchanged content."""
import os, stat as statmod
from hypothesis import strategies as st
from vf import boot

ID = "C42"
LEVEL = "exploration"
ENGINE = "E0 pure"
TECHNIQUE = ("model-based testing: Hypothesis-generated histories (local file changes of size/mtime/ctime independently, renames, backup checks with and without trusted "
             "timestamps, uploads whose caps come from a small pool so that the same cap is recorded for several paths, forgotten caps, directory snapshots, clock advances) "
             "against the real BackupDB_v2 on a fresh sqlite database with os.stat replaced by a generated stat table; dictionary reference model")
RULE = ("each case: up to 25 operations over 4 paths, 4 content caps and small pools of sizes/timestamps. Model: path -> (size, mtime, ctime, cap) recorded by the most recent "
        "did_upload for that path, dropped when a check finds a mismatch (as the tool then re-uploads); directories: frozenset of (name, cap) -> dircap of the latest "
        "did_create. Oracle: check_file().was_uploaded() returns a cap iff the model holds a record for that path whose size, mtime and ctime equal the file's current ones, "
        "timestamps are trusted and the cap was not forgotten -- and then exactly that record's cap; check_directory().was_created() returns a dircap iff exactly the same "
        "name->cap contents were recorded, and then the latest one. Non-trivial = a reuse decision for a path whose cap is also recorded for another path, or after exactly "
        "one of size/mtime/ctime changed; distinct by whole case.")
LEVEL_TEXT = "Random histories against a dictionary model; the file system is a generated stat table."
ASSUMPTIONS = ["should_check()/did_check_healthy (probabilistic re-checking) are exercised but not asserted", "paths are absolute (no cwd dependence)"]
REQUIRED_CLASSES = ["reuse", "no-reuse-size", "no-reuse-mtime", "no-reuse-ctime", "no-reuse-timestamps-untrusted", "cap-shared-by-paths", "rename", "dir-reuse", "dir-changed", "forgot"]
BUDGET = {"quick": 600, "thorough": 3600}
PATHS = ["/verif-fake/a", "/verif-fake/b", "/verif-fake/c", "/verif-fake/d é"]


def plan(tier):
    n = 600 if tier == "quick" else 6000
    return [{"kind": "hyp", "n": n} for _ in range(16)]


p = st.integers(0, 3)
small = st.integers(0, 2)
op = st.one_of(
    st.tuples(st.just("create"), p, small, small, small, st.integers(0, 3)),
    st.tuples(st.just("change"), p, st.sampled_from(["size", "mtime", "ctime", "content", "size+mtime", "all"]), small),
    st.tuples(st.just("rename"), p, p),
    st.tuples(st.just("backup"), p, st.sampled_from([True, True, True, False])),
    st.tuples(st.just("backup"), p, st.just(True)),
    st.tuples(st.just("forget"), p),
    st.tuples(st.just("dir"), st.lists(st.tuples(st.integers(0, 2), st.integers(0, 3)), max_size=3), st.booleans()),
    st.tuples(st.just("tick"), st.integers(1, 10 ** 7)),
).map(list)


@st.composite
def cases(draw):
    pre = []
    for i in range(draw(st.integers(1, 4))):
        pre.append(["create", i, draw(small), draw(small), draw(small), draw(st.integers(0, 1))])
        pre.append(["backup", i, True])
    body = draw(st.lists(st.one_of(op, st.tuples(st.just("backup"), p, st.sampled_from([True, True, True, False])).map(list)), min_size=1, max_size=25))
    return {"ops": pre + body}


def run_shard(spec, ctx):
    ctx.drive(cases(), spec["n"], run_case)


class FakeOS:
    def __init__(self, table):
        self.table = table
        self.path = os.path

    def stat(self, path):
        if path not in self.table:
            raise OSError(2, "No such file", path)
        size, mtime, ctime = self.table[path][:3]
        return os.stat_result((0o100644, 1, 1, 1, 0, 0, size, mtime, mtime, ctime))

    def __getattr__(self, name):
        return getattr(os, name)


def run_case(case, ctx):
    import sys, io
    from allmydata.scripts import backupdb
    d = ctx.casedir()
    bdb = backupdb.get_backupdb(os.path.join(d, "backupdb.sqlite"), stderr=io.StringIO())
    assert bdb is not None
    fs = {}           # path -> [size, mtime, ctime, content]
    rec = {}          # path -> (size, mtime, ctime, cap)
    dirs = {}         # frozenset -> dircap
    forgotten = set() # caps whose last_upload row was deleted behind the database's back
    real_os = backupdb.os
    backupdb.os = FakeOS(fs)
    classes = set()
    nt = False
    hist = []
    ndir = 0
    try:
        for o in case["ops"]:
            kind = o[0]
            if kind == "create":
                fs[PATHS[o[1]]] = [100 + o[2], 1000 + o[3], 2000 + o[4], o[5]]
                hist.append(("create", o[1], fs[PATHS[o[1]]][:]))
            elif kind == "change":
                path = PATHS[o[1]]
                if path not in fs:
                    continue
                f = fs[path]
                w = o[2]
                if "size" in w or w == "all":
                    f[0] = 100 + (f[0] - 100 + 1 + o[3]) % 4
                if "mtime" in w or w == "all":
                    f[1] = 1000 + (f[1] - 1000 + 1 + o[3]) % 4
                if w in ("ctime", "all"):
                    f[2] = 2000 + (f[2] - 2000 + 1 + o[3]) % 4
                if w in ("content", "all"):
                    f[3] = (f[3] + 1 + o[3]) % 4
                hist.append(("change", o[1], w, f[:]))
            elif kind == "rename":
                a, b = PATHS[o[1]], PATHS[o[2]]
                if a not in fs or a == b:
                    continue
                fs[b] = fs.pop(a)
                classes.add("rename")
                hist.append(("rename", o[1], o[2]))
            elif kind == "backup":
                path = PATHS[o[1]]
                if path not in fs:
                    continue
                use_ts = o[2]
                size, mtime, ctime, content = fs[path]
                r = bdb.check_file(path, use_timestamps=use_ts)
                got = r.was_uploaded()
                m = rec.get(path)
                exp = None
                why = None
                if m is None:
                    why = "no-record"
                elif m[0] != size:
                    why = "size"
                elif not use_ts:
                    why = "timestamps-untrusted"
                elif m[1] != mtime:
                    why = "mtime"
                elif m[2] != ctime:
                    why = "ctime"
                elif m[3] in forgotten:
                    why = "forgot"
                else:
                    exp = m[3]
                hist.append(("backup", o[1], use_ts, "reuse" if got else "upload"))
                desc = "history=%r" % (hist,)
                shared = exp is not None and any(pp != path and rr[3] == exp for pp, rr in rec.items())
                if shared:
                    classes.add("cap-shared-by-paths")
                    nt = True
                if exp is None:
                    if why not in ("no-record",):
                        classes.add("no-reuse-" + why if why != "forgot" else "forgot")
                        nt = nt or why in ("size", "mtime", "ctime")
                    ctx.check(not got, "reused-changed-file", "%s: check_file(%s) offers cap %r for reuse although %s (file now size=%d mtime=%d ctime=%d, last upload record %r)" % (
                        desc, path, got, {"no-record": "no upload of this path is on record", "size": "the size changed", "mtime": "the mtime changed", "ctime": "the ctime changed",
                                          "timestamps-untrusted": "timestamps are not trusted", "forgot": "the cap was forgotten"}[why], size, mtime, ctime, m), why=why)
                    rec.pop(path, None)
                else:
                    classes.add("reuse")
                    ctx.check(got == exp, "wrong-cap" if got else "no-reuse", "%s: check_file(%s) returned %r; the most recent upload of this unchanged path recorded %r" % (desc, path, got, exp), got=bool(got))
                if not got:
                    cap = b"URI:CHK:content-%d" % content
                    r.did_upload(cap)
                    forgotten.discard(cap)      # the upload re-creates the cap's row
                    rec[path] = (size, mtime, ctime, cap)
                else:
                    r.should_check()
            elif kind == "forget":
                path = PATHS[o[1]]
                if path in rec and rec[path][3] not in forgotten:
                    cap = rec[path][3]
                    c = bdb.cursor
                    c.execute("SELECT fileid FROM caps WHERE filecap=?", (cap.decode("ascii"),))
                    row = c.fetchone() or bdb.cursor.execute("SELECT fileid FROM caps WHERE filecap=?", (cap,)).fetchone()
                    if row:
                        c.execute("DELETE FROM last_upload WHERE fileid=?", (row[0],))
                        bdb.connection.commit()
                        forgotten.add(cap)
                        hist.append(("forget", o[1]))
            elif kind == "dir":
                contents = {u"child%d" % n: b"URI:CHK:content-%d" % cc for (n, cc) in o[1]}
                key = frozenset(contents.items())
                r = bdb.check_directory(contents)
                got = r.was_created()
                exp = dirs.get(key)
                hist.append(("dir", sorted(contents.items()), "reuse" if got else "create"))
                desc = "history=%r" % (hist,)
                if exp is None:
                    classes.add("dir-changed")
                    ctx.check(not got, "reused-different-directory", "%s: check_directory offers %r for contents never recorded" % (desc, got))
                else:
                    classes.add("dir-reuse")
                    ctx.check(got == exp, "directory-not-reused", "%s: check_directory returned %r, recorded %r" % (desc, got, exp))
                if not got or o[2]:
                    ndir += 1
                    dc = b"URI:DIR2-CHK:dir-%d" % ndir
                    r.did_create(dc)
                    dirs[key] = dc
            elif kind == "tick":
                boot.R.advance(o[1])
    finally:
        backupdb.os = real_os
        try:
            bdb.connection.close()
        except Exception:
            pass
    ctx.note(sig=repr(case), nontrivial=nt, classes=sorted(classes), sample={"history": hist[:12]})
