"""C21 deep traversal (manifest, deep-stats, deep-check) visits every reachable object exactly once."""
from hypothesis import strategies as st
from vf import boot, mutfile, caps
from vf.grid import Grid

ID = "C21"
LEVEL = "exploration"
ENGINE = "E2 detgrid"
TECHNIQUE = ("Hypothesis-generated directory graphs (adjacency draws over real SDMF/MDMF directories: trees, DAGs with shared subdirectories, cycles and self-links; the same "
             "object linked by write cap and by read cap; literal, CHK and mutable file caps; unknown caps) on the in-process grid; reference = own breadth-first search over "
             "the link structure; oracles for build_manifest, start_deep_stats and start_deep_check, run one after the other and overlapping")
RULE = ("each case: 1-6 (quick) / up to 12 (thorough) real directories and up to 40 links; each link is (parent directory, name, target directory or file, via write cap or read "
        "cap); file targets come from a small pool so that the same file is linked several times. Oracle: the set of verify caps in the manifest equals the set reachable from "
        "the root (own BFS, root included); every object that has a verify cap appears exactly once in the manifest; literal files and literal (immutable, <=55 byte) directories, which have no verify cap, appear exactly once per distinct cap; "
        "unknown caps appear once per link from a visited directory; every manifest path resolves through get_child_at_path to a node with the reported cap; "
        "deep-stats counters (directories, mutable/immutable/literal files, unknown) equal the model's; deep-check checks each object with a verify cap exactly once; all "
        "three terminate. Non-trivial = the graph has a cycle or an object reachable by two different paths; distinct by whole case.")
LEVEL_TEXT = "Random graphs against an independent breadth-first reference."
ASSUMPTIONS = ["file caps are synthetic (never uploaded): deep-check reports them unhealthy, which is not asserted", "honest servers"]
REQUIRED_CLASSES = ["literal-linked-twice", "literal-directory-shared", "overlapping-deep-operations", "cycle", "self-link", "shared-subdir", "rw-and-ro-link-to-same-object", "literal", "unknown", "deep-check"]
BUDGET = {"quick": 900, "thorough": 7200}
FILEKINDS = ["lit", "lit", "chk", "chk", "ssk", "ssk-ro", "mdmf", "unknown", "immdir-empty", "immdir-small", "lit", "immdir-small"]


def plan(tier):
    n = 80 if tier == "quick" else 1200
    return [{"kind": "hyp", "n": n, "maxdirs": 6 if tier == "quick" else 12} for _ in range(16)]


@st.composite
def cases(draw, maxdirs):
    nd = draw(st.integers(1, maxdirs))
    links = []
    # a spanning structure so that most directories are reachable, plus arbitrary extra links
    for d in range(1, nd):
        if draw(st.integers(0, 5)) > 0:
            links.append([draw(st.integers(0, d - 1)), "d", d, draw(st.sampled_from(["rw", "rw", "ro"]))])
    extra = draw(st.lists(st.tuples(st.integers(0, nd - 1), st.sampled_from(["d", "f", "f"]), st.integers(0, 11), st.sampled_from(["rw", "ro"])).map(list), max_size=3 * nd + 4))
    for e in extra:
        if e[1] == "d":
            e[2] = e[2] % nd
    return {"hsalt": draw(st.integers(0, 15)), "fmt": [draw(st.sampled_from(["sdmf", "mdmf"])) for _ in range(nd)], "links": links + extra, "deepcheck": draw(st.integers(0, 2)) == 0,
            "overlap": draw(st.sampled_from([None, ["stats", "stats"], ["stats", "manifest"], ["manifest", "stats", "manifest"]])), "osched": draw(st.lists(st.integers(0, 9), max_size=40)),
            "sched": draw(st.lists(st.integers(0, 5), max_size=20))}


def run_shard(spec, ctx):
    ctx.drive(cases(spec["maxdirs"]), spec["n"], run_case)


def run_case(case, ctx):
    from allmydata import uri
    from allmydata.unknown import UnknownNode
    mutfile.set_segsize(4096)
    g = Grid(ctx.casedir(), 3, {"k": 1, "n": 2, "happy": 1, "max_segment_size": 131072}, choices=case["sched"])
    c = g.c0
    classes = set()
    try:
        dirs = []
        for fmt in case["fmt"]:
            r = g.run(c.nodemaker.create_new_mutable_directory(version=mutfile.version_const(fmt)))
            if r[0] != "ok":
                ctx.fail("mkdir-failed", "mkdir failed %r" % (r,))
                return
            dirs.append(r[1])

        immdirs = {}

        def filecap(i, mode):
            kind = FILEKINDS[i % len(FILEKINDS)]
            if kind == "unknown":
                return "unknown", None, b"ro.URI:FUTURE-RO:%d" % i
            if kind.startswith("immdir"):
                # an immutable directory small enough to be a literal itself (URI:DIR2-LIT:): empty, or holding one literal file
                if i not in immdirs:
                    kids = {}
                    if kind == "immdir-small":
                        kids = {u"k": (c.nodemaker.create_from_cap(uri.LiteralFileURI(b"in-%d" % i).to_string()), {})}
                    r_ = g.run(c.nodemaker.create_immutable_directory(kids))
                    assert r_[0] == "ok", r_
                    immdirs[i] = r_[1].get_uri()
                    assert immdirs[i].startswith(b"URI:DIR2-LIT:"), immdirs[i]
                return kind, None, immdirs[i]
            cap = caps.make({"kind": {"lit": "LIT", "chk": "CHK", "ssk": "SSK", "ssk-ro": "SSK-RO", "mdmf": "MDMF"}[kind], "a": 500 + i * 9, "b": 700 + i * 9, "k": 1, "n": 2,
                             "size": 1000 + i, "lit": (b"literal-%d" % i).hex()})
            if kind in ("ssk", "mdmf") and mode == "rw":
                return kind, cap.to_string(), cap.get_readonly().to_string()
            return kind, None, (cap.get_readonly().to_string() if kind in ("ssk", "mdmf") else cap.to_string())
        adj = {i: {} for i in range(len(dirs))}      # parent -> name -> ("d", idx) | ("f", kind, identity)
        for li, (parent, typ, target, mode) in enumerate(case["links"]):
            name = u"link%d" % li
            if typ == "d":
                dn = dirs[target]
                rw, ro = (dn.get_uri(), dn.get_readonly_uri()) if mode == "rw" else (None, dn.get_readonly_uri())
                adj[parent][name] = ("d", target, mode)
            else:
                kind, rw, ro = filecap(target, mode)
                adj[parent][name] = ("f", kind, target, mode)
            r = g.run(dirs[parent].set_uri(name, rw, ro))
            if r[0] != "ok":
                ctx.fail("link-failed", "set_uri failed %r" % (r,))
                return
        # ---- reference BFS from directory 0
        reach_dirs, order = {0}, [0]
        objs = set()            # ("d", idx) / ("f", kind, target) for objects with a verify cap
        lit_links = unknown_links = 0
        lit_objs = set()        # objects without a verify cap, identified by their cap: literal files, literal directories and the literal files inside those
        paths_to = {}
        qi = 0
        multi = False
        while qi < len(order):
            d = order[qi]
            qi += 1
            for name, ent in sorted(adj[d].items()):
                if ent[0] == "d":
                    if ent[1] in reach_dirs:
                        multi = True
                        classes.add("self-link" if ent[1] == d else ("cycle" if ent[1] == 0 or ent[1] in order[:qi] else "shared-subdir"))
                    else:
                        reach_dirs.add(ent[1])
                        order.append(ent[1])
                else:
                    kind = ent[1]
                    if kind == "lit":
                        lit_links += 1
                        if ("lit", ent[2]) in lit_objs:
                            multi = True
                            classes.add("literal-linked-twice")
                        lit_objs.add(("lit", ent[2]))
                        classes.add("literal")
                    elif kind.startswith("immdir"):
                        if ("immdir", ent[2]) in lit_objs:
                            multi = True
                            classes.add("literal-directory-shared")
                        lit_objs.add(("immdir", ent[2]))
                        if kind == "immdir-small":
                            lit_objs.add(("immlit", ent[2]))
                        classes.add("literal-directory")
                    elif kind == "unknown":
                        unknown_links += 1
                        classes.add("unknown")
                    else:
                        key = ("f", kind.replace("-ro", ""), ent[2])
                        if key in objs:
                            multi = True
                        objs.add(key)
        modes = {}
        for d in reach_dirs:
            for name, ent in adj[d].items():
                key = ("d", ent[1]) if ent[0] == "d" else ("f", ent[1], ent[2])
                modes.setdefault(key, set()).add(ent[-1])
        if any(len(v) > 1 for v in modes.values()):
            classes.add("rw-and-ro-link-to-same-object")
        n_immdir = len([o for o in lit_objs if o[0] == "immdir"])
        n_litfiles = len([o for o in lit_objs if o[0] in ("lit", "immlit")])
        exp = {"count-directories": len(reach_dirs) + n_immdir, "count-literal-files": n_litfiles, "count-unknown": unknown_links,
               "count-mutable-files": len([o for o in objs if o[1] in ("ssk", "mdmf")]), "count-immutable-files": len([o for o in objs if o[1] == "chk"])}
        exp_vcaps = set(dirs[d].get_verify_cap().to_string() for d in reach_dirs)
        for (f, kind, i) in objs:
            k2, rw, ro = filecap(i, "ro")
            exp_vcaps.add(uri.from_string(ro).get_verify_cap().to_string())
        desc = "dirs=%r links=%r" % (case["fmt"], case["links"])
        root = g.add_client().nodemaker.create_from_cap(dirs[0].get_uri())
        # ---- manifest
        r = g.run(root.build_manifest().when_done())
        if r[0] != "ok":
            ctx.fail("manifest-failed" if r[0] == "err" else "hang", "%s: build_manifest ended with %r" % (desc, r))
            return
        res = r[1]
        man = res["manifest"]
        got_v = set(res["verifycaps"])
        ctx.check(got_v == exp_vcaps, "wrong-reachable-set", "%s: manifest verify caps: %d missing, %d extra (expected %d objects)" % (desc, len(exp_vcaps - got_v), len(got_v - exp_vcaps), len(exp_vcaps)))
        seen_v, seen_lit = {}, {}
        n_lit = n_unknown = 0
        for (path, cap) in man:
            try:
                u = uri.from_string(cap)
            except Exception:
                u = None
            v = u.get_verify_cap() if u is not None and not isinstance(u, uri.UnknownURI) else None
            if isinstance(u, uri.UnknownURI) or u is None:
                n_unknown += 1
            elif v is None:
                n_lit += 1
                if cap in seen_lit:
                    ctx.fail("visited-twice", "%s: the manifest lists the same literal object twice: at %r and at %r (%r)" % (desc, seen_lit[cap], path, cap[:40]), literal=True)
                seen_lit[cap] = path
            else:
                vs = v.to_string()
                if vs in seen_v:
                    ctx.fail("visited-twice", "%s: the manifest lists the same object twice: at %r and at %r" % (desc, seen_v[vs], path), is_root=(vs == dirs[0].get_verify_cap().to_string()))
                seen_v[vs] = path
            # the path leads to the reported object
            if path:
                rr = g.run(root.get_child_at_path(list(path)))
                ctx.check(rr[0] == "ok" and (rr[1].get_uri() == cap or (isinstance(rr[1], UnknownNode))), "path-mismatch", "%s: manifest path %r does not lead to the reported cap" % (desc, path))
        ctx.check(set(seen_v) == exp_vcaps, "manifest-objects", "%s: objects listed once in the manifest: %d, expected %d" % (desc, len(seen_v), len(exp_vcaps)))
        ctx.check(len(seen_lit) == len(lit_objs), "manifest-objects", "%s: literal objects (files and directories) listed in the manifest: %d, reachable: %d" % (desc, len(seen_lit), len(lit_objs)), literal=True)
        ctx.check(n_unknown == unknown_links, "per-link-entries", "%s: manifest has %d unknown entries; links from visited directories: %d unknown" % (desc, n_unknown, unknown_links))
        # ---- deep stats
        r = g.run(root.start_deep_stats().when_done())
        if r[0] != "ok":
            ctx.fail("deep-stats-failed" if r[0] == "err" else "hang", "%s: deep-stats ended with %r" % (desc, r))
            return
        st_ = r[1]
        for key, val in exp.items():
            ctx.check(st_.get(key) == val, "wrong-stats", "%s: deep-stats %s=%r, reference %r (all: %r)" % (desc, key, st_.get(key), val, {k2: st_.get(k2) for k2 in exp}), counter=key)
        ctx.check(st_.get("count-files") == exp["count-literal-files"] + exp["count-mutable-files"] + exp["count-immutable-files"], "wrong-stats", "%s: count-files=%r" % (desc, st_.get("count-files")), counter="count-files")
        # ---- deep check
        if case["deepcheck"]:
            classes.add("deep-check")
            r = g.sched.run_until(root.start_deep_check().when_done(), maxsteps=50000)
            if r[0] != "ok":
                ctx.fail("deep-check-failed" if r[0] == "err" else "hang", "%s: deep-check ended with %r" % (desc, r))
                return
            cnt = r[1].get_counters()
            ctx.check(cnt["count-objects-checked"] == len(exp_vcaps),     # literal files and unknown caps have nothing to check and are not counted
                      "wrong-check-count", "%s: deep-check checked %d objects; reachable objects with a verify cap: %d (+%d literal, %d unknown links)" % (desc, cnt["count-objects-checked"], len(exp_vcaps), lit_links, unknown_links))
        # ---- overlapping deep operations in one process: each must still report exactly its own traversal
        if case.get("overlap"):
            classes.add("overlapping-deep-operations")
            kinds = case["overlap"]
            g.sched.choices, g.sched.ci = list(case.get("osched", [])), 0
            ds = [(root.start_deep_stats() if kd == "stats" else root.build_manifest()).when_done() for kd in kinds]
            rs = g.sched.run_all(ds, maxsteps=100000)
            for kd, r in zip(kinds, rs):
                if r[0] != "ok":
                    ctx.fail("deep-op-failed" if r[0] == "err" else "hang", "%s: overlapping %s ended with %r" % (desc, kd, r))
                    continue
                if kd == "stats":
                    for key, val in exp.items():
                        ctx.check(r[1].get(key) == val, "wrong-stats", "%s: deep-stats running while %r ran too: %s=%r, reference %r" % (desc, kinds, key, r[1].get(key), val), counter=key, overlapping=True)
                    ctx.check(r[1].get("count-files") == exp["count-literal-files"] + exp["count-mutable-files"] + exp["count-immutable-files"], "wrong-stats",
                              "%s: deep-stats running while %r ran too: count-files=%r" % (desc, kinds, r[1].get("count-files")), counter="count-files", overlapping=True)
                else:
                    ctx.check(set(r[1]["verifycaps"]) == exp_vcaps, "wrong-reachable-set", "%s: manifest running while %r ran too: verify caps differ from the reachable set" % (desc, kinds), overlapping=True)
                    st2 = r[1]["stats"]
                    for key, val in exp.items():
                        ctx.check(st2.get(key) == val, "wrong-stats", "%s: the manifest's statistics, while %r ran too: %s=%r, reference %r" % (desc, kinds, key, st2.get(key), val), counter=key, overlapping=True)
    finally:
        g.stop()
        mutfile.restore_segsize()
    ctx.note(sig=repr(case), nontrivial=multi, classes=sorted(classes), sample={"dirs": case["fmt"], "links": case["links"][:12], "reachable_dirs": sorted(reach_dirs)})
