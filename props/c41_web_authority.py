"""C41 the web API never exceeds the authority of the capability used."""
import os, sys, json, urllib.parse
from hypothesis import strategies as st
from vf import boot, mutfile, webmem, store
from vf.core import pbytes
from vf.grid import Grid

ID = "C41"
LEVEL = "exploration"
ENGINE = "E2 detgrid"
TECHNIQUE = ("Hypothesis-generated modifying web requests (PUT file / ?t=mkdir / ?t=uri, POST t=mkdir, mkdir-with-children, uri, unlink/delete, rename, relink, set_children, "
             "DELETE, PUT to a mutable file incl. offset=) addressed through read-only caps, verify caps and paths that cross read-only links inside a real mixed-authority "
             "directory tree (the same object linked both writeably and read-only from one directory), sent as raw HTTP to the real web resource tree on the in-process grid; "
             "oracle = refusal status + byte-for-byte snapshot of every server's share files + scan of JSON/HTML/info responses for write caps")
RULE = ("each case: a tree root{sub-rw -> S (write link), sub-ro -> S (read-only link), file-rw/file-ro -> mutable file F, lit} with S{inner, deep -> T}, link names with "
        "generated sort order, SDMF or MDMF; 1-6 requests, each (base cap in {root rw, root ro, S ro, F ro, root verify, F verify}, path through the tree, operation). The "
        "reference authority of (base, path) is writeable iff the base is a write cap and every link followed is a write link. Oracle: a modifying request whose target is "
        "not writeable gets status >= 400 and leaves every share file on every server byte-identical; GET ?t=json / ?t=info / HTML of a target reached without write "
        "authority contains no 'rw_uri' and no write-cap string of the tree. Non-trivial = the target is reached from a write-cap base through a read-only link, or through "
        "a read-only base over a write link; distinct by whole case.")
LEVEL_TEXT = "Random search over request forms and mixed-authority paths with a snapshot oracle."
ASSUMPTIONS = ["requests are HTTP/1.0 over an in-memory transport; the /private token routes are outside this check", "a refusal is any status >= 400 (the web layer reports NotWriteableError as 500)"]
REQUIRED_CLASSES = ["new-mutable-child", "rw-base-through-ro-link", "ro-base-over-rw-link", "verify-cap", "refused", "allowed", "json-scan", "file-target", "mdmf"]
BUDGET = {"quick": 900, "thorough": 7200}
DIR_OPS = ["put-child", "put-child-mutable", "post-upload-mutable", "put-mkdir", "put-uri", "post-mkdir", "post-mkdir-children", "post-uri", "post-unlink", "post-delete", "post-rename", "post-relink", "post-set-children", "delete-child", "delete-self"]
FILE_OPS = ["put-overwrite", "put-offset", "delete-self"]
READS = ["json", "info", "html"]


def plan(tier):
    n = 90 if tier == "quick" else 1500
    return [{"kind": "hyp", "n": n} for _ in range(16)]


@st.composite
def cases(draw):
    reqs = draw(st.lists(st.fixed_dictionaries({"base": st.sampled_from(["root-rw", "root-rw", "root-ro", "root-ro", "S-ro", "F-ro", "root-verify", "F-verify"]),
                                                 "path": st.sampled_from([[], ["sub-rw"], ["sub-ro"], ["sub-ro"], ["file-rw"], ["file-ro"], ["file-ro"], ["sub-ro", "deep"], ["sub-rw", "deep"]]),
                                                 "op": st.sampled_from(DIR_OPS + FILE_OPS + READS + READS)}), min_size=1, max_size=6))
    return {"hsalt": draw(st.integers(0, 15)), "fmt": draw(st.sampled_from(["sdmf", "mdmf"])), "order": draw(st.sampled_from(["rw-first", "ro-first"])), "reqs": reqs}


def run_shard(spec, ctx):
    ctx.drive(cases(), spec["n"], run_case)


def run_case(case, ctx):
    from allmydata import uri
    mutfile.set_segsize(4096)
    g = Grid(ctx.casedir(), 3, {"k": 1, "n": 2, "happy": 1, "max_segment_size": 131072})
    c = g.c0
    classes = set()
    if case["fmt"] == "mdmf":
        classes.add("mdmf")
    nt = False
    hist = []
    try:
        ver = mutfile.version_const(case["fmt"])

        def mkdir():
            r = g.run(c.nodemaker.create_new_mutable_directory(version=ver))
            assert r[0] == "ok", r
            return r[1]
        R, S, T = mkdir(), mkdir(), mkdir()
        rF = mutfile.create(g, c, case["fmt"], b"mutable file contents")
        assert rF[0] == "ok", rF
        F = rF[1]
        # link names: the relative sort order of the write link and the read-only link to the same object is generated
        a, b = ("a", "z") if case["order"] == "rw-first" else ("z", "a")
        names = {"sub-rw": a + "-sub-rw", "sub-ro": b + "-sub-ro", "file-rw": a + "-file-rw", "file-ro": b + "-file-ro", "deep": "deep", "inner": "inner", "lit": "lit"}
        lit = uri.LiteralFileURI(b"literal").to_string()
        for (dn, nm_, rw, ro) in ((T, "leaf", None, lit), (S, names["inner"], None, lit), (S, names["deep"], T.get_uri(), T.get_readonly_uri()),
                                  (R, names["sub-rw"], S.get_uri(), S.get_readonly_uri()), (R, names["sub-ro"], None, S.get_readonly_uri()),
                                  (R, names["file-rw"], F.get_uri(), F.get_readonly_uri()), (R, names["file-ro"], None, F.get_readonly_uri()), (R, names["lit"], None, lit)):
            r = g.run(dn.set_uri(nm_, rw, ro))
            assert r[0] == "ok", r
        writecaps = {R.get_uri(), S.get_uri(), T.get_uri(), F.get_uri()}
        bases = {"root-rw": R.get_uri(), "root-ro": R.get_readonly_uri(), "S-ro": S.get_readonly_uri(), "F-ro": F.get_readonly_uri(),
                 "root-verify": R.get_verify_cap().to_string(), "F-verify": F.get_verify_cap().to_string()}
        wc = g.add_client()
        wc.keygen.i = 40            # fresh keys for files the gateway itself creates (not the fixture keys the set-up used)
        web = webmem.Web(g, wc)

        def snapshot():
            out = {}
            for s in g.servers:
                for (si_, sh, p) in store.share_files(s.ss):
                    out[(s.idx, si_, sh)] = open(p, "rb").read()
            return out
        # ---- reference authority and kind of (base, path)
        tree = {"root": {"sub-rw": ("S", True), "sub-ro": ("S", False), "file-rw": ("F", True), "file-ro": ("F", False), "lit": ("lit", False)},
                "S": {"inner": ("lit", False), "deep": ("T", True)}, "T": {"leaf": ("lit", False)}}

        def resolve(base, path):
            obj = {"root-rw": "root", "root-ro": "root", "S-ro": "S", "F-ro": "F", "root-verify": "root", "F-verify": "F"}[base]
            writeable = base == "root-rw"
            readable = not base.endswith("verify")
            crossed_ro = False
            for seg in path:
                if obj not in tree or seg not in tree[obj]:
                    return None
                obj, linkrw = tree[obj][seg]
                if writeable and not linkrw:
                    crossed_ro = True
                writeable = writeable and linkrw
            return obj, writeable, readable, crossed_ro
        for rq in case["reqs"]:
            res = resolve(rq["base"], rq["path"])
            if res is None:
                continue
            obj, writeable, readable, crossed_ro = res
            op = rq["op"]
            isdir = obj in ("root", "S", "T")
            if op in DIR_OPS and not isdir and op != "delete-self":
                continue
            if op in FILE_OPS and op != "delete-self" and obj != "F":
                continue
            if obj == "lit":
                continue
            if op == "delete-self" and not rq["path"]:
                continue
            url = "/uri/" + urllib.parse.quote(bases[rq["base"]].decode("ascii")) + "".join("/" + urllib.parse.quote(names[seg]) for seg in rq["path"])
            method, body, q = "GET", b"", ""
            extra_headers = None
            existing = {"root": names["lit"], "S": names["inner"], "T": "leaf"}.get(obj, "x")
            target_writeable = writeable
            if op == "put-child":
                method, url, body = "PUT", url + "/newfile", b"new file contents " * 5
            elif op == "put-child-mutable":
                # a new MUTABLE file: the gateway would have to create and upload it before it can be linked
                method, url, q, body = "PUT", url + "/newmutable", "?format=%s" % ("MDMF" if rq.get("arg", 0) % 2 else "SDMF"), b"new mutable file contents"
                classes.add("new-mutable-child")
            elif op == "post-upload-mutable":
                method, q = "POST", "?t=upload&format=SDMF&name=newmutable2"
                boundary = "BoUnDaRy"
                body = ("--%s\r\nContent-Disposition: form-data; name=\"file\"; filename=\"x\"\r\nContent-Type: application/octet-stream\r\n\r\nposted mutable contents\r\n--%s--\r\n" % (boundary, boundary)).encode("ascii")
                extra_headers = [("Content-Type", "multipart/form-data; boundary=%s" % boundary)]
                classes.add("new-mutable-child")
            elif op == "put-mkdir":
                method, url, q = "PUT", url + "/newdir", "?t=mkdir"
            elif op == "put-uri":
                method, url, q, body = "PUT", url + "/newlink", "?t=uri", lit
            elif op == "post-mkdir":
                method, q = "POST", "?t=mkdir&name=newdir"
            elif op == "post-mkdir-children":
                method, q, body = "POST", "?t=mkdir-with-children&name=newdir", json.dumps({"kid": ["filenode", {"ro_uri": lit.decode("ascii")}]}).encode("ascii")
            elif op == "post-uri":
                method, q = "POST", "?t=uri&name=newlink&uri=" + urllib.parse.quote(lit.decode("ascii"))
            elif op == "post-unlink":
                method, q = "POST", "?t=unlink&name=" + urllib.parse.quote(existing)
            elif op == "post-delete":
                method, q = "POST", "?t=delete&name=" + urllib.parse.quote(existing)
            elif op == "post-rename":
                method, q = "POST", "?t=rename&from_name=%s&to_name=renamed" % urllib.parse.quote(existing)
            elif op == "post-relink":
                method, q = "POST", "?t=relink&from_name=%s&to_dir=%s&to_name=moved" % (urllib.parse.quote(existing), urllib.parse.quote(T.get_uri().decode("ascii")))
            elif op == "post-set-children":
                method, q, body = "POST", "?t=set_children", json.dumps({"kid": ["filenode", {"ro_uri": lit.decode("ascii")}]}).encode("ascii")
            elif op == "delete-child":
                method, url = "DELETE", url + "/" + urllib.parse.quote(existing)
            elif op == "delete-self":
                # unlinks the last path segment from its parent: the PARENT must be writeable
                method = "DELETE"
                pres = resolve(rq["base"], rq["path"][:-1])
                target_writeable = pres[1]
            elif op == "put-overwrite":
                method, body = "PUT", b"overwritten contents"
            elif op == "put-offset":
                method, q, body = "PUT", "?offset=2", b"XY"
            elif op == "json":
                q = "?t=json"
            elif op == "info":
                q = "?t=info"
            before = snapshot() if op not in READS else None
            resp = web.request(method, url + q, body=body, headers=extra_headers or ())
            extra_headers = None
            g.sched.settle()
            hist.append((rq["base"], rq["path"], op, resp.code if resp else None))
            if os.environ.get("VERIF_DEBUG"):
                sys.stderr.write("DEBUG %s %s -> %r shares %d->%d body=%r\n" % (method, url + q, resp.code if resp else None, len(before or {}), len(snapshot()), (resp.body[-700:] if resp else None)))
            desc = "fmt=%s order=%s history=%r: %s %s" % (case["fmt"], case["order"], hist, method, (url + q)[:140])
            if resp is None:
                ctx.fail("hang", "%s: the request never completed" % desc)
                continue
            if rq["base"].endswith("verify"):
                classes.add("verify-cap")
            if obj == "F":
                classes.add("file-target")
            if op in READS:
                if not writeable and readable and rq["base"] != "root-rw":     # "responses made through a read-only capability": the request itself carries no write cap
                    classes.add("json-scan")
                    ctx.check(b"rw_uri" not in resp.body or resp.code >= 400, "rw_uri-through-read-cap", "%s: the response for a target reached without write authority contains an rw_uri entry" % desc, op=op, crossed=crossed_ro)
                    for wc in writecaps:
                        ctx.check(wc not in resp.body and urllib.parse.quote(wc.decode("ascii")).encode("ascii") not in resp.body, "write-cap-leaked",
                                  "%s: the response for a target reached without write authority contains the write cap %r" % (desc, wc), op=op, crossed=crossed_ro)
                    if crossed_ro:
                        classes.add("rw-base-through-ro-link")
                        nt = True
                continue
            after = snapshot()
            if not target_writeable:
                classes.add("refused")
                if crossed_ro:
                    classes.add("rw-base-through-ro-link")
                    nt = True
                if rq["base"] == "root-ro" and any(tree.get(o, {}).get(sg, (None, False))[1] for o in ("root", "S") for sg in rq["path"]):
                    classes.add("ro-base-over-rw-link")
                    nt = True
                ctx.check(resp.code >= 400, "modification-accepted", "%s: a modifying request through insufficient authority was answered %d" % (desc, resp.code), op=op, base=rq["base"], crossed=crossed_ro)
                if after != before:
                    changed = [k for k in set(before) | set(after) if before.get(k) != after.get(k)]
                    ctx.fail("grid-changed", "%s: a modifying request through insufficient authority (answered %d) changed %d share files" % (desc, resp.code, len(changed)), op=op, base=rq["base"], crossed=crossed_ro)
            elif resp.code < 400:
                classes.add("allowed")
                if op == "delete-self":
                    # the link is gone: a later request naming it no longer reaches the old object (a PUT there legitimately
                    # creates a new child of the writeable parent), so the reference tree follows the directory
                    tree[pres[0]].pop(rq["path"][-1], None)
                    classes.add("link-removed-then-model-follows")
    finally:
        g.stop()
        mutfile.restore_segsize()
    ctx.note(sig=repr(case), nontrivial=nt, classes=sorted(classes), sample={"fmt": case["fmt"], "order": case["order"], "requests": hist[:6]})
