"""C39 SFTP writes are never lost to the background download."""
import tempfile
from hypothesis import strategies as st
from vf import boot
from vf.core import pbytes

ID = "C39"
LEVEL = "exploration"
ENGINE = "E0 pure"
TECHNIQUE = ("model-based testing: Hypothesis-generated histories on the real OverwriteableFileConsumer (download chunks of generated sizes interleaved with client "
             "overwrites at state-relative offsets -- ahead of, behind and across the download position, nested in and overlapping earlier overwrites, past EOF --, "
             "truncations/extensions and reads) against a bytearray model; reads are compared when they complete, the whole file when the download has finished.  Second family: the same kind of "
             "history through the SFTP file handle (GeneralSFTPFile.open/readChunk/writeChunk/setAttrs(size)/getAttrs/close with generated open flags, mutable or immutable "
             "file node whose download the generator feeds chunk by chunk, several requests outstanding); the upload performed by close() is captured and compared")
RULE = ("each case: an original file of 0-200 bytes and up to 20 operations: deliver(n bytes of the original), overwrite(offset, data) with offset drawn relative to the "
        "download position / the current size / the start or end of an earlier overwrite, set_size(smaller|larger), read(offset, length), finish. While a read is pending only "
        "download chunks are delivered (the class documents that callers serialise overwrites behind reads). Model: bytearray with writes and size changes applied in order, "
        "zero fill for gaps. Oracle: every completed read equals the model slice taken when the read was issued (EOFError at/after EOF); after the download has delivered "
        "everything, the whole temporary file (what close() uploads: read to EOF, so its length counts) equals the model. Non-trivial = an overwrite that starts ahead of the download position and overlaps or "
        "nests inside an earlier pending overwrite; distinct by whole case.  Handle family: flags in {rw, w, rw+append, rw+trunc, rw+creat}, up to 20 requests, close before or after "
        "the download finished; oracle: every readChunk equals the model at the time it was "
        "requested (FX_EOF at/after EOF), getAttrs reports the model size, every request completes, and what close() hands to the uploader (parent.add_file or "
        "filenode.overwrite, read to EOF) equals the model whenever a write or size change was requested (otherwise nothing or the same contents).")
LEVEL_TEXT = "Random histories against a byte-array model, with offsets generated relative to the state that matters (download position, pending overwrites)."
ASSUMPTIONS = ["the temporary file is the real EncryptedTemporaryFile (key from the seeded urandom); what close() would upload is the whole file read to EOF", "consumer family: no overwrite or size change is issued while a read is waiting (OverwriteableFileConsumer.read documents this as the caller's obligation); several reads may wait at once",
               "handle family: requests are issued without waiting for earlier answers (several may be outstanding); every answer is asserted against the model in request order"]
REQUIRED_CLASSES = ["requests-queued-before-version-lookup-finished", "uploaded", "size-changed", "close-waits-for-download", "two-reads-outstanding", "mutable-node", "immutable-node", "overwrite-ahead", "overwrite-nested-in-pending", "overwrite-overlaps-pending", "overwrite-behind", "overwrite-past-eof", "truncate", "extend", "read-waits-for-download", "read-eof"]
BUDGET = {"quick": 600, "thorough": 3600}


def plan(tier):
    n = 800 if tier == "quick" else 12000
    return [{"kind": "hyp", "n": n} for _ in range(10)] + [{"kind": "handle", "n": n // 2} for _ in range(6)]


pos = st.one_of(st.tuples(st.just("dl"), st.integers(-3, 12)), st.tuples(st.just("size"), st.integers(-5, 4)), st.tuples(st.just("ow-start"), st.integers(0, 3), st.integers(-2, 3)),
                st.tuples(st.just("ow-end"), st.integers(0, 3), st.integers(-3, 2)), st.tuples(st.just("abs"), st.integers(0, 220))).map(list)
op = st.one_of(
    st.tuples(st.just("deliver"), st.integers(1, 40)),
    st.tuples(st.just("deliver"), st.integers(1, 8)),
    st.tuples(st.just("overwrite"), pos, st.integers(1, 30), st.integers(0, 9)),
    st.tuples(st.just("overwrite"), pos, st.integers(1, 30), st.integers(0, 9)),
    st.tuples(st.just("overwrite"), pos, st.integers(1, 6), st.integers(0, 9)),
    st.tuples(st.just("set_size"), pos),
    st.tuples(st.just("read"), pos, st.integers(1, 40)),
).map(list)


@st.composite
def cases(draw):
    return {"size": draw(st.sampled_from([0, 1, 10, 50, 100, 200]) | st.integers(0, 200)), "ops": draw(st.lists(op, max_size=20))}


hop = st.one_of(
    st.tuples(st.just("deliver"), st.integers(1, 40)),
    st.tuples(st.just("deliver"), st.integers(1, 8)),
    st.tuples(st.just("write"), pos, st.integers(1, 30), st.integers(0, 9)),
    st.tuples(st.just("write"), pos, st.integers(1, 6), st.integers(0, 9)),
    st.tuples(st.just("set_size"), pos),
    st.tuples(st.just("read"), pos, st.integers(1, 40)),
    st.tuples(st.just("getattrs")),
).map(list)


@st.composite
def handle_cases(draw):
    return {"fam": "handle", "size": draw(st.sampled_from([0, 1, 10, 50, 100, 200]) | st.integers(0, 200)), "mutable": draw(st.booleans()),
            "flags": draw(st.sampled_from(["rw", "rw", "rw", "w", "rw-append", "rw-trunc", "rw-creat"])),
            "ops": draw(st.lists(hop, max_size=20)), "close_at": draw(st.sampled_from(["after-download", "before-download-finished"])),
            # the lookup of the file's current version (the first thing open() waits for) completes after this many requests have been queued (99 = only after close was requested)
            "lookup_after": draw(st.sampled_from([0, 0, 0, 1, 2, 3, 99]))}


def run_shard(spec, ctx):
    if spec["kind"] == "handle":
        ctx.drive(handle_cases(), spec["n"], run_case)
    else:
        ctx.drive(cases(), spec["n"], run_case)


def run_handle_case(case, ctx):
    """The same histories through the SFTP file handle (GeneralSFTPFile: open / readChunk / writeChunk / setAttrs(size) / getAttrs / close) on
    top of a fake file node whose download the generator feeds chunk by chunk; the upload that close() performs is captured."""
    from zope.interface import implementer
    from twisted.internet import defer
    from twisted.python.failure import Failure
    from twisted.conch.ssh.filetransfer import FXF_READ, FXF_WRITE, FXF_APPEND, FXF_TRUNC, FXF_CREAT, SFTPError, FX_EOF
    from allmydata.interfaces import IFileNode
    from allmydata.frontends.sftpd import GeneralSFTPFile
    original = pbytes(1, case["size"])
    uploaded = []

    def slurp(u):
        out = []
        d = defer.maybeDeferred(u.get_size)

        def _sz(n):
            d2 = defer.maybeDeferred(u.read, n + 10)
            d2.addCallback(lambda chunks: out.append(b"".join(chunks)))
            return d2
        d.addCallback(_sz)
        d.addCallback(lambda ign: uploaded.append(out[0]))
        return d

    @implementer(IFileNode)
    class Node:
        consumer = None

        def is_mutable(self):
            return case["mutable"]

        def is_readonly(self):
            return False

        def is_unknown(self):
            return False

        def get_write_uri(self):
            return b"URI:fake-write-cap"

        def get_size(self):
            return len(original)

        def get_best_readable_version(self):
            if not case.get("lookup_after"):
                return defer.succeed(self)
            self.vd = defer.Deferred()
            return self.vd

        def read(self, consumer, offset=0, size=None):
            self.consumer = consumer
            self.d = defer.Deferred()
            return self.d

        def overwrite(self, uploadable):
            return slurp(uploadable)

    class Parent:
        def get_write_uri(self):
            return b"URI:DIR2:fake-parent"

        def add_file(self, name, uploadable, metadata=None):
            return slurp(uploadable)

        def set_metadata_for(self, name, md):
            return defer.succeed(None)
    node = Node()
    flags = {"rw": FXF_READ | FXF_WRITE, "w": FXF_WRITE, "rw-append": FXF_READ | FXF_WRITE | FXF_APPEND, "rw-trunc": FXF_READ | FXF_WRITE | FXF_TRUNC,
             "rw-creat": FXF_READ | FXF_WRITE | FXF_CREAT}[case["flags"]]
    h = GeneralSFTPFile(b"/user/path", flags, None, b"convergence-secret")
    h.open(parent=Parent(), childname=u"child", filenode=node, metadata={"mtime": 1})
    boot.drain()
    trunc = bool(flags & FXF_TRUNC)
    model = bytearray(b"" if trunc else original)
    changed = bool(flags & (FXF_TRUNC | FXF_CREAT))       # "creating or truncating the file is a change"
    delivered = 0
    done_dl = [trunc]
    classes = set(["flags-" + case["flags"], "mutable-node" if case["mutable"] else "immutable-node"])
    hist = [("open", case["flags"], "mutable" if case["mutable"] else "immutable", len(original))]
    reads = []
    nt = False
    pending_ow = []

    def dlpos():
        return len(original) if trunc else delivered

    def resolve(p):
        if p[0] == "dl":
            v = dlpos() + p[1]
        elif p[0] == "size":
            v = len(model) + p[1]
        elif p[0] in ("ow-start", "ow-end"):
            if not pending_ow:
                v = dlpos() + 5
            else:
                s_, e_ = pending_ow[p[1] % len(pending_ow)]
                v = (s_ if p[0] == "ow-start" else e_) + p[2]
        else:
            v = p[1]
        return max(0, min(v, 260))

    def deliver(n):
        nonlocal delivered
        if trunc or node.consumer is None:
            return
        if delivered < len(original):
            chunk = original[delivered:delivered + n]
            delivered += len(chunk)
            node.consumer.write(chunk)
            hist.append(("deliver", len(chunk)))
        if delivered >= len(original) and not done_dl[0]:
            done_dl[0] = True
            node.d.callback(None)
        boot.drain()

    def desc():
        return "original=%d bytes history=%r" % (len(original), hist)

    def overtake():
        # A write or size change requested while a read is still waiting for the download: OverwriteableFileConsumer.read documents
        # "the caller must perform no more overwrites until the Deferred has fired", and the handle does not wait.  What such a read
        # returns is not asserted (the statement orders client operations; it does not speak about overlapping ones); everything
        # else, in particular what close() uploads, still is.
        for r in reads:
            if not r[3] and not r[4]:
                classes.add("mutation-while-read-pending")      # (since fix D45 the handle makes later requests wait for the read: asserted like any other read)

    def check_reads():
        for r in reads:
            if r[3] and not r[4]:
                r[4] = True
                res = r[3][0]
                if r[2] == "eof":
                    ctx.check(isinstance(res, Failure) and res.check(SFTPError) and res.value.code == FX_EOF, "read-past-eof", "%s: readChunk(%d,%d) at/after EOF returned %r" % (desc(), r[0], r[1], res))
                elif isinstance(res, Failure):
                    ctx.fail("read-failed", "%s: readChunk(%d,%d) failed: %r" % (desc(), r[0], r[1], res.value))
                elif res != r[2]:
                    first = next((i for i in range(min(len(res), len(r[2]))) if res[i] != r[2][i]), min(len(res), len(r[2])))
                    ctx.fail("read-differs", "%s: readChunk(offset=%d, length=%d) returned %d bytes; byte %d differs from the contents after the requests issued before it" % (desc(), r[0], r[1], len(res), r[0] + first))
    nreq = [0]

    def lookup_done():
        vd = getattr(node, "vd", None)
        if vd is not None and not vd.called:
            classes.add("requests-queued-before-version-lookup-finished")
            vd.callback(node)
            boot.drain()
    for o in case["ops"]:
        kind = o[0]
        if nreq[0] >= case.get("lookup_after", 0):
            lookup_done()
        if kind != "deliver":
            nreq[0] += 1
        if kind == "deliver":
            deliver(o[1])
        elif kind == "write":
            off = resolve(o[1])
            data = pbytes(100 + o[3], o[2])
            if flags & FXF_APPEND:
                off = len(model)
            hist.append(("writeChunk", off, len(data)))
            end = off + len(data)
            if off >= dlpos():
                classes.add("overwrite-ahead")
                for (s_, e_) in pending_ow:
                    if off < e_ and s_ < end:
                        classes.add("overwrite-overlaps-pending")
                        nt = True
            overtake()
            res = []
            h.writeChunk(o[1][1] if (flags & FXF_APPEND) else off, data).addBoth(res.append)
            changed = True
            if off > len(model):
                model.extend(b"\0" * (off - len(model)))
            model[off:end] = data
            if end > dlpos():
                pending_ow.append((off, end))
            boot.drain()
            ctx.check(res and not isinstance(res[0], Failure), "write-failed", "%s: writeChunk failed or did not return at once: %r" % (desc(), res))
        elif kind == "set_size":
            size = resolve(o[1])
            hist.append(("setAttrs-size", size))
            classes.add("truncate" if size < len(model) else "extend")
            if size != len(model):
                size_changed = True
                classes.add("size-changed")
            overtake()
            res = []
            h.setAttrs({"size": size}).addBoth(res.append)
            if size < len(model):
                del model[size:]
                pending_ow[:] = [(s_, min(e_, size)) for (s_, e_) in pending_ow if s_ < size]
            else:
                model.extend(b"\0" * (size - len(model)))
            boot.drain()
        elif kind == "read":
            if not (flags & FXF_READ):
                continue
            off = resolve(o[1])
            hist.append(("readChunk", off, o[2]))
            res = []
            h.readChunk(off, o[2]).addBoth(res.append)
            exp = "eof" if off >= len(model) else bytes(model[off:off + o[2]])
            if exp == "eof":
                classes.add("read-eof")
            reads.append([off, o[2], exp, res, False])
            boot.drain()
            if not res:
                classes.add("read-waits-for-download")
                if any(w[0] in ("writeChunk", "setAttrs-size") for w in hist):
                    nt = True
        elif kind == "getattrs":
            res = []
            h.getAttrs().addBoth(res.append)
            boot.drain()
            if res and not isinstance(res[0], Failure) and not any(not r[3] for r in reads):
                ctx.check(res[0].get("size") == len(model), "size-differs", "%s: getAttrs reports size %r, model %d" % (desc(), res[0].get("size"), len(model)))
        pending_ow[:] = [(s_, e_) for (s_, e_) in pending_ow if e_ > dlpos()]
        boot.drain()
        check_reads()
    size_was_changed = "size-changed" in classes
    if case.get("lookup_after", 0) < 99:
        lookup_done()
    if case["close_at"] == "after-download":
        while not done_dl[0] and node.consumer is not None:
            deliver(16)
    hist.append(("close",))
    overtake()          # a close requested while a read is outstanding: the read's answer is not asserted either
    cres = []
    h.close().addBoth(cres.append)
    boot.drain()
    lookup_done()
    if not cres:
        classes.add("close-waits-for-download")
    guard = 0
    while not done_dl[0] and node.consumer is not None and guard < 100:
        deliver(16)
        guard += 1
    boot.drain()
    check_reads()
    for r in reads:
        if not r[3]:
            ctx.fail("read-never-completed", "%s: readChunk(%d,%d) never completed although the download finished and the handle was closed" % (desc(), r[0], r[1]))
    if not cres:
        ctx.fail("close-never-completed", "%s: close() never completed" % desc())
    elif isinstance(cres[0], Failure):
        ctx.fail("close-failed", "%s: close() failed: %r" % (desc(), cres[0].value))
    elif changed or size_was_changed:
        if not uploaded:
            ctx.fail("not-uploaded", "%s: the handle was closed after %s but nothing was uploaded: the stored file keeps its old contents (%d bytes, the client's view had %d)" % (
                desc(), "writes" if changed else "a size change only", len(original), len(model)), only_size_change=not changed)
        else:
            final = uploaded[-1]
            classes.add("uploaded")
            if final != bytes(model):
                first = next((i for i in range(min(len(final), len(model))) if final[i] != model[i]), min(len(final), len(model)))
                ctx.fail("uploaded-contents-differ", "%s: close() uploaded %d bytes, the model has %d; first difference at offset %d" % (desc(), len(final), len(model), first))
    else:
        classes.add("unchanged-no-upload")
        ctx.check(not uploaded or uploaded[-1] == bytes(model), "uploaded-contents-differ", "%s: an unchanged file was uploaded with different contents" % desc())
    ctx.note(sig=repr(case), nontrivial=nt, classes=sorted(classes), sample={"size": case["size"], "history": hist[:14]})


def run_case(case, ctx):
    if case.get("fam") == "handle":
        return run_handle_case(case, ctx)
    from allmydata.frontends.sftpd import OverwriteableFileConsumer
    original = pbytes(1, case["size"])
    from allmydata.util.fileutil import EncryptedTemporaryFile
    c = OverwriteableFileConsumer(len(original), EncryptedTemporaryFile)      # the maker GeneralSFTPFile uses
    model = bytearray(original)
    delivered = 0
    pending_ow = []       # (start, end) of client overwrites not yet passed by the download
    hist = []
    classes = set()
    nt = False
    reads = []            # [offset, length, expected bytes or "eof", result list]

    def resolve(p):
        if p[0] == "dl":
            v = c.downloaded + p[1]
        elif p[0] == "size":
            v = len(model) + p[1]
        elif p[0] in ("ow-start", "ow-end"):
            if not pending_ow:
                v = c.downloaded + 5
            else:
                s, e = pending_ow[p[1] % len(pending_ow)]
                v = (s if p[0] == "ow-start" else e) + p[2]
        else:
            v = p[1]
        return max(0, min(v, 260))

    def deliver(n):
        nonlocal delivered
        if delivered < len(original):
            chunk = original[delivered:delivered + n]
            delivered += len(chunk)
            c.write(chunk)
            boot.drain()
            hist.append(("deliver", len(chunk)))

    def check_reads(final=False):
        for r in reads:
            if r[3] and not r[4]:
                r[4] = True
                res = r[3][0]
                desc = "original=%d bytes history=%r" % (len(original), hist)
                from twisted.python.failure import Failure
                if r[2] == "eof":
                    ctx.check(isinstance(res, Failure) and res.check(EOFError), "read-past-eof", "%s: read(%d,%d) at/after EOF returned %r" % (desc, r[0], r[1], res))
                elif isinstance(res, Failure):
                    ctx.fail("read-failed", "%s: read(%d,%d) failed: %r" % (desc, r[0], r[1], res.value))
                elif res != r[2]:
                    first = next((i for i in range(min(len(res), len(r[2]))) if res[i] != r[2][i]), min(len(res), len(r[2])))
                    ctx.fail("read-differs", "%s: read(offset=%d, length=%d) returned %d bytes; byte %d differs from the contents at the time of the read (a client write was lost or downloaded data was not applied)" % (
                        desc, r[0], r[1], len(res), r[0] + first))
    for o in case["ops"]:
        waiting = any(not r[3] for r in reads)
        kind = o[0]
        if waiting and kind not in ("deliver", "read"):
            kind = "deliver"
            o = ["deliver", 7]
        if kind == "deliver":
            deliver(o[1])
        elif kind == "overwrite":
            off = resolve(o[1])
            data = pbytes(100 + o[3], o[2])
            end = off + len(data)
            hist.append(("overwrite", off, len(data)))
            if off > len(model):
                classes.add("overwrite-past-eof")
            if off >= c.downloaded:
                classes.add("overwrite-ahead")
                for (s, e) in pending_ow:
                    if s <= off and end <= e and (s, e) != (off, end):
                        classes.add("overwrite-nested-in-pending")
                        nt = True
                    elif off < e and s < end:
                        classes.add("overwrite-overlaps-pending")
                        nt = True
            elif end <= c.downloaded:
                classes.add("overwrite-behind")
            c.overwrite(off, data)
            if off > len(model):
                model.extend(b"\0" * (off - len(model)))
            model[off:end] = data
            if end > c.downloaded:
                pending_ow.append((off, end))
        elif kind == "set_size":
            size = resolve(o[1])
            hist.append(("set_size", size))
            classes.add("truncate" if size < len(model) else "extend")
            c.set_current_size(size)
            if size < len(model):
                del model[size:]
                pending_ow[:] = [(s, min(e, size)) for (s, e) in pending_ow if s < size]
            else:
                model.extend(b"\0" * (size - len(model)))
        elif kind == "read":
            off = resolve(o[1])
            ln = o[2]
            hist.append(("read", off, ln))
            res = []
            try:
                d = c.read(off, ln)
            except Exception as e:
                ctx.fail("read-raised", "history=%r: read raised %r" % (hist, e))
                continue
            d.addBoth(res.append)
            exp = "eof" if off >= len(model) else bytes(model[off:off + ln])
            if exp == "eof":
                classes.add("read-eof")
            reads.append([off, ln, exp, res, False])
            boot.drain()
            if not res:
                classes.add("read-waits-for-download")
                if waiting:
                    classes.add("two-reads-outstanding")
        pending_ow[:] = [(s, e) for (s, e) in pending_ow if e > c.downloaded]
        boot.drain()
        check_reads()
    # ---- finish the download
    while delivered < len(original):
        deliver(16)
        check_reads()
    boot.drain()
    hist.append(("finish",))
    check_reads()
    desc = "original=%d bytes history=%r" % (len(original), hist)
    for r in reads:
        if not r[3]:
            ctx.fail("read-never-completed", "%s: read(%d,%d) never completed although the download finished" % (desc, r[0], r[1]))
    ctx.check(c.get_current_size() == len(model), "size-differs", "%s: current size %d, model %d" % (desc, c.get_current_size(), len(model)))
    f = c.get_file()
    f.seek(0)
    final = f.read()          # close() hands the whole temporary file to the uploader (FileHandle / MutableFileHandle read to EOF)
    if len(final) != len(model):
        classes.add("final-length-differs")
    if final != bytes(model):
        first = next((i for i in range(min(len(final), len(model))) if final[i] != model[i]), min(len(final), len(model)))
        src = "the original file's byte (downloaded data clobbered a client write)" if first < len(original) and first < len(final) and final[first] == original[first] else "neither the model's nor obviously the original's byte"
        ctx.fail("final-contents-differ", "%s: after the download finished the file differs from the model at offset %d (%d vs %d bytes): it holds %s" % (desc, first, len(final), len(model), src))
    c.close()
    ctx.note(sig=repr(case), nontrivial=nt, classes=sorted(classes), sample={"size": case["size"], "history": hist[:14]})
