"""C39 SFTP writes are never lost to the background download."""
import tempfile
from hypothesis import strategies as st
from vf import boot
from vf.core import pbytes

ID = "C39"
LEVEL = "exploration"
ENGINE = "E0 pure"
TECHNIQUE = ("model-based testing: Hypothesis-generated histories on the real OverwriteableFileConsumer (download chunks of generated sizes interleaved with client "
             "overwrites at state-relative offsets -- ahead of, behind and across the download position, nested in and overlapping earlier overwrites, past EOF --, "
             "truncations/extensions and reads) against a bytearray model; reads are compared when they complete, the whole file when the download has finished")
RULE = ("each case: an original file of 0-200 bytes and up to 20 operations: deliver(n bytes of the original), overwrite(offset, data) with offset drawn relative to the "
        "download position / the current size / the start or end of an earlier overwrite, set_size(smaller|larger), read(offset, length), finish. While a read is pending only "
        "download chunks are delivered (the class documents that callers serialise overwrites behind reads). Model: bytearray with writes and size changes applied in order, "
        "zero fill for gaps. Oracle: every completed read equals the model slice taken when the read was issued (EOFError at/after EOF); after the download has delivered "
        "everything, the whole temporary file (what close() uploads: read to EOF, so its length counts) equals the model. Non-trivial = an overwrite that starts ahead of the download position and overlaps or "
        "nests inside an earlier pending overwrite; distinct by whole case.")
LEVEL_TEXT = "Random histories against a byte-array model, with offsets generated relative to the state that matters (download position, pending overwrites)."
ASSUMPTIONS = ["the temporary file is the real EncryptedTemporaryFile (key from the seeded urandom); what close() would upload is the whole file read to EOF", "reads, writes and size changes are serialised by the caller, as GeneralSFTPFile's request queue does"]
REQUIRED_CLASSES = ["overwrite-ahead", "overwrite-nested-in-pending", "overwrite-overlaps-pending", "overwrite-behind", "overwrite-past-eof", "truncate", "extend", "read-waits-for-download", "read-eof"]
BUDGET = {"quick": 600, "thorough": 3600}


def plan(tier):
    n = 800 if tier == "quick" else 12000
    return [{"kind": "hyp", "n": n} for _ in range(16)]


pos = st.one_of(st.tuples(st.just("dl"), st.integers(-3, 12)), st.tuples(st.just("size"), st.integers(-5, 4)), st.tuples(st.just("ow-start"), st.integers(0, 3), st.integers(-2, 3)),
                st.tuples(st.just("ow-end"), st.integers(0, 3), st.integers(-3, 2)), st.tuples(st.just("abs"), st.integers(0, 220))).map(list)
op = st.one_of(
    st.tuples(st.just("deliver"), st.integers(1, 40)),
    st.tuples(st.just("deliver"), st.integers(1, 8)),
    st.tuples(st.just("overwrite"), pos, st.integers(1, 30), st.integers(0, 9)),
    st.tuples(st.just("overwrite"), pos, st.integers(1, 30), st.integers(0, 9)),
    st.tuples(st.just("overwrite"), pos, st.integers(1, 6), st.integers(0, 9)),
    st.tuples(st.just("set_size"), pos),
    st.tuples(st.just("read"), pos, st.integers(1, 40)),
).map(list)


@st.composite
def cases(draw):
    return {"size": draw(st.sampled_from([0, 1, 10, 50, 100, 200]) | st.integers(0, 200)), "ops": draw(st.lists(op, max_size=20))}


def run_shard(spec, ctx):
    ctx.drive(cases(), spec["n"], run_case)


def run_case(case, ctx):
    from allmydata.frontends.sftpd import OverwriteableFileConsumer
    original = pbytes(1, case["size"])
    from allmydata.util.fileutil import EncryptedTemporaryFile
    c = OverwriteableFileConsumer(len(original), EncryptedTemporaryFile)      # the maker GeneralSFTPFile uses
    model = bytearray(original)
    delivered = 0
    pending_ow = []       # (start, end) of client overwrites not yet passed by the download
    hist = []
    classes = set()
    nt = False
    reads = []            # [offset, length, expected bytes or "eof", result list]

    def resolve(p):
        if p[0] == "dl":
            v = c.downloaded + p[1]
        elif p[0] == "size":
            v = len(model) + p[1]
        elif p[0] in ("ow-start", "ow-end"):
            if not pending_ow:
                v = c.downloaded + 5
            else:
                s, e = pending_ow[p[1] % len(pending_ow)]
                v = (s if p[0] == "ow-start" else e) + p[2]
        else:
            v = p[1]
        return max(0, min(v, 260))

    def deliver(n):
        nonlocal delivered
        if delivered < len(original):
            chunk = original[delivered:delivered + n]
            delivered += len(chunk)
            c.write(chunk)
            boot.drain()
            hist.append(("deliver", len(chunk)))

    def check_reads(final=False):
        for r in reads:
            if r[3] and not r[4]:
                r[4] = True
                res = r[3][0]
                desc = "original=%d bytes history=%r" % (len(original), hist)
                from twisted.python.failure import Failure
                if r[2] == "eof":
                    ctx.check(isinstance(res, Failure) and res.check(EOFError), "read-past-eof", "%s: read(%d,%d) at/after EOF returned %r" % (desc, r[0], r[1], res))
                elif isinstance(res, Failure):
                    ctx.fail("read-failed", "%s: read(%d,%d) failed: %r" % (desc, r[0], r[1], res.value))
                elif res != r[2]:
                    first = next((i for i in range(min(len(res), len(r[2]))) if res[i] != r[2][i]), min(len(res), len(r[2])))
                    ctx.fail("read-differs", "%s: read(offset=%d, length=%d) returned %d bytes; byte %d differs from the contents at the time of the read (a client write was lost or downloaded data was not applied)" % (
                        desc, r[0], r[1], len(res), r[0] + first))
    for o in case["ops"]:
        waiting = any(not r[3] for r in reads)
        kind = o[0]
        if waiting and kind != "deliver":
            kind = "deliver"
            o = ["deliver", 7]
        if kind == "deliver":
            deliver(o[1])
        elif kind == "overwrite":
            off = resolve(o[1])
            data = pbytes(100 + o[3], o[2])
            end = off + len(data)
            hist.append(("overwrite", off, len(data)))
            if off > len(model):
                classes.add("overwrite-past-eof")
            if off >= c.downloaded:
                classes.add("overwrite-ahead")
                for (s, e) in pending_ow:
                    if s <= off and end <= e and (s, e) != (off, end):
                        classes.add("overwrite-nested-in-pending")
                        nt = True
                    elif off < e and s < end:
                        classes.add("overwrite-overlaps-pending")
                        nt = True
            elif end <= c.downloaded:
                classes.add("overwrite-behind")
            c.overwrite(off, data)
            if off > len(model):
                model.extend(b"\0" * (off - len(model)))
            model[off:end] = data
            if end > c.downloaded:
                pending_ow.append((off, end))
        elif kind == "set_size":
            size = resolve(o[1])
            hist.append(("set_size", size))
            classes.add("truncate" if size < len(model) else "extend")
            c.set_current_size(size)
            if size < len(model):
                del model[size:]
                pending_ow[:] = [(s, min(e, size)) for (s, e) in pending_ow if s < size]
            else:
                model.extend(b"\0" * (size - len(model)))
        elif kind == "read":
            off = resolve(o[1])
            ln = o[2]
            hist.append(("read", off, ln))
            res = []
            try:
                d = c.read(off, ln)
            except Exception as e:
                ctx.fail("read-raised", "history=%r: read raised %r" % (hist, e))
                continue
            d.addBoth(res.append)
            exp = "eof" if off >= len(model) else bytes(model[off:off + ln])
            if exp == "eof":
                classes.add("read-eof")
            reads.append([off, ln, exp, res, False])
            boot.drain()
            if not res:
                classes.add("read-waits-for-download")
        pending_ow[:] = [(s, e) for (s, e) in pending_ow if e > c.downloaded]
        boot.drain()
        check_reads()
    # ---- finish the download
    while delivered < len(original):
        deliver(16)
        check_reads()
    boot.drain()
    hist.append(("finish",))
    check_reads()
    desc = "original=%d bytes history=%r" % (len(original), hist)
    for r in reads:
        if not r[3]:
            ctx.fail("read-never-completed", "%s: read(%d,%d) never completed although the download finished" % (desc, r[0], r[1]))
    ctx.check(c.get_current_size() == len(model), "size-differs", "%s: current size %d, model %d" % (desc, c.get_current_size(), len(model)))
    f = c.get_file()
    f.seek(0)
    final = f.read()          # close() hands the whole temporary file to the uploader (FileHandle / MutableFileHandle read to EOF)
    if len(final) != len(model):
        classes.add("final-length-differs")
    if final != bytes(model):
        first = next((i for i in range(min(len(final), len(model))) if final[i] != model[i]), min(len(final), len(model)))
        src = "the original file's byte (downloaded data clobbered a client write)" if first < len(original) and first < len(final) and final[first] == original[first] else "neither the model's nor obviously the original's byte"
        ctx.fail("final-contents-differ", "%s: after the download finished the file differs from the model at offset %d (%d vs %d bytes): it holds %s" % (desc, first, len(final), len(model), src))
    c.close()
    ctx.note(sig=repr(case), nontrivial=nt, classes=sorted(classes), sample={"size": case["size"], "history": hist[:14]})
