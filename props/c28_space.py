"""C28 storage space reservations are honoured (simulated disk)."""
import os
from hypothesis import strategies as st
from vf import boot, store
from vf.core import pbytes

ID = "C28"
LEVEL = "exploration"
ENGINE = "E1 store"
TECHNIQUE = "model-based testing: Hypothesis allocation/write/close/abort/disconnect histories on a real StorageServer over a simulated disk; safety invariant checked at every allocation"
RULE = ("each case: disk capacity, reserved_space and read-only flag are drawn, then <=30 operations (allocate 1-5 shares of a drawn size on one of 4 "
        "storage indexes, write, close, abort, disconnect). At every allocation: sum of in-progress reservations (old + newly granted) <= space available "
        "before the call (capacity - bytes on disk - reserved_space); a read-only server grants nothing; after close/abort/disconnect allocated_size() "
        "equals the model. Non-trivial = an allocation request that does not fit completely (some or all buckets must be refused); distinct by case.")
LEVEL_TEXT = "Random histories on a simulated disk; the over-commit invariant is evaluated against the space the server itself could observe at that moment."
ASSUMPTIONS = ["fileutil.get_disk_stats is replaced by a simulated disk whose 'used' figure is the real size of the files under the storage directory"]
REQUIRED_CLASSES = ["partial-grant", "refused-all", "readonly", "released-by-close", "released-by-abort", "released-by-timeout", "multi-share-request"]
BUDGET = {"quick": 600, "thorough": 3600}


def plan(tier):
    n = 360 if tier == "quick" else 2000
    return [{"kind": "hyp", "n": n} for _ in range(16)]


def cases():
    op = st.one_of(
        st.tuples(st.just("alloc"), st.integers(0, 3), st.integers(1, 31), st.integers(1, 3000), st.integers(0, 1)),
        st.tuples(st.just("alloc"), st.integers(0, 3), st.integers(1, 31), st.integers(0, 3000) | st.sampled_from([0, 0, 1]), st.integers(0, 1)),
        st.tuples(st.just("fill"), st.integers(0, 40), st.integers(0, 100), st.just(0), st.just(0)),
        st.tuples(st.just("close"), st.integers(0, 40), st.just(0), st.just(0), st.just(0)),
        st.tuples(st.just("abort"), st.integers(0, 40), st.just(0), st.just(0), st.just(0)),
        st.tuples(st.just("disconnect"), st.integers(0, 1), st.just(0), st.just(0), st.just(0)),
        st.tuples(st.just("stall"), st.sampled_from([60, 1000, 1799, 1800, 1801, 4000]), st.just(0), st.just(0), st.just(0)),
    )
    return st.fixed_dictionaries({"capacity": st.integers(0, 20000) | st.sampled_from([0, 5000, 10000]), "reserved": st.integers(0, 6000) | st.just(0),
                                  "readonly": st.sampled_from([False, False, False, True]), "ops": st.lists(op, min_size=1, max_size=30)})


def run_shard(spec, ctx):
    ctx.drive(cases(), spec["n"], run_case)


def run_case(case, ctx):
    from allmydata.storage.server import FoolscapStorageServer
    d = ctx.casedir()
    boot.cancel_all_timers()
    srv = os.path.join(d, "srv")
    disk = store.Disk(case["capacity"])
    disk.install(srv)
    classes = set()
    nt = False
    try:
        ss = store.make_server(srv, reserved_space=case["reserved"], readonly_storage=case["readonly"])
        fss = FoolscapStorageServer(ss)
        conns = [store.Canary(), store.Canary()]
        ups = []  # dict(si, sh, size, bw, conn, state)

        def open_ups():
            return [u for u in ups if u["state"] == "open"]
        done = set()
        for step, op in enumerate(case["ops"]):
            kind = op[0]
            what = "step %d %r (capacity=%d reserved=%d readonly=%s)" % (step, list(op), case["capacity"], case["reserved"], case["readonly"])
            if kind == "alloc":
                _, si_i, mask, size, ci = op
                shnums = {s for s in range(5) if (mask >> s) & 1}
                used = store.tree_size(srv)
                avail = max(0, max(0, case["capacity"] - used) - case["reserved"])
                before = sum(u["size"] for u in open_ups())
                try:
                    already, writers = fss.remote_allocate_buckets(store.si(si_i), store.secret(ci, b"r"), store.secret(ci, b"c"), shnums, size, conns[ci])
                except Exception as e:
                    # e.g. NoSpace while adding a lease to an existing share on a full disk: a refusal of the whole request
                    classes.add("allocate-raised:%s" % type(e).__name__)
                    already, writers = set(), {}
                busy = {u["sh"] for u in open_ups() if u["si"] == si_i}
                new = shnums - {sh for (s, sh) in done if s == si_i} - busy
                ctx.check(set(writers) <= new, "allocate-grant", "%s: granted %r outside the requested new shares %r" % (what, sorted(writers), sorted(new)))
                granted = len(writers) * size
                if case["readonly"]:
                    ctx.check(not writers, "readonly-granted", "%s: read-only server granted %r" % (what, sorted(writers)))
                    classes.add("readonly")
                ctx.check(before + granted <= avail or not writers, "over-commit",
                          "%s: accepted %d x %d bytes with %d already in progress; total %d exceeds available %d (disk %d - used %d - reserved %d)" % (
                              what, len(writers), size, before, before + granted, avail, case["capacity"], used, case["reserved"]))
                if len(new) > 1:
                    classes.add("multi-share-request")
                if new and len(writers) < len(new):
                    classes.add("partial-grant" if writers else "refused-all")
                    nt = True
                for sh, w in writers.items():
                    ups.append({"si": si_i, "sh": sh, "size": size, "bw": w, "conn": ci, "state": "open"})
            elif kind in ("fill", "close", "abort"):
                cand = open_ups()
                if not cand:
                    continue
                u = cand[op[1] % len(cand)]
                if u["size"] == 0:
                    u["w"] = True          # nothing to write into an empty share (zero-length writes are not part of the protocol)
                    classes.add("zero-size-share")
                    if kind == "fill":
                        continue
                if kind != "fill" or not u.get("w"):
                    u["idle"] = 0          # a call really reaches the server and restarts its inactivity timer
                try:
                    if kind == "fill":
                        ln = max(1, u["size"] * (1 + op[2]) // 101)
                        u["bw"].remote_write(0, pbytes(step, ln)) if not u.get("w") else None
                        u["w"] = True
                    elif kind == "close":
                        if not u.get("w"):
                            u["bw"].remote_write(0, pbytes(step, u["size"]))
                        u["bw"].remote_close()
                        u["state"] = "closed"
                        done.add((u["si"], u["sh"]))
                        classes.add("released-by-close")
                    else:
                        u["bw"].remote_abort()
                        u["state"] = "aborted"
                        classes.add("released-by-abort")
                except Exception as e:
                    ctx.fail("op-raised", "%s: %r" % (what, e))
                    return
            elif kind == "stall":
                # nobody touches the open uploads for a while: after 30 minutes without activity the server itself aborts them
                for u in open_ups():
                    u["idle"] = u.get("idle", 0) + op[1]
                try:
                    boot.R.advance(op[1])
                except Exception as e:
                    ctx.fail("timeout-raised", "%s: advancing the clock by %d s raised %r" % (what, op[1], e))
                    return
                for u in open_ups():
                    if u["idle"] >= 1800:
                        u["state"] = "timed-out"
                        classes.add("released-by-timeout")
            elif kind == "disconnect":
                ci = op[1]
                for u in open_ups():
                    if u["conn"] == ci:
                        u["state"] = "disconnected"
                        classes.add("released-by-disconnect")
                conns[ci].disconnect()
            exp = sum(u["size"] for u in open_ups())
            ctx.check(ss.allocated_size() == exp, "reservation-not-released", "%s: allocated_size()=%d but uploads in progress hold %d" % (what, ss.allocated_size(), exp))
    finally:
        disk.uninstall()
        boot.cancel_all_timers()
    ctx.note(sig=repr(case), nontrivial=nt, classes=sorted(classes), sample=dict(case, ops=case["ops"][:12]))
