"""C34 introducer announcements are authentic and fresh."""
import json, hashlib
from hypothesis import strategies as st
from vf import boot

ID = "C34"
LEVEL = "exploration"
ENGINE = "E0 pure"
TECHNIQUE = ("model-based testing: Hypothesis-generated streams of announcement batches from several ed25519 keys (valid, signed by another key than claimed, flipped message "
             "or signature bytes, well-formed signature fields of the wrong decoded length (0..128 bytes), unsigned, non-v0 or undecodable signature/key fields, replays, reorderings, missing and non-integer sequence numbers, unsubscribed services) "
             "fed to a real IntroducerClient with a subscriber; dictionary model of the documented replacement rule; delivered announcements compared with the model")
RULE = ("each case: 2-4 keys, 1-6 batches of 1-5 announcements. Model: an announcement is processed iff its signature verifies under the key it claims; per (service, key) the "
        "first one is stored, an identical one is ignored, one with an integer seqnum greater than the stored seqnum replaces it, one with an equal/lower/missing/non-integer "
        "seqnum never replaces a stored one that has a seqnum. Oracle: the subscriber receives exactly the model's accepted announcements, in order, each attributed to its "
        "signing key, and every well-formed valid announcement of a batch is processed whatever else the batch contains. When the stored seqnum is itself not an integer "
        "only 'no downgrade and the rest of the batch is processed' is asserted. Non-trivial = a batch mixing an invalid announcement with later valid ones, or a replay/"
        "lower seqnum after a higher one; distinct by whole case.")
LEVEL_TEXT = "Random announcement streams against a dictionary model of the replacement rule."
ASSUMPTIONS = ["each element of a batch is a 3-tuple (msg, sig, key) of bytes or None, as the Foolscap schema enforces", "ed25519 from the cryptography package is sound"]
REQUIRED_CLASSES = ["bad-then-valid-in-batch", "wrong-key", "flipped", "unsigned", "malformed-encoding", "sig-wrong-length", "signed-but-malformed-contents", "replay", "lower-seqnum", "equal-seqnum", "replaced", "nonint-seqnum", "other-service"]
BUDGET = {"quick": 600, "thorough": 3600}
KINDS = ["valid", "valid", "valid", "valid", "wrong-key", "flip-msg", "flip-sig", "unsigned", "sig-no-v0", "key-no-v0", "sig-bad-b32", "key-bad-b32", "key-short", "sig-len", "sig-len", "signed-garbage", "signed-garbage", "replay", "other-service"]


def plan(tier):
    n = 500 if tier == "quick" else 8000
    return [{"kind": "hyp", "n": n} for _ in range(16)]


ann = st.fixed_dictionaries({"kind": st.sampled_from(KINDS), "key": st.integers(0, 3), "key2": st.integers(0, 3),
                             "seq": st.one_of(st.integers(0, 5), st.integers(0, 5), st.none(), st.sampled_from(["3", 2.5, [1], True])), "payload": st.integers(0, 2), "pos": st.integers(0, 400)})


@st.composite
def cases(draw):
    return {"batches": draw(st.lists(st.lists(ann, min_size=1, max_size=5), min_size=1, max_size=6))}


def run_shard(spec, ctx):
    ctx.drive(cases(), spec["n"], run_case)


def keypair(n):
    from allmydata.crypto import ed25519
    from allmydata.util import base32
    return ed25519.signing_keypair_from_string(b"priv-v0-" + base32.b2a(hashlib.sha256(b"intro-key-%d" % n).digest()))


def run_case(case, ctx):
    import os
    from twisted.python.filepath import FilePath
    from allmydata.introducer.client import IntroducerClient
    from allmydata.introducer.common import sign_to_foolscap
    from allmydata.crypto import ed25519
    d = ctx.casedir()
    ic = IntroducerClient(None, "pb://x@y/z", u"nick", "v", "o", lambda: (1, "n"), FilePath(d).child("cache.yaml"))
    got = []
    ic.subscribe_to("storage", lambda key, a: got.append((key, a)))
    boot.drain()
    keys = [keypair(i) for i in range(4)]
    keystr = [ed25519.string_from_verifying_key(k[1])[4:] for k in keys]      # b"v0-..."
    model = {}          # (service, key) -> ann dict
    expect = []
    sent = []           # valid tuples sent so far (for replays)
    classes = set()
    nt = False
    for bi, batch in enumerate(case["batches"]):
        tuples = []
        exp_batch = []
        had_bad = False
        fuzzy = False
        for a in batch:
            kind = a["kind"]
            service = "storage" if kind != "other-service" else "stub_client"
            body = {"service-name": service, "anonymous-storage-FURL": "pb://%s@nowhere/s%d" % ("a" * 32, a["key"]), "nickname": u"n%d" % a["key"], "payload": a["payload"]}
            if a["seq"] is not None:
                body["seqnum"] = a["seq"]
            sk, vk = keys[a["key"]]
            t = sign_to_foolscap(body, sk)
            valid = True
            if kind == "replay" and sent:
                t, body, keyidx = sent[a["pos"] % len(sent)]
                a = dict(a, key=keyidx)
                service = body["service-name"]
                classes.add("replay")
                nt = True
            elif kind == "replay":
                kind = "valid"
            if kind == "wrong-key":
                if a["key2"] == a["key"]:
                    kind = "valid"
                else:
                    t = (t[0], t[1], keystr[a["key2"]])
                    valid = False
                    classes.add("wrong-key")
            elif kind == "flip-msg":
                i = a["pos"] % len(t[0])
                t = (t[0][:i] + bytes([t[0][i] ^ 1]) + t[0][i + 1:], t[1], t[2])
                valid = False
                classes.add("flipped")
            elif kind == "flip-sig":
                # change one base32 character of the signature into another alphabet character
                s = t[1]
                i = 3 + a["pos"] % (len(s) - 4)       # not the last character (its spare bits must stay canonical)
                repl = b"a" if s[i:i + 1] != b"a" else b"b"
                t = (t[0], s[:i] + repl + s[i + 1:], t[2])
                valid = False
                classes.add("flipped")
            elif kind == "unsigned":
                t = (t[0], None, None) if a["pos"] % 2 else (t[0], b"", b"")
                valid = False
                classes.add("unsigned")
            elif kind == "sig-no-v0":
                t = (t[0], t[1][3:], t[2])
                valid = False
                classes.add("malformed-encoding")
            elif kind == "key-no-v0":
                t = (t[0], t[1], t[2][3:])
                valid = False
                classes.add("malformed-encoding")
            elif kind == "sig-bad-b32":
                t = (t[0], t[1][:10] + b"!" + t[1][11:], t[2])
                valid = False
                classes.add("malformed-encoding")
            elif kind == "key-bad-b32":
                t = (t[0], t[1], t[2][:10] + b"1" + t[2][11:])
                valid = False
                classes.add("malformed-encoding")
            elif kind == "sig-len":
                # a well-formed "v0-"+base32 signature field whose decoded length is not (or is) 64 bytes
                from allmydata.util import base32
                raw = base32.a2b(t[1][3:])
                n = [0, 1, 32, 63, 65, 96, 128, 64][a["pos"] % 8]
                raw2 = (raw + raw)[:n] if n != 64 else bytes(64)
                t = (t[0], b"v0-" + base32.b2a(raw2), t[2])
                valid = False
                classes.add("sig-wrong-length" if n != 64 else "flipped")
            elif kind == "signed-garbage":
                # properly signed by the claimed key, but the contents are not a usable announcement (anybody can do this with a key of their own)
                from allmydata.util import jsonbytes as _json
                from allmydata.crypto import ed25519 as _ed
                from allmydata.util import base32 as _b32
                bad_body = [[1], {"nickname": u"x"}, dict(body, nickname=5), dict(body, **{"anonymous-storage-FURL": "bogus"}), dict(body, **{"service-name": 7})][a["pos"] % 5]
                msg_ = _json.dumps(bad_body).encode("utf-8")
                sig_ = b"v0-" + _b32.b2a(_ed.sign_data(sk, msg_))
                t = (msg_, sig_, keystr[a["key"]])
                valid = False
                classes.add("signed-but-malformed-contents")
            elif kind == "key-short":
                t = (t[0], t[1], t[2][:-4])
                valid = False
                classes.add("malformed-encoding")
            tuples.append(t)
            if not valid:
                had_bad = True
                continue
            if had_bad:
                classes.add("bad-then-valid-in-batch")
                nt = True
            if kind in ("valid", "other-service") or kind == "replay":
                sent.append((t, body, a["key"]))
            if service != "storage":
                classes.add("other-service")
                continue
            idx = (service, keystr[a["key"]])
            old = model.get(idx)
            if old is None:
                accept = True
            elif old == body:
                accept = False
            elif "seqnum" in old:
                if not isinstance(old["seqnum"], int) or isinstance(old["seqnum"], bool) and False:
                    fuzzy = True          # the stored seqnum is not an integer: comparison semantics are not specified
                    accept = None
                elif "seqnum" not in body or not isinstance(body["seqnum"], int):
                    accept = False
                    classes.add("nonint-seqnum")
                elif body["seqnum"] <= old["seqnum"]:
                    accept = False
                    classes.add("equal-seqnum" if body["seqnum"] == old["seqnum"] else "lower-seqnum")
                    nt = True
                else:
                    accept = True
                    classes.add("replaced")
            else:
                accept = True
            if accept is None:
                exp_batch.append(("maybe", idx, body))
            elif accept:
                model[idx] = body
                exp_batch.append(("yes", idx, body))
            if "seqnum" in body and not isinstance(body["seqnum"], int):
                classes.add("nonint-seqnum")
        n0 = len(got)
        desc = "batch %d of %r" % (bi, case["batches"])
        try:
            ic.got_announcements(tuples)
            boot.drain()
            crashed = None
        except Exception as e:
            crashed = e
        new = got[n0:]
        if crashed is not None:
            ctx.fail("batch-aborted", "%s: got_announcements raised %s: %s; delivered from this batch: %d of the %d the model accepts" % (desc, type(crashed).__name__, str(crashed)[:200], len(new), len([e for e in exp_batch if e[0] == "yes"])),
                     exc=type(crashed).__name__)
        # compare deliveries with the model (entries marked 'maybe' may or may not appear)
        gi = 0
        for (flag, idx, body) in exp_batch:
            if gi < len(new) and new[gi] == (idx[1], body):
                gi += 1
                if flag == "maybe":
                    model[idx] = body
            elif flag == "yes":
                ctx.fail("not-delivered", "%s: the model accepts the announcement %r from key %d but the subscriber got %r" % (desc, body, keystr.index(idx[1]), [(keystr.index(k), a.get("seqnum"), a.get("payload")) for k, a in new]))
        if gi != len(new):
            k, a2 = new[gi]
            ctx.fail("unexpected-delivery", "%s: the subscriber received %r attributed to key %s, which the model does not accept (forged, replayed, or not newer)" % (desc, a2, keystr.index(k) if k in keystr else k))
        if fuzzy:
            classes.add("stored-nonint-seqnum")
    ctx.note(sig=repr(case), nontrivial=nt, classes=sorted(classes), sample={"batches": [[(a["kind"], a["key"], a["seq"]) for a in b] for b in case["batches"]][:4], "delivered": len(got)})
