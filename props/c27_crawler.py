"""C27 share crawler covers every bucket each cycle, under every interruption/restart/kill pattern."""
import os, itertools
from vf import boot, store

ID = "C27"
LEVEL = "fault_enumeration"
ENGINE = "E1 store"
TECHNIQUE = "exhaustive enumeration of time-slice interruption subsets, restart choices and kill points for small bucket layouts (clock owned by the harness), invariant over the processing log"
RULE = ("for each bucket layout (<=6 buckets over <=3 of the 1024 prefixes, including first/last prefix and single-bucket prefixes): every subset of interruption "
        "points (after each bucket, after each non-empty prefix), each combined with {resume in process, restart from the state file after every interruption, "
        "alternate} and with {no kill, kill (no state saved) at each point}; two consecutive cycles are driven. Oracle: every bucket processed >=1 per cycle, "
        "exactly once in cycles without a kill, last-cycle-finished increases by exactly 1 per completed cycle. Non-trivial = pattern with >=1 interruption or kill; "
        "distinct by (layout, mask, restart mode, kill point).")
LEVEL_TEXT = "Complete enumeration of interruption/kill schedules within the stated bounds; the crawler's clock is stepped by the harness so that TimeSliceExceeded fires exactly at the chosen points."
ASSUMPTIONS = ["a kill is modelled as abandoning the crawler object without save_state() and building a new one from the persisted state file",
               "the bucket set does not change during a cycle"]
EXHAUSTIVE = {"quick": True, "thorough": True}
REQUIRED_CLASSES = ["interrupt-mid-prefix", "interrupt-prefix-end", "restart-from-state", "kill", "lease-checking-crawler", "kill-after-finished-cycle"]
BUDGET = {"quick": 900, "thorough": 3600}

LAYOUTS_QUICK = [[(0, 2), (500, 1), (1023, 2)], [(3, 3), (4, 1)]]
LAYOUTS_THOROUGH = LAYOUTS_QUICK + [[(0, 1), (1, 1), (2, 1)], [(1023, 4)], [(7, 2), (8, 2), (900, 2)], [(0, 3), (1023, 3)]]


def npoints(layout):
    return sum(n for _, n in layout) + len(layout)


def plan(tier):
    layouts = LAYOUTS_QUICK if tier == "quick" else LAYOUTS_THOROUGH
    shards = []
    for li, lay in enumerate(layouts):
        total = 1 << npoints(lay)
        parts = 8
        step = max(1, total // parts)
        for i in range(0, total, step):
            shards.append({"kind": "ex", "layout": lay, "lo": i, "hi": min(total, i + step)})
    return shards


def run_shard(spec, ctx):
    lay = spec["layout"]
    P = npoints(lay)

    def gen():
        for mask in range(spec["lo"], spec["hi"]):
            for restart in ("never", "always", "alternate"):
                if restart != "never" and mask == 0:
                    continue
                yield {"layout": lay, "mask": mask, "restart": restart, "kill": None}
            # kills: one kill point per case, restart mode 'never' for the other interruptions
            if bin(mask).count("1") <= 2:
                for k in range(P + 1):       # k == P: killed after the end-of-cycle work (finished_cycle) but before the state file records the finished cycle
                    yield {"layout": lay, "mask": mask, "restart": "never", "kill": k}
            if bin(mask).count("1") <= 1:
                # the same with the real lease-checking crawler class (its own state/history handling on top of ShareCrawler)
                for k in [None] + list(range(P + 1)):
                    yield {"layout": lay, "mask": mask, "restart": "never" if k is not None else "always", "kill": k, "cls": "lease"}
    ctx.enumerate(gen(), run_case)


class Kill(BaseException):
    pass


def run_case(case, ctx):
    from allmydata.storage.crawler import ShareCrawler, TimeSliceExceeded
    d = ctx.casedir()
    R = boot.R
    ss = store.make_server(os.path.join(d, "srv"))
    layout = [tuple(x) for x in case["layout"]]
    statefile = os.path.join(d, "crawler.state")
    log = []          # (cycle, bucket)
    env = {"point": 0, "mask": case["mask"], "kill": ("end" if case["kill"] == npoints(layout) else case["kill"]), "killed_cycles": set(), "cycle": None}
    classes0 = ["lease-checking-crawler"] if case.get("cls") == "lease" else []
    if case["kill"] == npoints(layout):
        classes0.append("kill-after-finished-cycle")

    lease = case.get("cls") == "lease"
    if lease:
        from allmydata.storage.expirer import LeaseCheckingCrawler
        histfile = os.path.join(d, "crawler.history")

        class Base(LeaseCheckingCrawler):
            def __init__(self, server, statefile):
                LeaseCheckingCrawler.__init__(self, server, statefile, histfile, False, "age", None, None, ("mutable", "immutable"))
    else:
        Base = ShareCrawler

    class C(Base):
        cpu_slice = 1.0
        minimum_cycle_time = 0

        def finished_cycle(self, cycle):
            Base.finished_cycle(self, cycle)
            if cycle == 0 and env["kill"] == "end":
                env["kill"] = None
                env["killed_cycles"].add(cycle)
                raise Kill()

        def process_bucket(self, cycle, prefix, prefixdir, storage_index_b32):
            if lease:
                # the lease checker's own per-bucket work (lease-age and leases-per-share histograms, space accounting), whose state must survive restarts too
                Base.process_bucket(self, cycle, prefix, prefixdir, storage_index_b32)
            log.append((cycle, storage_index_b32))
            env["cycle"] = cycle
            self._point(cycle)

        def finished_prefix(self, cycle, prefix):
            if prefix in nonempty:
                self._point(cycle)

        def _point(self, cycle):
            p = env["point"]
            env["point"] += 1
            if cycle != 0:
                return  # the pattern is applied to the first cycle; the second runs (mostly) undisturbed
            if env["kill"] == p:
                env["kill"] = None
                env["killed_cycles"].add(cycle)
                raise Kill()
            if (env["mask"] >> p) & 1:
                R.advance(2.0)   # exceed the time slice: TimeSliceExceeded fires right after this bucket/prefix

    probe = C(ss, statefile)
    prefixes = probe.prefixes
    nonempty = set()
    buckets = []
    for (pi, n) in layout:
        pre = prefixes[pi]
        nonempty.add(pre)
        for j in range(n):
            name = pre + "bucket%02d" % j
            os.makedirs(os.path.join(ss.sharedir, pre, name))
            buckets.append(name)
            if lease:
                # a real immutable share with one lease in every bucket
                from allmydata.storage.immutable import ShareFile
                from allmydata.storage.lease import LeaseInfo
                sf = ShareFile(os.path.join(ss.sharedir, pre, name, "0"), max_size=10, create=True)
                sf.write_share_data(0, b"0123456789")
                sf.add_lease(LeaseInfo(0, b"r" * 32, b"c" * 32, int(R.seconds()) + 31 * 86400, b"n" * 20))
    c = C(ss, statefile)
    classes = set(classes0)
    interruptions = 0
    finished = []
    guard = 0
    while len(finished) < 2:
        guard += 1
        if guard > 200:
            ctx.fail("no-progress", "crawler did not finish two cycles in 200 slices: %r log=%r" % (case, log[-10:]))
            return
        before = c.state["last-cycle-finished"]
        try:
            c.start_slice()
        except Kill:
            classes.add("kill")
            c = C(ss, statefile)     # restart from whatever was persisted
            continue
        after = c.state["last-cycle-finished"]
        if after != before:
            exp = 0 if before is None else before + 1
            ctx.check(after == exp, "cycle-number", "last-cycle-finished went %r -> %r (%r)" % (before, after, case))
            finished.append(after)
            env["point"] = 0
        else:
            interruptions += 1
            # which kind of point stopped us?
            lcb = c.state["last-complete-bucket"]
            classes.add("interrupt-prefix-end" if c.last_complete_prefix_index >= 0 and (lcb is None or prefixes[c.last_complete_prefix_index] == lcb[:2]) else "interrupt-mid-prefix")
            r = case["restart"]
            if r == "always" or (r == "alternate" and interruptions % 2 == 1):
                classes.add("restart-from-state")
                c = C(ss, statefile)
    for cyc in finished:
        seen = [b for (cy, b) in log if cy == cyc]
        missing = [b for b in buckets if b not in seen]
        ctx.check(not missing, "bucket-skipped", "cycle %d never processed %r (pattern %r; processing order %r)" % (cyc, missing, case, seen))
        if cyc not in env["killed_cycles"]:
            dup = sorted({b for b in seen if seen.count(b) > 1})
            ctx.check(not dup, "bucket-repeated", "cycle %d processed %r more than once although no kill happened (pattern %r; processing order %r)" % (cyc, dup, case, seen))
    ctx.check(finished == [0, 1], "cycle-number", "completed cycles %r" % finished)
    boot.cancel_all_timers()
    nt = case["mask"] != 0 or case["kill"] is not None
    ctx.note(sig=(tuple(layout), case["mask"], case["restart"], case["kill"], case.get("cls")), nontrivial=nt, classes=sorted(classes),
             sample={"case": case, "processing_order_cycle0": [b for (cy, b) in log if cy == 0]})
