"""C12 concurrent writers are detected, never silently clobbered."""
import itertools, struct
from hypothesis import strategies as st
from vf import boot, mutfile
from vf.core import pbytes
from vf.grid import Grid

ID = "C12"
LEVEL = "exploration"
ENGINE = "E2 detgrid"
TECHNIQUE = ("bounded-exhaustive enumeration of delivery schedules (every choice prefix over the pending-message queue up to a fixed depth) for two writers on small grids + "
             "Hypothesis random schedules for 2-3 writers on up to 10 servers; a wire-level monitor compares, for every applied test-and-set write, the share's on-disk "
             "checkstring just before the write with the checkstring that writer last received from that server; client-side and final-state oracles")
RULE = ("each case: an SDMF or MDMF file with (k,N) on either side of (W+1)k<=N, created by one client on 2-10 servers; then W in {2,3} clients holding the same write cap "
        "each start one overwrite at the same time; one generator-owned schedule interleaves all their survey, write and response messages. Monitor: whenever a server "
        "applies a write to an existing share, the (version, seqnum, root hash) on disk immediately before must be what that client last read from or wrote to that server "
        "for that share. Client oracle: a writer that received a refused (test vector failed) answer ends with UncoordinatedWriteError. Final state: with (W+1)k<=N some "
        "version is recoverable by a full survey and its contents are the original's or one writer's. Non-trivial = at least two writers' write messages were delivered to a "
        "common server and at least one write was refused or a writer failed; distinct by whole case.")
LEVEL_TEXT = "Exhaustive over schedule prefixes for the smallest configurations, random beyond; the clobber oracle is evaluated at the server, independent of what clients report."
ASSUMPTIONS = ["no writer stops midway and servers are honest (faults are C47)", "exhaustive part: all choice prefixes of the stated depth, FIFO afterwards (not every interleaving of the whole run)"]
REQUIRED_CLASSES = ["share-lost-before-race", "both-ok", "one-ucwe", "all-ucwe", "refused-write", "bound-holds", "bound-violated", "mdmf", "sdmf", "three-writers"]
BUDGET = {"quick": 900, "thorough": 7200}
W = "slot_testv_and_readv_and_writev"


def plan(tier):
    if tier == "quick":
        return [{"kind": "exh", "depth": 6, "width": 3, "part": i, "parts": 6, "fmt": "sdmf" if i % 2 else "mdmf"} for i in range(6)] + [{"kind": "hyp", "n": 80} for _ in range(10)]
    return [{"kind": "exh", "depth": 8, "width": 3, "part": i, "parts": 8, "fmt": "sdmf" if i % 2 else "mdmf"} for i in range(8)] + [{"kind": "hyp", "n": 3000} for _ in range(16)]


@st.composite
def cases(draw):
    w = draw(st.sampled_from([2, 2, 3]))
    k = draw(st.integers(1, 3))
    n = draw(st.integers(k, 10))
    return {"hsalt": draw(st.integers(0, 15)), "threads": draw(st.sampled_from(["sync", "async", "held"])), "fmt": draw(st.sampled_from(["sdmf", "mdmf"])), "k": k, "n": n, "servers": draw(st.integers(2, 10)), "writers": w, "size": draw(st.sampled_from([0, 1, 20, 70])),
            "lost": draw(st.lists(st.integers(0, 9), max_size=2)),
            "sched": draw(st.lists(st.integers(0, 14), max_size=draw(st.sampled_from([10, 60, 300]))))}


def exhaustive(spec):
    out = []
    for i, pre in enumerate(itertools.product(range(spec["width"]), repeat=spec["depth"])):
        for (k, n, servers) in ((1, 3, 2), (1, 2, 3)):
            out.append({"fmt": spec["fmt"], "k": k, "n": n, "servers": servers, "writers": 2, "size": 20, "sched": list(pre), "lifo_tail": i % 2 == 1, "lost": [i] if i % 3 == 0 else []})
    return out[spec["part"]::spec["parts"]]


def run_shard(spec, ctx):
    if spec["kind"] == "exh":
        ctx.enumerate(exhaustive(spec), run_case)
    else:
        ctx.drive(cases(), spec["n"], run_case)


def checkstring(data):
    return bytes(data[:41]) if data is not None and len(data) >= 41 else None


def run_case(case, ctx):
    from vf import boot as _boot
    _boot.set_thread_mode(case.get("threads") or "sync")      # defer_to_thread answered in a later reactor turn (as in production) or synchronously
    from allmydata.mutable.common import UncoordinatedWriteError
    k, n, fmt, nw = case["k"], case["n"], case["fmt"], case["writers"]
    mutfile.set_segsize(64)
    g = Grid(ctx.casedir(), case["servers"], {"k": k, "n": n, "happy": 1, "max_segment_size": 131072}, nclients=nw + 1)
    classes = {fmt}
    seen = {}          # (client, server, shnum) -> checkstring bytes | "absent"
    refused = set()    # clients that got wrote=False
    applied = []       # (client, server, shnums)
    problems = []

    def on_disk(srv, si, shnum):
        p = srv.share_paths(si).get(shnum)
        if not p:
            return None
        from allmydata.storage.mutable import MutableShareFile
        return checkstring(MutableShareFile(p).readv([(0, 41)])[0])

    def ob(m, phase, res):
        if phase != "delivered" or res[0] != "ok":
            return
        if m.meth == "slot_readv":
            si, shares, readv = m.args
            first = next((i for i, (o, l) in enumerate(readv) if o == 0 and l >= 41), None)
            if first is not None:
                for sh, datav in res[1].items():
                    cs = checkstring(datav[first])
                    if cs:
                        seen[(m.client, m.server.idx, sh)] = cs
                if not shares:
                    for key in [kk for kk in seen if kk[0] == m.client and kk[1] == m.server.idx and kk[2] not in res[1]]:
                        seen[key] = "absent"
        elif m.meth == W:
            wrote, readdata = res[1]
            if not wrote:
                refused.add(m.client)
                classes.add("refused-write")

    def before(srv, m):
        if m.meth != W:
            return
        si, secrets, tw, rv = m.args
        m_pre = {sh: on_disk(srv, si, sh) for sh in tw}
        m.__class__.pre = None
        srv._pre = (m.mid, m_pre)

    def after(m, phase, res):
        if phase != "delivered" or m.meth != W or res[0] != "ok" or not res[1][0]:
            return
        srv = m.server
        mid, pre = srv._pre
        si, secrets, tw, rv = m.args
        for sh, (testv, writev, newlen) in tw.items():
            if not writev and newlen is None:
                continue
            p = pre.get(sh)
            if p is not None:
                last = seen.get((m.client, srv.idx, sh))
                if last != p:
                    def d(cs):
                        return "absent/never seen" if cs in (None, "absent") else "seq%d %s" % (struct.unpack(">Q", cs[1:9])[0], cs[9:13].hex())
                    problems.append("client %d overwrote share %d on server %d which held %s, but that client had last seen %s there (test vector sent: %r)" % (
                        m.client, sh, srv.idx, d(p), d(last), [(o, l, op, (s[:13].hex() if isinstance(s, bytes) else s)) for (o, l, op, s) in testv]))
            now = on_disk(srv, si, sh)
            if now:
                seen[(m.client, srv.idx, sh)] = now
        applied.append((m.client, srv.idx, tuple(tw)))
    g.sched.observers.append(ob)
    g.sched.observers.append(after)
    for s in g.servers:
        s.before = before
    try:
        original = pbytes(9, case["size"])
        r = mutfile.create(g, g.clients[0], fmt, original)
        if r[0] != "ok":
            ctx.fail("create-failed", "create failed: %r" % (r,))
            return
        cap = r[1].get_uri()
        # some servers have lost their share before the race: every writer will try to put it back
        import os as _os
        paths = g.all_share_paths(r[1].get_storage_index())
        for li in case.get("lost", []):
            if len(paths) > k:
                (s_, sh_, p_) = paths.pop(li % len(paths))
                _os.unlink(p_)
                classes.add("share-lost-before-race")
        nodes = [g.clients[1 + i].nodemaker.create_from_cap(cap) for i in range(nw)]
        contents = [pbytes(20 + i, 10 + i) for i in range(nw)]
        g.sched.choices, g.sched.ci = list(case["sched"]), 0
        if case.get("lifo_tail"):
            g.sched.choices += [-0] * 0
        ds = [nd.overwrite(mutfile.mdata(c)) for nd, c in zip(nodes, contents)]
        res = g.sched.run_all(ds, maxsteps=20000)
        g.sched.settle()
        desc = "fmt=%s k=%d N=%d servers=%d writers=%d schedule=%r" % (fmt, k, n, case["servers"], nw, case["sched"][:40])
        if problems:
            ctx.fail("clobber", "%s: %s" % (desc, problems[0]))
        outs = []
        for i, r in enumerate(res):
            cid = 1 + i
            if r[0] == "hang":
                ctx.fail("hang", "%s: writer %d never finished" % (desc, cid))
            o = "ok" if r[0] == "ok" else type(r[1]).__name__
            outs.append(o)
            if cid in refused:
                ctx.check(r[0] == "err" and isinstance(r[1], UncoordinatedWriteError), "refusal-not-reported", "%s: a server refused writer %d's test-and-set write (share changed), yet its overwrite ended with %s" % (desc, cid, o), outcome=o)
        ucwe = sum(1 for o in outs if o == "UncoordinatedWriteError")
        classes.add("both-ok" if ucwe == 0 else ("all-ucwe" if ucwe == nw else "one-ucwe"))
        for o in outs:
            if o not in ("ok", "UncoordinatedWriteError"):
                classes.add("writer-error:" + o)
        bound = (nw + 1) * k <= n
        classes.add("bound-holds" if bound else "bound-violated")
        if nw == 3:
            classes.add("three-writers")
        rd = g.add_client()
        node = rd.nodemaker.create_from_cap(cap)
        rr = mutfile.read_full_survey(g, rd, node)
        if rr[0] == "ok":
            ctx.check(rr[1] in [original] + contents, "foreign-contents", "%s: after the race the best recoverable version holds %d bytes that nobody wrote" % (desc, len(rr[1])))
            classes.add("recoverable")
        else:
            classes.add("unrecoverable-after-race")
            if bound:
                ctx.fail("unrecoverable", "%s: (writers+1)*k <= N but no version is recoverable after the race (outcomes %r): %r" % (desc, outs, rr[1]))
    finally:
        g.stop()
        mutfile.restore_segsize()
    common = {}
    for (c, s, shs) in applied:
        common.setdefault(s, set()).add(c)
    nt = any(len(v) > 1 for v in common.values()) or bool(refused) and (bool(refused) or ucwe)
    nt = (any(len(v) > 1 for v in common.values()) or bool(refused)) and (bool(refused) or ucwe > 0)
    ctx.note(sig=repr(sorted(case.items())), nontrivial=nt, classes=sorted(classes), sample={"fmt": fmt, "k": k, "n": n, "servers": case["servers"], "writers": nw, "schedule": case["sched"][:20], "outcomes": outs, "refused": sorted(refused)})
