"""C44 helper-assisted uploads are equivalent to direct uploads."""
import os
from hypothesis import strategies as st
from vf import boot, peers
from vf.core import pbytes
from vf.grid import Grid, ClientNode, read_node

ID = "C44"
LEVEL = "fault_enumeration"
ENGINE = "E2 detgrid"
TECHNIQUE = ("differential + fault enumeration: Hypothesis-generated files/encodings uploaded directly on one in-process grid and through a real upload Helper on a twin grid "
             "(same server identities), with every client<->helper<->server message owned by the scheduler; the ciphertext transfer is cut after the j-th fetched chunk "
             "(helper chunk size shrunk by the harness) and resumed by a fresh client object; oracles: equal caps, share data equal share-number by share-number on both "
             "grids, a further upload of the same file is answered 'already present' with no ciphertext fetched and no share written")
RULE = ("each case: k<=3, N<=5, file of 1-6 helper chunks (chunk size 100-400 bytes), 1-3 segments, a convergence secret; phase 1 direct upload on grid A; phase 2 on grid B "
        "a helper upload interrupted after j in [0, #chunks) read_encrypted answers (the client's connection to the helper drops), then a new client with the same secret "
        "uploads again through the same helper (which still holds the partial ciphertext); phase 3 a third client uploads the same file again. Oracle: resumed upload "
        "succeeds with exactly the direct upload's cap; for every share number the share data on grid B equals grid A's; the file reads back on grid B; the third upload "
        "returns the same cap while the helper issues no read_encrypted call and no server receives allocate_buckets/write. Non-trivial = the interruption left a partial "
        "ciphertext file (0 < fetched < size) before the resume; distinct by whole case.")
LEVEL_TEXT = "Differential search against a direct upload, with the interruption point enumerated over every chunk boundary the generated file has."
ASSUMPTIONS = ["the helper runs in-process with its own storage broker connected to grid B's servers", "Foolscap serialisation is replaced by the in-memory scheduler"]
REQUIRED_CLASSES = ["interrupted-midway", "interrupted-before-first-chunk", "uninterrupted", "resume-skipped-ciphertext", "third-upload-already-present", "multi-segment"]
BUDGET = {"quick": 900, "thorough": 7200}


def plan(tier):
    n = 80 if tier == "quick" else 1200
    return [{"kind": "hyp", "n": n} for _ in range(16)]


@st.composite
def cases(draw):
    k = draw(st.integers(1, 3))
    n = draw(st.integers(k, 5))
    chunk = draw(st.sampled_from([100, 150, 256, 400]))
    nchunks = draw(st.integers(1, 6))
    size = max(56, chunk * nchunks - draw(st.integers(0, chunk - 1)))
    seg = draw(st.sampled_from([64, 128, 300, 4096]))
    cut = draw(st.one_of(st.none(), st.integers(0, nchunks - 1), st.integers(0, nchunks - 1)))
    return {"hsalt": draw(st.integers(0, 15)), "k": k, "n": n, "chunk": chunk, "size": size, "seg": seg, "cut": cut, "fill": draw(st.integers(0, 3)),
            "sched": draw(st.lists(st.integers(0, 9), max_size=draw(st.sampled_from([0, 40]))))}


def run_shard(spec, ctx):
    ctx.drive(cases(), spec["n"], run_case)


def shares_of(g, si):
    out = {}
    for s in g.servers:
        for sh, br in s.ss.get_buckets(si).items():
            out.setdefault(sh, set()).add(br.read(0, 10 ** 9))
    return out


def run_case(case, ctx):
    from allmydata.immutable.upload import Data
    from allmydata.immutable import offloaded
    from allmydata import uri
    k, n, size = case["k"], case["n"], case["size"]
    params = {"k": k, "n": n, "happy": 1, "max_segment_size": case["seg"]}
    data = pbytes(case["fill"], size)
    base = ctx.casedir()
    classes = set()
    old_chunk = offloaded.CHKCiphertextFetcher.CHUNK_SIZE
    offloaded.CHKCiphertextFetcher.CHUNK_SIZE = case["chunk"]
    gA = Grid(os.path.join(base, "A"), n, params)
    gB = Grid(os.path.join(base, "B"), n, params, choices=case["sched"], nclients=0)
    try:
        r = gA.run(gA.c0.upload(Data(data, convergence=b"secret")))
        if r[0] != "ok":
            ctx.fail("direct-upload-failed", "direct upload failed %r" % (r,))
            return
        cap = r[1].get_uri()
        si = uri.from_string(cap).get_storage_index()
        ref = shares_of(gA, si)
        desc = "k=%d N=%d size=%d seg=%d helper-chunk=%d cut-after=%r" % (k, n, size, case["seg"], case["chunk"], case["cut"])
        # ---- the helper: its own client identity on grid B
        hclient = gB.add_client(params)
        hpeer = peers.Peer(gB, "helper")
        helper = offloaded.Helper(os.path.join(base, "helper"), hclient.broker, hclient.secret_holder, None, None)
        observed = {"read_encrypted": 0, "hash_only_skips": 0}

        def ob(m, phase, res):
            if phase == "delivered" and m.meth == "read_encrypted":
                observed["read_encrypted"] += 1
        gB.sched.observers.append(ob)

        def client_via_helper(tag):
            c = gB.add_client(params)
            cpeer = peers.Peer(gB, tag)
            c.peer = cpeer
            c.uploader._got_helper(hpeer.ref(helper, cpeer))
            gB.sched.settle()
            if not c.uploader._helper:
                raise RuntimeError("helper handshake failed")
            return c, cpeer
        nchunks = -(-size // case["chunk"])
        if case["cut"] is not None:
            c1, p1 = client_via_helper("client1")
            p1.fail["read_encrypted"] = set(range(case["cut"], 10 ** 4))
            r1 = gB.sched.run_until(c1.upload(Data(data, convergence=b"secret")), maxsteps=50000)
            gB.sched.settle()
            p1.disconnect()          # the first client is gone
            gB.sched.settle()
            ctx.check(r1[0] != "ok", "upload-succeeded-without-ciphertext", "%s: the first upload reported success although the helper could fetch only %d of %d chunks" % (desc, case["cut"], nchunks))
            if r1[0] == "hang":
                classes.add("interrupted-upload-hangs")
            inc = os.path.join(base, "helper", "CHK_incoming")
            partial = sum(os.path.getsize(os.path.join(inc, f)) for f in os.listdir(inc)) if os.path.isdir(inc) else 0
            classes.add("interrupted-before-first-chunk" if case["cut"] == 0 else "interrupted-midway")
            if 0 < partial < size:
                classes.add("resume-skipped-ciphertext")
        else:
            partial = 0
            classes.add("uninterrupted")
        before_reads = observed["read_encrypted"]
        c2, p2 = client_via_helper("client2")
        r2 = gB.sched.run_until(c2.upload(Data(data, convergence=b"secret")), maxsteps=50000)
        gB.sched.settle()
        if r2[0] != "ok":
            ctx.fail("helper-upload-failed", "%s: the %s helper upload ended with %s %r" % (desc, "resumed" if case["cut"] is not None else "uninterrupted", r2[0], r2[1]), resumed=case["cut"] is not None,
                     exc=type(r2[1]).__name__ if r2[0] == "err" else r2[0])
            return
        cap2 = r2[1].get_uri()
        ctx.check(cap2 == cap, "cap-differs", "%s: helper upload returned %r, direct upload %r" % (desc, cap2, cap), resumed=case["cut"] is not None)
        got = shares_of(gB, si)
        for sh, datas in sorted(ref.items()):
            d0 = next(iter(datas))
            if sh not in got:
                ctx.fail("share-missing", "%s: share %d exists after the direct upload but not after the helper upload" % (desc, sh))
            for dB in got[sh]:
                if dB != d0:
                    first = next((i for i in range(min(len(dB), len(d0))) if dB[i] != d0[i]), min(len(dB), len(d0)))
                    ctx.fail("share-differs", "%s: share %d written through the helper differs from the directly uploaded share at byte %d (%d vs %d bytes); %d ciphertext bytes were on the helper before the resume" % (
                        desc, sh, first, len(dB), len(d0), partial), resumed=case["cut"] is not None)
        rd = gB.run(read_node(gB.add_client(params).nodemaker.create_from_cap(cap)))
        ctx.check(rd == ("ok", data), "unreadable-after-helper-upload", "%s: reading the file uploaded through the helper gives %s" % (desc, "wrong bytes" if rd[0] == "ok" else repr(rd[1])[:200]))
        # ---- third upload: already present
        reads0 = observed["read_encrypted"]
        writes0 = sum(s.calls.get("allocate_buckets", 0) + s.calls.get("write", 0) for s in gB.servers)
        c3, p3 = client_via_helper("client3")
        r3 = gB.sched.run_until(c3.upload(Data(data, convergence=b"secret")), maxsteps=50000)
        gB.sched.settle()
        ctx.check(r3[0] == "ok" and r3[1].get_uri() == cap, "third-upload", "%s: third upload of the same file ended with %r" % (desc, r3 if r3[0] != "ok" else r3[1].get_uri()))
        writes1 = sum(s.calls.get("allocate_buckets", 0) + s.calls.get("write", 0) for s in gB.servers)
        ctx.check(observed["read_encrypted"] == reads0, "already-present-refetched", "%s: the file was already in the grid, yet the helper fetched ciphertext again (%d read_encrypted calls)" % (desc, observed["read_encrypted"] - reads0))
        ctx.check(writes1 == writes0, "already-present-rewritten", "%s: the file was already in the grid, yet %d allocate/write calls reached the servers" % (desc, writes1 - writes0))
        classes.add("third-upload-already-present")
        if size > case["seg"]:
            classes.add("multi-segment")
    finally:
        offloaded.CHKCiphertextFetcher.CHUNK_SIZE = old_chunk
        gA.stop()
        gB.stop()
    ctx.note(sig=repr(sorted(case.items())), nontrivial="resume-skipped-ciphertext" in classes, classes=sorted(classes),
             sample={kk: case[kk] for kk in ("k", "n", "chunk", "size", "seg", "cut")})
