"""C01 immutable upload/download round trip for every size, encoding, segment size and delivery order."""
import os
from hypothesis import strategies as st
from vf import boot
from vf.core import pbytes
from vf.grid import Grid, read_node

ID = "C01"
LEVEL = "exploration"
ENGINE = "E2 detgrid"
TECHNIQUE = "Hypothesis over (size, k, N, happy, segment size, #servers, delivery schedule) on an in-process grid whose message order is drawn by the generator; round-trip oracle"
RULE = ("each case: 1<=k<=N<=16, happy<=N, max segment size from {1,2,3,k,k+1,7,16,17,64,100,128,1000,4096,131072}, plaintext size from a boundary set "
        "(0, 55/56, multiples of the segment size +-1, multiples of k +-1, powers of two +-1, up to 300 KiB in the thorough tier), a grid of happy..N+3 honest "
        "servers, and two generator-drawn choice lists that decide which pending server message is delivered next during upload and during download "
        "(all-zero = FIFO). Checked: returned cap size, full download == plaintext, one drawn range read == slice, literal caps for <=55 bytes touch no server. "
        "Non-trivial = >=2 segments or padded tail (size % k != 0 or size % segsize != 0) AND a non-FIFO schedule; distinct by (k,N,seg,size,#servers,schedule hash).")
LEVEL_TEXT = "Random search over encodings, sizes and message delivery orders on the real upload and download code; the scheduler is owned by the generator so every order is a drawable value."
ASSUMPTIONS = ["honest servers; transport replaced by an in-memory scheduler (no Foolscap serialisation)", "timers fire only when no message is pending"]
REQUIRED_CLASSES = ["multi-segment", "padded-tail", "literal", "non-fifo", "k==N", "single-server", "empty-file"]
BUDGET = {"quick": 900, "thorough": 7200}
SEGS = [1, 2, 3, 7, 16, 17, 64, 100, 128, 1000, 4096, 131072]


def plan(tier):
    n = 40 if tier == "quick" else 1800
    return [{"kind": "hyp", "n": n, "big": tier != "quick"} for _ in range(16)]


@st.composite
def cases(draw, big):
    k = draw(st.integers(1, 16) | st.sampled_from([1, 2, 3]))
    n = draw(st.integers(k, 16) | st.sampled_from([k, k + 1]).filter(lambda x: x <= 16))
    happy = draw(st.integers(1, n))
    seg = draw(st.sampled_from(SEGS + [k, k + 1]))
    maxsize = 300 * 1024 if big else 6000
    j = draw(st.integers(0, 6))
    d = draw(st.integers(-1, 1))
    base = draw(st.sampled_from(["lit", "seg", "seg", "k", "k", "pow2", "any", "any", "any", "any"]))
    if base == "lit":
        size = draw(st.sampled_from([0, 1, 54, 55, 56, 57]))
    elif base == "seg":
        size = seg * j + d
    elif base == "k":
        size = k * (j + 1) * draw(st.sampled_from([1, 3, 7])) + d
    elif base == "pow2":
        size = 2 ** draw(st.integers(0, 18 if big else 12)) + d
    else:
        size = draw(st.integers(56, maxsize))
    size = max(0, min(size, maxsize))
    if base != "lit":
        size = max(56, size)
    # keep the number of segments bounded (each costs N block writes)
    segsize_eff = max(k, (seg // k) * k) if seg >= k else k
    if size // segsize_eff > 60:
        size = segsize_eff * 60 + (size % segsize_eff)
    nservers = draw(st.integers(happy, n + 3) | st.sampled_from([happy, 1]).filter(lambda x: x >= happy))
    ch = st.lists(st.integers(0, 40), max_size=draw(st.sampled_from([0, 30, 400])))
    off = draw(st.integers(0, size + 2))
    ln = draw(st.integers(0, size + 2))
    return {"hsalt": draw(st.integers(0, 15)), "threads": draw(st.sampled_from(["sync", "async", "held"])), "k": k, "n": n, "happy": happy, "seg": seg, "size": size, "servers": nservers, "fill": draw(st.integers(0, 5)),
            "convergent": draw(st.booleans()), "guess": draw(st.sampled_from([None, None, 16, 100, 1000])), "up": draw(ch), "down": draw(ch), "read": [off, ln]}


def run_shard(spec, ctx):
    ctx.drive(cases(spec["big"]), spec["n"], run_case)


def run_case(case, ctx):
    from vf import boot as _boot
    _boot.set_thread_mode(case.get("threads") or "sync")      # defer_to_thread answered in a later reactor turn (as in production) or synchronously
    from allmydata.immutable.upload import Data
    from allmydata import uri
    k, n, happy, seg, size = case["k"], case["n"], case["happy"], case["seg"], case["size"]
    params = {"k": k, "n": n, "happy": happy, "max_segment_size": seg}
    g = Grid(ctx.casedir(), case["servers"], params, choices=case["up"])
    data = pbytes(case["fill"], size)
    desc = "k=%d N=%d happy=%d segsize=%d size=%d servers=%d" % (k, n, happy, seg, size, case["servers"])
    try:
        r = g.run(g.c0.upload(Data(data, convergence=b"secret" if case["convergent"] else None)))
        if r[0] != "ok":
            ctx.fail("upload-failed", "%s: upload on an honest grid ended with %s %r (schedule %r)" % (desc, r[0], r[1], case["up"][:20]))
            return
        cap = r[1].get_uri()
        u = uri.from_string(cap)
        classes = []
        if size <= 55:
            ctx.check(isinstance(u, uri.LiteralFileURI) and u.data == data, "literal", "%s: %d-byte file did not become a literal cap holding the data (%r)" % (desc, size, cap))
            ctx.check(g.sched.delivered == 0, "literal", "%s: literal upload sent %d messages" % (desc, g.sched.delivered))
            classes.append("literal")
        else:
            ctx.check(isinstance(u, uri.CHKFileURI), "cap-kind", "%s: cap %r" % (desc, cap))
            ctx.check(u.size == size and u.needed_shares == k and u.total_shares == n, "cap-fields", "%s: cap says size=%r k=%r N=%r" % (desc, u.size, u.needed_shares, u.total_shares))
        up_nonfifo = g.sched.nonfifo
        # ---- download with its own schedule
        g.sched.choices, g.sched.ci = list(case["down"]), 0
        from allmydata.immutable.downloader.node import DownloadNode
        from allmydata.interfaces import DEFAULT_IMMUTABLE_MAX_SEGMENT_SIZE
        DownloadNode.default_max_segment_size = case.get("guess") or DEFAULT_IMMUTABLE_MAX_SEGMENT_SIZE     # the reader's initial segment-size guess may be below the real size
        node = g.c0.nodemaker.create_from_cap(cap)
        ctx.check(node.get_size() == size, "node-size", "%s: node.get_size()=%r" % (desc, node.get_size()))
        r = g.run(read_node(node))
        if r[0] != "ok":
            ctx.fail("download-failed", "%s: download ended with %s %r (download schedule %r)" % (desc, r[0], r[1], case["down"][:30]))
            return
        if r[1] != data:
            first = next((i for i in range(min(len(r[1]), size)) if r[1][i] != data[i]), min(len(r[1]), size))
            ctx.fail("wrong-bytes", "%s: downloaded %d bytes, first difference at offset %d (download schedule %r)" % (desc, len(r[1]), first, case["down"][:30]))
        off, ln = case["read"]
        r2 = g.run(read_node(node, off, ln))
        if r2[0] != "ok":
            ctx.fail("download-failed", "%s: read(%d,%d) ended with %s %r" % (desc, off, ln, r2[0], r2[1]))
            return
        ctx.check(r2[1] == data[off:off + ln], "wrong-bytes", "%s: read(offset=%d,size=%d) returned %d bytes that differ from the slice" % (desc, off, ln, len(r2[1])))
        # a fresh client (other node cache, other broker order) reads the same bytes
        c2 = g.add_client()
        n2 = c2.nodemaker.create_from_cap(cap)
        # its first read is the ranged one: the node has not yet learned the real segment size
        r4 = g.run(read_node(n2, off, ln))
        ctx.check(r4 == ("ok", data[off:off + ln]), "wrong-bytes", "%s: a fresh client's first read(offset=%d,size=%d) gave %s" % (desc, off, ln, "other bytes" if r4[0] == "ok" else repr(r4[1])[:200]))
        r3 = g.run(read_node(n2))
        ctx.check(r3 == ("ok", data), "wrong-bytes", "%s: second client read %s" % (desc, r3[0]))
    finally:
        g.stop()
        from allmydata.immutable.downloader.node import DownloadNode as _DN
        from allmydata.interfaces import DEFAULT_IMMUTABLE_MAX_SEGMENT_SIZE as _D
        _DN.default_max_segment_size = _D
    segsize_eff = min(seg, size) if size else seg
    nseg = 0 if size <= 55 else -(-size // max(1, (max(k, (seg // k) * k) if seg >= k else k)))
    multi = nseg >= 2
    padded = size > 55 and (size % k != 0 or size % seg != 0)
    nonfifo = (up_nonfifo + g.sched.nonfifo) > 0
    classes += [c for c, f in (("multi-segment", multi), ("padded-tail", padded), ("non-fifo", nonfifo), ("k==N", k == n), ("single-server", case["servers"] == 1),
                               ("empty-file", size == 0), ("k==1", k == 1), (">=20-segments", nseg >= 20)) if f]
    ctx.note(sig=(k, n, seg, size, case["servers"], hash(tuple(case["up"])), hash(tuple(case["down"]))), nontrivial=(multi or padded) and nonfifo, classes=classes,
             sample={k2: (v if k2 not in ("up", "down") else v[:12]) for k2, v in case.items()})
