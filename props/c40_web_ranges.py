"""C40 web API byte-range downloads follow RFC 7233."""
import urllib.parse
from hypothesis import strategies as st
from vf import boot, mutfile, webmem
from vf.core import pbytes
from vf.grid import Grid

ID = "C40"
LEVEL = "exploration"
ENGINE = "E2 detgrid"
TECHNIQUE = ("grammar-based generation of Range headers (first-last, first-, -suffix, multi-range, other units, garbage; numbers drawn around 0, size-1, size, size+1) x file "
             "kinds (literal, CHK, SDMF, MDMF) x sizes 0..300 and larger, sent as raw GET and HEAD requests to the real web resource tree over an in-memory transport on the "
             "in-process grid; differential oracle = strict RFC 7233 single-range evaluation written for the check")
RULE = ("each case: one file of a generated kind and size (every size 0..300 is reachable; thorough also up to 5000), 1-5 Range headers from the grammar, each requested with "
        "GET and HEAD. Reference for a single range on a file of `size` bytes: first-last with first<=last: first>=size => 416, else 206 with bytes first..min(last,size-1); "
        "first-: first>=size => 416 else 206 first..size-1; -n (n>0): 206 with the last min(n,size) bytes (size 0 => 416 or 200 accepted); last<first, other units, non-numeric "
        "=> header ignored: 200 with the full body. 206 responses must carry Content-Range 'bytes a-b/size' and Content-Length b-a+1; HEAD must give the same status, "
        "Content-Range and Content-Length with an empty body. Accept-either corners (RFC lets a server ignore Range): '-0', numerals with sign/space, multi-range (must be "
        "200-full or a correct 206 for one of the satisfiable ranges). Non-trivial = a syntactically valid single range whose first or last position is within 1 of size; "
        "distinct by (kind, size, header).")
LEVEL_TEXT = "Grammar-based search against an independent RFC 7233 reference."
ASSUMPTIONS = ["HTTP/1.0 requests over an in-memory transport (no chunked encoding, no TLS)", "multi-range and lenient numerals are only checked for self-consistency"]
REQUIRED_CLASSES = ["206", "416", "200-ignored", "open-ended-beyond-eof", "suffix", "suffix-longer-than-file", "multi-range", "size-0", "lit", "chk", "sdmf", "mdmf", "head"]
BUDGET = {"quick": 900, "thorough": 7200}


def plan(tier):
    n = 150 if tier == "quick" else 2500
    return [{"kind": "hyp", "n": n, "big": tier != "quick"} for _ in range(16)]


def num(size):
    return st.one_of(st.sampled_from([0, 1, size - 1, size, size + 1, size // 2, size * 2 + 3]).map(lambda v: max(0, v)), st.integers(0, size + 5))


@st.composite
def header(draw, size):
    kind = draw(st.sampled_from(["fl", "fl", "fl", "f-", "f-", "-s", "-s", "multi", "unit", "garbage", "lenient"]))
    if kind == "fl":
        return "bytes=%d-%d" % (draw(num(size)), draw(num(size)))
    if kind == "f-":
        return "bytes=%d-" % draw(num(size))
    if kind == "-s":
        return "bytes=-%d" % draw(num(size))
    if kind == "multi":
        return "bytes=" + ",".join(draw(st.lists(st.one_of(st.tuples(num(size), num(size)).map(lambda t: "%d-%d" % t), num(size).map(lambda v: "%d-" % v), num(size).map(lambda v: "-%d" % v)), min_size=2, max_size=3)))
    if kind == "unit":
        return draw(st.sampled_from(["items=0-5", "BYTES=0-5", "bytes 0-5", "byte=0-5"]))
    if kind == "lenient":
        return draw(st.sampled_from(["bytes=+1-5", "bytes= 1-5", "bytes=1 -5", "bytes=1- 5", "bytes=01-05", "bytes=1-5 ", "bytes=-0"]))
    return draw(st.sampled_from(["bytes=", "bytes=-", "bytes=a-b", "bytes=1-2-3", "bytes=5", "=0-5", "bytes=0x1-0x5", "bytes=1.5-2", "bytes=--5", "junk",
                                  # numerals that Python's int() reads but RFC 7233's 1*DIGIT does not: digit-group underscores, non-ASCII decimal digits
                                  "bytes=1_0-2_0", "bytes=0-1_0", "bytes=-1_0", "bytes=\u0661-\u0662", "bytes=-\u0663", "bytes=\uff11-",
                                  # (sent as the single byte 0xff: a header value that is not even UTF-8 text)
                                  "bytes=\u00ff-5", "bytes=0-5,\u00ff", "\u00ffbytes=0-1", "bytes=0-\u00ff"]))


@st.composite
def cases(draw, big):
    kind = draw(st.sampled_from(["lit", "chk", "chk", "sdmf", "mdmf"]))
    if kind == "lit":
        size = draw(st.integers(0, 55))
    elif kind == "chk":
        size = draw(st.integers(56, 300) | (st.integers(301, 5000) if big else st.integers(56, 300)))
    else:
        size = draw(st.integers(0, 300))
    return {"hsalt": draw(st.integers(0, 15)), "kind": kind, "size": size, "headers": draw(st.lists(header(size), min_size=1, max_size=5))}


def run_shard(spec, ctx):
    ctx.drive(cases(spec["big"]), spec["n"], run_case)


def reference(h, size):
    """-> ('full',) | ('416',) | ('206', first, last) | ('either', [alternatives]) for one Range header"""
    if not h.startswith("bytes="):
        return ("full",)
    spec = h[len("bytes="):]
    if "," in spec:
        alts = [("full",)]
        sat = False
        anyvalid = True
        for part in spec.split(","):
            r = reference("bytes=" + part.strip(), size)
            if r[0] == "206":
                alts.append(r)
                sat = True
            elif r[0] == "either":
                alts += r[1]
            elif r[0] == "416":
                alts.append(("416",))
        return ("either", alts)
    strict = all(c in "0123456789-" for c in spec)
    if spec.count("-") != 1 or not strict:
        if any(c in "+ " for c in spec) and spec.replace("+", "").replace(" ", "").replace("-", "").isdigit() and spec.count("-") == 1:
            # lenient numerals: a server may read them or ignore the header
            r = reference("bytes=" + spec.replace("+", "").replace(" ", ""), size)
            return ("either", [("full",), r])
        return ("full",)
    first, last = spec.split("-")
    if first == "" and last == "":
        return ("full",)
    if first == "":
        n = int(last)
        if n == 0:
            return ("either", [("full",), ("416",)])
        if size == 0:
            return ("either", [("full",), ("416",)])
        return ("206", max(0, size - n), size - 1)
    f = int(first)
    if last == "":
        if f >= size:
            return ("416",)
        return ("206", f, size - 1)
    l = int(last)
    if l < f:
        return ("full",)
    if f >= size:
        return ("416",)
    return ("206", f, min(l, size - 1))


def run_case(case, ctx):
    from allmydata.immutable.upload import Data
    kind, size = case["kind"], case["size"]
    mutfile.set_segsize(64)
    g = Grid(ctx.casedir(), 3, {"k": 2, "n": 3, "happy": 1, "max_segment_size": 64})
    classes = {kind}
    nt = False
    try:
        data = pbytes(3, size)
        if kind in ("lit", "chk"):
            r = g.run(g.c0.upload(Data(data, convergence=b"x")))
            cap = r[1].get_uri() if r[0] == "ok" else None
        else:
            r = mutfile.create(g, g.c0, kind, data)
            cap = r[1].get_uri() if r[0] == "ok" else None
        if cap is None:
            ctx.fail("setup-failed", "creating the %s file of %d bytes failed: %r" % (kind, size, r))
            return
        w = webmem.Web(g, g.add_client())
        url = "/uri/" + urllib.parse.quote(cap.decode("ascii"))
        if size == 0:
            classes.add("size-0")
        for h in case["headers"]:
            ref = reference(h, size)
            alts = ref[1] if ref[0] == "either" else [ref]
            if h.startswith("bytes=") and "," in h:
                classes.add("multi-range")
            results = {}
            for method in ("GET", "HEAD"):
                resp = w.request(method, url, [("Range", h)])
                desc = "%s file of %d bytes, %s with 'Range: %s'" % (kind, size, method, h)
                if resp is None:
                    ctx.fail("hang", "%s: the request never completed" % desc)
                    continue
                results[method] = resp
                ok = False
                why = []
                for a in alts:
                    if a[0] == "full":
                        good = resp.code == 200 and (method == "HEAD" or resp.body == data) and resp.header("content-length") == str(size)
                    elif a[0] == "416":
                        good = resp.code == 416
                    else:
                        f, l = a[1], a[2]
                        good = (resp.code == 206 and (method == "HEAD" or resp.body == data[f:l + 1]) and resp.header("content-range") == "bytes %d-%d/%d" % (f, l, size)
                                and resp.header("content-length") == str(l - f + 1))
                    if good:
                        ok = True
                        classes.add({"full": "200-ignored", "416": "416", "206": "206"}[a[0]])
                        break
                if method == "HEAD":
                    classes.add("head")
                    ctx.check(resp.body == b"", "head-with-body", "%s: HEAD returned a %d-byte body" % (desc, len(resp.body)))
                if not ok:
                    exp = " or ".join("200 + whole file" if a[0] == "full" else ("416" if a[0] == "416" else "206 bytes %d-%d/%d" % (a[1], a[2], size)) for a in alts)
                    ctx.fail("wrong-range-response", "%s: got %s, Content-Range=%r, Content-Length=%r, %d body bytes%s; RFC 7233 gives %s" % (
                        desc, resp.code, resp.header("content-range"), resp.header("content-length"), len(resp.body),
                        "" if method == "HEAD" or resp.code != 206 or resp.body == data[:0] or resp.body in data else " (not a slice of the file)", exp), header=h, method=method, code=resp.code, kind=kind)
            if "GET" in results and "HEAD" in results:
                a, b = results["GET"], results["HEAD"]
                ctx.check(a.code == b.code and a.header("content-range") == b.header("content-range") and a.header("content-length") == b.header("content-length"), "head-differs-from-get",
                          "%s file of %d bytes, 'Range: %s': GET gives %s/%r/%r, HEAD gives %s/%r/%r" % (kind, size, h, a.code, a.header("content-range"), a.header("content-length"), b.code, b.header("content-range"), b.header("content-length")))
            if ref[0] in ("206", "416") and "-" in h:
                spec = h[6:]
                f_, l_ = spec.split("-")
                vals = [int(x) for x in (f_, l_) if x != ""]
                if any(abs(v - size) <= 1 for v in vals):
                    nt = True
                if f_ != "" and l_ == "" and int(f_) >= size:
                    classes.add("open-ended-beyond-eof")
                if f_ == "":
                    classes.add("suffix")
                    if int(l_) > size:
                        classes.add("suffix-longer-than-file")
    finally:
        g.stop()
        mutfile.restore_segsize()
    ctx.note(sig=(kind, size, tuple(case["headers"])), nontrivial=nt, classes=sorted(classes), sample={"kind": kind, "size": size, "headers": case["headers"]})
