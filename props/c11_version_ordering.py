"""C11 mutable version ordering and rollback resistance."""
import os, struct
from hypothesis import strategies as st
from vf import boot, mutfile, mut_share
from vf.core import pbytes
from vf.grid import Grid

ID = "C11"
LEVEL = "exploration"
ENGINE = "E2 detgrid"
TECHNIQUE = ("Hypothesis-generated publish histories (up to 6 versions) with generated offline sets per publish and server-side replays of older shares, then surveys and reads "
             "with generated offline sets and delivery schedules; wire-level observation of every share header a client was shown; oracles: new seqnum > every seqnum the "
             "publisher's survey was shown, the survey's best version = highest-seqnum version with k distinct shares among the answers it processed, the survey asked every "
             "reachable server whenever it was shown a newer version it could not recover, retrieved contents = contents published under that seqnum")
RULE = ("each case: SDMF/MDMF, k<=3, N<=6 on N..N+2 servers; a writer performs 2-6 steps, each a publish (overwrite, or for MDMF an in-place update of the best version found) while a drawn subset of servers is offline, or a replay "
        "(the harness copies a server's share files of an older version back); then 1-3 reader surveys (MODE_READ servermap update + retrieval of its best version + a plain "
        "download_best_version) by fresh clients, each with its own offline set and schedule. Non-trivial = at least two versions with different sequence numbers are present "
        "on the servers at read time; distinct by whole case.")
LEVEL_TEXT = "Random histories and schedules; what each client was shown is recorded at the wire, so the oracles do not depend on client-internal state."
ASSUMPTIONS = ["one writer at a time (C12 covers races)", "servers are honest except for going offline and being rolled back to shares they held earlier",
               "'located' = answers delivered to the surveying client before its survey completed (the harness stops delivering at that moment)"]
REQUIRED_CLASSES = ["planted-share", "in-place-update", "stale-shares-at-read", "newer-unrecoverable-seen", "replay", "publish-with-offline", "read-older-than-newest", "mdmf", "sdmf", "publish-failed"]
BUDGET = {"quick": 900, "thorough": 7200}
W = "slot_testv_and_readv_and_writev"


def plan(tier):
    n = 120 if tier == "quick" else 2000
    return [{"kind": "hyp", "n": n} for _ in range(16)]


@st.composite
def cases(draw):
    k = draw(st.integers(1, 3))
    n = draw(st.integers(k, 6))
    servers = n + draw(st.integers(0, 2))
    sub = st.lists(st.integers(0, servers - 1), max_size=servers - 1, unique=True)
    steps = draw(st.lists(st.one_of(st.tuples(st.just("publish"), sub), st.tuples(st.just("publish"), sub), st.tuples(st.just("update"), sub), st.tuples(st.just("replay"), st.integers(0, servers - 1), st.integers(0, 4))).map(list),
                          min_size=1, max_size=5))
    tmpl = draw(st.integers(0, 6))
    if tmpl == 0:
        # template A: a newer version survives on too few servers (the others are rolled back to what they held after creation), then the writer publishes again
        keep = draw(st.integers(0, servers - 1))
        off1 = draw(st.lists(st.integers(0, servers - 1), max_size=max(1, servers // 3), unique=True))
        steps = [["publish", off1]] + [["replay", sidx, 0] for sidx in range(servers) if sidx != keep and sidx not in off1 and draw(st.integers(0, 4)) > 0] + \
                [[draw(st.sampled_from(["update", "update", "publish"])), draw(sub)]] + draw(st.lists(st.tuples(st.just("update"), sub).map(list), max_size=1))
    elif tmpl == 2:
        # template C: everything is rolled back to the first version, then fewer than k shares of the newer version are planted on servers (spare ones first), so the
        # writer's next survey sees a newer version it cannot recover next to an older recoverable one
        k = max(2, k)
        n = max(n, k)
        servers = n + 2
        steps = [["publish", []]] + [["replay", sidx, 0] for sidx in range(n)] + [["plant", 1, sh, n + (j % 2)] for j, sh in enumerate(draw(st.lists(st.integers(0, n - 1), min_size=1, max_size=k - 1, unique=True)))] + \
                [[draw(st.sampled_from(["update", "update", "publish"])), []]]
        sub = st.lists(st.integers(0, servers - 1), max_size=servers - 1, unique=True)
    elif tmpl == 1:
        # template B: spare servers exist; a publish misses 1-2 share holders (their shares go to the spare servers), then every original holder is rolled back, so the
        # newer version lives only on the spare servers with fewer than k shares while every share number still has an older copy; then the writer updates/overwrites
        k = 3
        n = max(n, 5)
        servers = n + 2
        off1 = draw(st.lists(st.integers(0, n - 1), min_size=1, max_size=2, unique=True))      # (numbers are placement-relative: 0..n-1 hold shares after creation)
        steps = [["publish", off1]] + [["replay", sidx, 0] for sidx in range(servers)] + [[draw(st.sampled_from(["update", "update", "publish"])), []]]
        sub = st.lists(st.integers(0, servers - 1), max_size=servers - 1, unique=True)
    reads = draw(st.lists(st.tuples(sub, st.lists(st.integers(0, 9), max_size=30)).map(list), min_size=1, max_size=3))
    return {"fmt": draw(st.sampled_from(["sdmf", "mdmf", "mdmf"])), "k": k, "n": n, "servers": servers, "steps": steps, "reads": reads}


def run_shard(spec, ctx):
    ctx.drive(cases(), spec["n"], run_case)


def seq_of(data):
    return struct.unpack(">Q", data[1:9])[0] if data is not None and len(data) >= 9 else None


def run_case(case, ctx):
    k, n, fmt = case["k"], case["n"], case["fmt"]
    mutfile.set_segsize(16)
    g = Grid(ctx.casedir(), case["servers"], {"k": k, "n": n, "happy": 1, "max_segment_size": 131072})
    classes = {fmt}
    shown = []        # (client, server, shnum, seqnum) for every share header delivered in a slot_readv answer
    asked = []        # (client, server) for every slot_readv delivered (also failed ones)
    written = []      # (client, seqnum) parsed from write vectors at offset 0

    def ob(m, phase, res):
        if phase != "delivered":
            return
        if m.meth == "slot_readv":
            asked.append((m.client, m.server.idx))
            if res[0] == "ok":
                readv = m.args[2]
                first = next((i for i, (o, l) in enumerate(readv) if o == 0 and l >= 9), None)
                if first is not None:
                    for sh, datav in res[1].items():
                        s = seq_of(datav[first])
                        if s is not None:
                            shown.append((m.client, m.server.idx, sh, s, bytes(datav[first][9:41])))
        elif m.meth == W:
            for sh, (tv, wv, nl) in m.args[2].items():
                for (off, data) in wv:
                    if off == 0 and len(data) >= 9:
                        written.append((m.client, seq_of(data)))
            if res[0] == "ok":
                for sh, datav in res[1][1].items():
                    pass
    g.sched.observers.append(ob)
    try:
        contents = {}     # seqnum -> bytes
        r = mutfile.create(g, g.c0, fmt, b"version-1")
        if r[0] != "ok":
            ctx.fail("create-failed", "create failed: %r" % (r,))
            return
        node = r[1]
        cap = node.get_uri()
        si = node.get_storage_index()
        contents[1] = [b"version-1"]
        history = [("create", 1)]
        snaps = [{(s, sh): open(p, "rb").read() for (s, sh, p) in g.all_share_paths(si)}]
        last_seq = 1
        # server numbers in the case are relative to the placement: 0.. = the servers that received shares at creation (in server order), then the spare ones
        holders = sorted(set(s for (s, sh) in snaps[0]))
        order = holders + [s.idx for s in g.servers if s.idx not in holders]
        case = dict(case)
        case["steps"] = [[st_[0], [order[x % len(order)] for x in st_[1]]] if st_[0] in ("publish", "update") else ([st_[0], order[st_[1] % len(order)], st_[2]] if st_[0] == "replay" else
                         [st_[0], st_[1], st_[2], order[st_[3] % len(order)]]) for st_ in case["steps"]]
        case["reads"] = [[[order[x % len(order)] for x in off], sch] for (off, sch) in case["reads"]]

        def desc():
            return "fmt=%s k=%d N=%d servers=%d history=%r" % (fmt, k, n, case["servers"], history)
        for step in case["steps"]:
            if step[0] in ("publish", "update"):
                for s in g.servers:
                    s.down = s.idx in step[1]
                if step[1]:
                    classes.add("publish-with-offline")
                n0, w0 = len(shown), len(written)
                body = b"version-after-%d-steps-" % len(history) + pbytes(len(history), 5 + len(history))
                bodies = [body]
                if step[0] == "update" and fmt == "mdmf":
                    # an in-place update (as `tahoe put --offset` does) of whatever version the writer's survey finds best
                    classes.add("in-place-update")
                    patch = b"<upd%d>" % len(history)
                    base = {}

                    def do_update():
                        d0 = node.get_best_mutable_version()

                        def got(mv):
                            base["seq"] = mv.get_sequence_number()
                            return mv.update(mutfile.mdata(patch), 2)
                        return d0.addCallback(got)
                    rr = g.run(do_update())
                    bodies = [b0[:2] + patch + b0[2 + len(patch):] for b0 in contents.get(base.get("seq"), []) if len(b0) >= 2] or [body]
                    body = bodies[0]
                else:
                    rr = g.run(node.overwrite(mutfile.mdata(body)))
                g.sched.settle()
                seen = [s for (c, srv, sh, s, rh) in shown[n0:] if c == 0]
                new = sorted(set(s for (c, s) in written[w0:] if c == 0))
                if rr[0] == "ok":
                    ctx.check(len(new) == 1, "mixed-seqnums", "%s: one publish wrote shares with sequence numbers %r" % (desc(), new))
                    ns = new[-1]
                    ctx.check(ns > max(seen + [0]), "seqnum-not-above-survey", "%s: publish (offline servers %r) wrote sequence number %d although its survey was shown shares with sequence numbers %r" % (desc(), step[1], ns, sorted(set(seen))),
                              new=ns, seen=max(seen + [0]))
                    ctx.check(ns > last_seq or max(seen + [0]) < last_seq, "seqnum-not-increasing", "%s: publish wrote sequence number %d after this writer's earlier %d (survey saw %r)" % (desc(), ns, last_seq, sorted(set(seen))))
                    if ns in contents and body not in contents[ns]:
                        classes.add("seqnum-reused-after-unseen-version")
                    contents.setdefault(ns, []).extend(bodies)
                    last_seq = max(last_seq, ns)
                    history.append(("publish", sorted(step[1]), "seq%d" % ns))
                elif rr[0] == "err":
                    classes.add("publish-failed")
                    history.append(("publish", sorted(step[1]), "FAILED:" + type(rr[1]).__name__))
                    # a failed publish may still have stored shares of its new version on some servers
                    for ns in new:
                        contents.setdefault(ns, []).extend(bodies)
                else:
                    ctx.fail("hang", "%s: publish never completed" % desc())
                snaps.append({(s, sh): open(p, "rb").read() for (s, sh, p) in g.all_share_paths(si)})
            elif step[0] == "plant":
                # a server holds (again) a share of an earlier-published version: snapshot `which`, share number `shn`, retargeted to that server
                from allmydata import uri as _uri
                which, shn, srv = step[1] % len(snaps), step[2], step[3]
                src = next((v for (s0, sh0), v in sorted(snaps[which].items()) if sh0 == shn), None)
                if src is None:
                    continue
                from vf import refhash
                from allmydata.storage.common import storage_index_to_dir
                t = g.servers[srv]
                raw = src[:32] + t.nodeid + refhash.write_enabler(_uri.from_string(cap).writekey, t.nodeid) + src[84:]
                d = os.path.join(t.ss.sharedir, storage_index_to_dir(si))
                os.makedirs(d, exist_ok=True)
                open(os.path.join(d, "%d" % shn), "wb").write(raw)
                classes.add("planted-share")
                history.append(("plant", "state-after-step-%d" % which, shn, srv))
            else:
                srv, which = step[1] % len(g.servers), step[2] % len(snaps)
                old = {key: v for key, v in snaps[which].items() if key[0] == srv}
                if not old:
                    continue
                for (s, sh, p) in g.all_share_paths(si):
                    if s == srv:
                        os.unlink(p)
                from allmydata.storage.common import storage_index_to_dir
                d = os.path.join(g.servers[srv].ss.sharedir, storage_index_to_dir(si))
                os.makedirs(d, exist_ok=True)
                for (s, sh), v in old.items():
                    open(os.path.join(d, "%d" % sh), "wb").write(v)
                classes.add("replay")
                history.append(("replay", srv, "state-after-step-%d" % which))
        # ---- ground truth on disk
        def disk():
            out = {}
            for (s, sh, p) in g.all_share_paths(si):
                out[(s, sh)] = seq_of(open(p, "rb").read()[mut_share.DATA:mut_share.DATA + 9])
            return out
        truth = disk()
        if len(set(truth.values())) > 1:
            classes.add("stale-shares-at-read")
        nt = len(set(truth.values())) > 1
        from allmydata.mutable.common import MODE_READ
        from allmydata.mutable.retrieve import Retrieve
        from allmydata.util.consumer import MemoryConsumer
        pub = {v for vs in contents.values() for v in vs}
        for ri, (offline, sched) in enumerate(case["reads"]):
            for s in g.servers:
                s.down = s.idx in offline
            rd = g.add_client()
            cid = rd.idx
            nd = rd.nodemaker.create_from_cap(cap)
            g.sched.choices, g.sched.ci = list(sched), 0
            n0, a0 = len(shown), len(asked)
            rs = g.sched.run_until(nd.get_servermap(MODE_READ))
            located = {}        # (seqnum, root hash) -> share numbers shown   (two publishes that did not see each other can share a seqnum)
            for (c, srv, sh, s, rh) in shown[n0:]:
                if c == cid:
                    located.setdefault((s, rh), set()).add(sh)
            queried = set(srv for (c, srv) in asked[a0:] if c == cid)
            g.sched.settle()
            rdesc = "%s; reader %d (offline %r, schedule %r) was shown %r" % (desc(), ri, sorted(offline), sched[:12], {"seq%d-%s" % (s[0], s[1][:2].hex()): sorted(v) for s, v in sorted(located.items())})
            if rs[0] != "ok":
                ctx.fail("survey-failed", "%s: survey failed %r" % (rdesc, rs))
                continue
            sm = rs[1]
            rec = [s for s, shs in located.items() if len(shs) >= k]
            best = sm.best_recoverable_version()
            reachable = set(s.idx for s in g.servers if not s.down)
            if rec:
                top = max(r[0] for r in rec)
                ctx.check(best is not None and best[0] == top, "not-highest-located", "%s: its best recoverable version is %s, the highest recoverable among the shares shown is seq%d" % (
                    rdesc, "seq%d" % best[0] if best else None, top), best=(best[0] if best else None), expected=top)
                newer = [s[0] for s in located if s[0] > top]
            else:
                ctx.check(best is None, "phantom-version", "%s: claims version %r recoverable" % (rdesc, best and best[0]))
                newer = [s[0] for s in located]
            if newer or not rec:
                if newer:
                    classes.add("newer-unrecoverable-seen")
                ctx.check(reachable <= queried, "stopped-early", "%s: it saw version(s) %r that it cannot recover%s, but stopped after asking servers %r of the reachable %r" % (
                    rdesc, sorted(newer), "" if rec else " and no recoverable one", sorted(queried), sorted(reachable)), newer=bool(newer))
            if best is not None:
                c = MemoryConsumer()
                d2 = Retrieve(nd, rd.broker, sm, best).download(c)
                rr = g.run(d2)
                if rr[0] == "ok":
                    got = b"".join(c.chunks)
                    ctx.check(got in contents.get(best[0], []), "wrong-version-contents",
                              "%s: retrieving seq%d returned %r, published under that number: %r" % (rdesc, best[0], got[:40], [v[:40] for v in contents.get(best[0], [])]))
                    if best[0] < max(s for s in truth.values() if s is not None):
                        classes.add("read-older-than-newest")
                else:
                    classes.add("retrieve-failed")
            # and the plain convenience read: must be a published version (which one depends on what that second survey is shown)
            nd2 = g.add_client().nodemaker.create_from_cap(cap)
            rr = g.run(nd2.download_best_version())
            if rr[0] == "ok":
                ctx.check(rr[1] in pub, "unpublished-bytes", "%s: download_best_version returned %d bytes nobody published" % (rdesc, len(rr[1])))
            elif rr[0] == "hang":
                ctx.fail("hang", "%s: download_best_version never completed" % rdesc)
    finally:
        g.stop()
        mutfile.restore_segsize()
    ctx.note(sig=repr(sorted(case.items())), nontrivial=nt, classes=sorted(classes), sample={"fmt": fmt, "k": k, "n": n, "servers": case["servers"], "history": history, "on_disk": sorted(set(v for v in truth.values() if v))})
