"""C11 mutable version ordering and rollback resistance."""
import os, struct, sys
from hypothesis import strategies as st
from vf import boot, mutfile, mut_share
from vf.core import pbytes
from vf.grid import Grid

ID = "C11"
LEVEL = "exploration"
ENGINE = "E2 detgrid"
TECHNIQUE = ("Hypothesis-generated publish histories (up to 6 versions) with generated offline sets per publish and server-side replays of older shares, then surveys and reads "
             "with generated offline sets and delivery schedules; wire-level observation of every share header a client was shown; oracles: new seqnum > every seqnum the "
             "publisher's survey was shown, the survey's best version = highest-seqnum version with k distinct shares among the answers it processed, the survey asked every "
             "reachable server whenever it was shown a newer version it could not recover, retrieved contents = contents published under that seqnum; plain download_best_version under server drop-outs with surveys delimited by observing ServermapUpdater.update")
RULE = ("each case: SDMF/MDMF, k<=3, N<=6 on N..N+2 servers; a writer performs 2-6 steps, each a publish (overwrite, or for MDMF an in-place update of the best version found) while a drawn subset of servers is offline, or a replay "
        "(the harness copies a server's share files of an older version back); then 1-3 reader surveys (MODE_READ servermap update + retrieval of its best version + a plain "
        "download_best_version) by fresh clients, each with its own offline set and schedule.  The plain download_best_version runs under server drop-outs (a server "
        "drops its connection after answering j more calls; or, at the reader's first block fetch, the servers it could not reach come back and a drawn set drops out), "
        "with contents padded beyond what a survey prefetches so that the fetch really goes back to the servers; the surveys it runs are delimited by observing "
        "ServermapUpdater.update, and: it returns a published version; not one older than a version its last survey located with k distinct shares on servers still "
        "reachable at the end; and if any of its surveys was shown a version newer than the one returned, its last survey asked every server reachable at the end. Non-trivial = at least two versions with different sequence numbers are present "
        "on the servers at read time; distinct by whole case."
        " Added step: modify() raced by another client's overwrite issued from inside the modifier (every Retrieve the modifying client builds must be for the best recoverable version of the servermap it is given).")
LEVEL_TEXT = "Random histories and schedules; what each client was shown is recorded at the wire, so the oracles do not depend on client-internal state."
ASSUMPTIONS = ["one writer at a time (C12 covers races)", "servers are honest except for going offline and being rolled back to shares they held earlier",
               "'located' = answers delivered to the surveying client before its survey completed (the harness stops delivering at that moment; for the plain read, between the start and the end of each ServermapUpdater.update)"]
REQUIRED_CLASSES = ["modify-raced-by-another-writer", "plain-read-started-over", "servers-swapped-at-first-fetch", "retrieve-needs-server-reads", "servers-dropped-during-read", "ro-read-with-dropouts-ok", "planted-share", "in-place-update", "stale-shares-at-read", "newer-unrecoverable-seen", "replay", "publish-with-offline", "read-older-than-newest", "mdmf", "sdmf", "publish-failed"]
BUDGET = {"quick": 900, "thorough": 7200}
W = "slot_testv_and_readv_and_writev"


def plan(tier):
    n = 90 if tier == "quick" else 2000
    return [{"kind": "hyp", "n": n} for _ in range(16)]


@st.composite
def cases(draw):
    k = draw(st.integers(1, 3))
    n = draw(st.integers(k, 6))
    servers = n + draw(st.integers(0, 2))
    sub = st.lists(st.integers(0, servers - 1), max_size=servers - 1, unique=True)
    steps = draw(st.lists(st.one_of(st.tuples(st.just("publish"), sub), st.tuples(st.just("publish"), sub), st.tuples(st.just("update"), sub), st.tuples(st.just("replay"), st.integers(0, servers - 1), st.integers(0, 4))).map(list),
                          min_size=1, max_size=5))
    tmpl = draw(st.integers(0, 6))
    if tmpl == 0:
        # template A: a newer version survives on too few servers (the others are rolled back to what they held after creation), then the writer publishes again
        keep = draw(st.integers(0, servers - 1))
        off1 = draw(st.lists(st.integers(0, servers - 1), max_size=max(1, servers // 3), unique=True))
        steps = [["publish", off1]] + [["replay", sidx, 0] for sidx in range(servers) if sidx != keep and sidx not in off1 and draw(st.integers(0, 4)) > 0] + \
                [[draw(st.sampled_from(["update", "update", "publish"])), draw(sub)]] + draw(st.lists(st.tuples(st.just("update"), sub).map(list), max_size=1))
    elif tmpl == 2:
        # template C: everything is rolled back to the first version, then fewer than k shares of the newer version are planted on servers (spare ones first), so the
        # writer's next survey sees a newer version it cannot recover next to an older recoverable one
        k = max(2, k)
        n = max(n, k)
        servers = n + 2
        steps = [["publish", []]] + [["replay", sidx, 0] for sidx in range(n)] + [["plant", 1, sh, n + (j % 2)] for j, sh in enumerate(draw(st.lists(st.integers(0, n - 1), min_size=1, max_size=k - 1, unique=True)))] + \
                [[draw(st.sampled_from(["update", "update", "publish"])), []]]
        sub = st.lists(st.integers(0, servers - 1), max_size=servers - 1, unique=True)
    elif tmpl == 1:
        # template B: spare servers exist; a publish misses 1-2 share holders (their shares go to the spare servers), then every original holder is rolled back, so the
        # newer version lives only on the spare servers with fewer than k shares while every share number still has an older copy; then the writer updates/overwrites
        k = 3
        n = max(n, 5)
        servers = n + 2
        off1 = draw(st.lists(st.integers(0, n - 1), min_size=1, max_size=2, unique=True))      # (numbers are placement-relative: 0..n-1 hold shares after creation)
        steps = [["publish", off1]] + [["replay", sidx, 0] for sidx in range(servers)] + [[draw(st.sampled_from(["update", "update", "publish"])), []]]
        sub = st.lists(st.integers(0, servers - 1), max_size=servers - 1, unique=True)
    forced_reads = None
    if tmpl == 3:
        # template D: one or two servers miss an overwrite and keep stale shares; a reader surveys while some holders of the newer version are unreachable and
        # locates it on the others; when it starts fetching, those drop out and the unreachable ones come back, so the read has to start over while the newer
        # version is still recoverable
        k = draw(st.integers(1, 2))
        n = draw(st.integers(max(4, 3 * k), 6))
        servers = n + draw(st.integers(0, 2))
        stale = list(range(k))
        steps = [["publish", stale]]
        sub = st.lists(st.integers(0, servers - 1), max_size=servers - 1, unique=True)
        hidden = draw(st.lists(st.integers(k, n - 1), min_size=k, max_size=n - 2 * k, unique=True))
        forced_reads = [[hidden, draw(st.lists(st.integers(0, 9), min_size=4, max_size=14)), [], draw(st.sampled_from([True, True, False])), [x for x in range(k, n) if x not in hidden]]]
    # (offline set, schedule, servers that drop their connection after answering j more calls during the plain read, read-only reader?)
    reads = draw(st.lists(st.tuples(sub, st.lists(st.integers(0, 9), max_size=30), st.lists(st.tuples(st.integers(0, servers - 1), st.integers(1, 3)).map(list), max_size=servers - 1),
                                    st.booleans(), st.one_of(st.none(), st.none(), sub)).map(list), min_size=1, max_size=3))
    if forced_reads:
        reads = forced_reads + reads[:1]
    return {"hsalt": draw(st.integers(0, 15)), "threads": draw(st.sampled_from(["sync", "async", "held"])), "fmt": draw(st.sampled_from(["sdmf", "mdmf", "mdmf"])), "k": k, "n": n, "servers": servers, "steps": steps, "reads": reads,
            "pad": draw(st.sampled_from([0, 0, 0, 4500 * k] if not forced_reads else [4500 * k, 4500 * k, 0])),
            # a modify() by the writer during which another write-cap holder publishes (between the writer's read and its publish): the retry must read what its new survey shows
            "modrace": draw(st.sampled_from([None, None, None, "modify"])),
            # publish steps (by position) carried out by a write-cap holder that has just opened the file, not by the node that made the earlier versions
            "fresh": draw(st.lists(st.integers(0, 7), max_size=3, unique=True))}


def run_shard(spec, ctx):
    ctx.drive(cases(), spec["n"], run_case)


def seq_of(data):
    return struct.unpack(">Q", data[1:9])[0] if data is not None and len(data) >= 9 else None


def run_case(case, ctx):
    from vf import boot as _boot
    _boot.set_thread_mode(case.get("threads") or "sync")      # defer_to_thread answered in a later reactor turn (as in production) or synchronously
    k, n, fmt = case["k"], case["n"], case["fmt"]
    mutfile.set_segsize(16)
    g = Grid(ctx.casedir(), case["servers"], {"k": k, "n": n, "happy": 1, "max_segment_size": 131072})
    classes = {fmt}
    # with padded contents a share is larger than what a survey prefetches, so a retrieval has to go back to the servers for block data
    PAD = pbytes(3, case.get("pad", 0))
    if case.get("pad"):
        classes.add("retrieve-needs-server-reads")
    shown = []        # (client, server, shnum, seqnum) for every share header delivered in a slot_readv answer
    asked = []        # (client, server) for every slot_readv delivered (also failed ones)
    written = []      # (client, seqnum) parsed from write vectors at offset 0

    events = []       # per client, in wire order: ("S", client, server) survey-type read sent, ("F", client, server) other read sent, ("A", client, server, shnum, seqnum, roothash) header shown

    def ob(m, phase, res):
        if phase == "sent" and m.meth == "slot_readv":
            events.append(("S" if any(o == 0 and l >= 9 for (o, l) in m.args[2]) else "F", m.client, m.server.idx))
        if phase != "delivered":
            return
        if m.meth == "slot_readv":
            asked.append((m.client, m.server.idx))
            if res[0] == "ok":
                readv = m.args[2]
                first = next((i for i, (o, l) in enumerate(readv) if o == 0 and l >= 9), None)
                if first is not None:
                    for sh, datav in res[1].items():
                        s = seq_of(datav[first])
                        if s is not None:
                            shown.append((m.client, m.server.idx, sh, s, bytes(datav[first][9:41])))
                            events.append(("A", m.client, m.server.idx, sh, s, bytes(datav[first][9:41])))
        elif m.meth == W:
            for sh, (tv, wv, nl) in m.args[2].items():
                for (off, data) in wv:
                    if off == 0 and len(data) >= 9:
                        written.append((m.client, seq_of(data)))
            if res[0] == "ok":
                for sh, datav in res[1][1].items():
                    pass
    g.sched.observers.append(ob)
    try:
        contents = {}     # seqnum -> bytes
        r = mutfile.create(g, g.c0, fmt, b"version-1" + PAD)
        if r[0] != "ok":
            ctx.fail("create-failed", "create failed: %r" % (r,))
            return
        node = r[1]
        cap = node.get_uri()
        rocap = node.get_readonly_uri()
        si = node.get_storage_index()
        contents[1] = [b"version-1" + PAD]
        history = [("create", 1)]
        snaps = [{(s, sh): open(p, "rb").read() for (s, sh, p) in g.all_share_paths(si)}]
        last_seq = 1
        # server numbers in the case are relative to the placement: 0.. = the servers that received shares at creation (in server order), then the spare ones
        holders = sorted(set(s for (s, sh) in snaps[0]))
        order = holders + [s.idx for s in g.servers if s.idx not in holders]
        case = dict(case)
        case["steps"] = [[st_[0], [order[x % len(order)] for x in st_[1]]] if st_[0] in ("publish", "update") else ([st_[0], order[st_[1] % len(order)], st_[2]] if st_[0] == "replay" else
                         [st_[0], st_[1], st_[2], order[st_[3] % len(order)]]) for st_ in case["steps"]]
        case["reads"] = [[[order[x % len(order)] for x in rd_[0]], rd_[1]] + [[[order[x % len(order)], j_] for (x, j_) in (rd_[2] if len(rd_) > 2 else [])], rd_[3] if len(rd_) > 3 else False,
                          [order[x % len(order)] for x in rd_[4]] if len(rd_) > 4 and rd_[4] is not None else None]
                         for rd_ in case["reads"]]

        def desc():
            return "fmt=%s k=%d N=%d servers=%d history=%r" % (fmt, k, n, case["servers"], history)
        for step in case["steps"]:
            if step[0] in ("publish", "update"):
                for s in g.servers:
                    s.down = s.idx in step[1]
                if step[1]:
                    classes.add("publish-with-offline")
                n0, w0 = len(shown), len(written)
                body = b"version-after-%d-steps-" % len(history) + pbytes(len(history), 5 + len(history)) + PAD
                bodies = [body]
                wnode = node
                if len(history) - 1 in case.get("fresh", []):
                    wnode = g.add_client().nodemaker.create_from_cap(cap)
                    classes.add("publish-by-newly-opened-node")
                if step[0] == "update" and fmt == "mdmf":
                    # an in-place update (as `tahoe put --offset` does) of whatever version the writer's survey finds best
                    classes.add("in-place-update")
                    patch = b"<upd%d>" % len(history)
                    base = {}

                    def do_update():
                        d0 = wnode.get_best_mutable_version()

                        def got(mv):
                            base["seq"] = mv.get_sequence_number()
                            return mv.update(mutfile.mdata(patch), 2)
                        return d0.addCallback(got)
                    rr = g.run(do_update())
                    bodies = [b0[:2] + patch + b0[2 + len(patch):] for b0 in contents.get(base.get("seq"), []) if len(b0) >= 2] or [body]
                    body = bodies[0]
                else:
                    rr = g.run(wnode.overwrite(mutfile.mdata(body)))
                g.sched.settle()
                wc_ = 0 if wnode is node else len(g.clients) - 1
                seen = [s for (c, srv, sh, s, rh) in shown[n0:] if c == wc_]
                new = sorted(set(s for (c, s) in written[w0:] if c == wc_))
                if rr[0] == "ok":
                    ctx.check(len(new) == 1, "mixed-seqnums", "%s: one publish wrote shares with sequence numbers %r" % (desc(), new))
                    ns = new[-1]
                    ctx.check(ns > max(seen + [0]), "seqnum-not-above-survey", "%s: publish (offline servers %r) wrote sequence number %d although its survey was shown shares with sequence numbers %r" % (desc(), step[1], ns, sorted(set(seen))),
                              new=ns, seen=max(seen + [0]))
                    ctx.check(ns > last_seq or wnode is not node, "seqnum-not-increasing", "%s: publish wrote sequence number %d after this writer's earlier %d (survey saw %r)" % (desc(), ns, last_seq, sorted(set(seen))),
                              survey_saw_previous=max(seen + [0]) >= last_seq)
                    if max(seen + [0]) < last_seq:
                        classes.add("own-previous-version-out-of-reach-of-survey")
                    if ns in contents and body not in contents[ns]:
                        classes.add("seqnum-reused-after-unseen-version")
                    contents.setdefault(ns, []).extend(bodies)
                    if wnode is node:
                        last_seq = max(last_seq, ns)
                    history.append(("publish", sorted(step[1]), "seq%d" % ns) + (("by-newly-opened-node",) if wnode is not node else ()))
                elif rr[0] == "err":
                    classes.add("publish-failed")
                    history.append(("publish", sorted(step[1]), "FAILED:" + type(rr[1]).__name__))
                    # a failed publish may still have stored shares of its new version on some servers
                    for ns in new:
                        contents.setdefault(ns, []).extend(bodies)
                else:
                    ctx.fail("hang", "%s: publish never completed" % desc())
                snaps.append({(s, sh): open(p, "rb").read() for (s, sh, p) in g.all_share_paths(si)})
            elif step[0] == "plant":
                # a server holds (again) a share of an earlier-published version: snapshot `which`, share number `shn`, retargeted to that server
                from allmydata import uri as _uri
                which, shn, srv = step[1] % len(snaps), step[2], step[3]
                src = next((v for (s0, sh0), v in sorted(snaps[which].items()) if sh0 == shn), None)
                if src is None:
                    continue
                from vf import refhash
                from allmydata.storage.common import storage_index_to_dir
                t = g.servers[srv]
                raw = src[:32] + t.nodeid + refhash.write_enabler(_uri.from_string(cap).writekey, t.nodeid) + src[84:]
                d = os.path.join(t.ss.sharedir, storage_index_to_dir(si))
                os.makedirs(d, exist_ok=True)
                open(os.path.join(d, "%d" % shn), "wb").write(raw)
                classes.add("planted-share")
                history.append(("plant", "state-after-step-%d" % which, shn, srv))
            else:
                srv, which = step[1] % len(g.servers), step[2] % len(snaps)
                old = {key: v for key, v in snaps[which].items() if key[0] == srv}
                if not old:
                    continue
                for (s, sh, p) in g.all_share_paths(si):
                    if s == srv:
                        os.unlink(p)
                from allmydata.storage.common import storage_index_to_dir
                d = os.path.join(g.servers[srv].ss.sharedir, storage_index_to_dir(si))
                os.makedirs(d, exist_ok=True)
                for (s, sh), v in old.items():
                    open(os.path.join(d, "%d" % sh), "wb").write(v)
                classes.add("replay")
                history.append(("replay", srv, "state-after-step-%d" % which))
        # ---- ground truth on disk
        def disk():
            out = {}
            for (s, sh, p) in g.all_share_paths(si):
                out[(s, sh)] = seq_of(open(p, "rb").read()[mut_share.DATA:mut_share.DATA + 9])
            return out
        truth = disk()
        if len(set(truth.values())) > 1:
            classes.add("stale-shares-at-read")
        nt = len(set(truth.values())) > 1
        from allmydata.mutable.common import MODE_READ
        from allmydata.mutable.retrieve import Retrieve
        from allmydata.util.consumer import MemoryConsumer
        if case.get("modrace"):
            for s_ in g.servers:
                s_.down = False
                s_.reconnect()
            from allmydata.mutable import retrieve as _rt
            reads_ = []
            orig_init = _rt.Retrieve.__init__

            def init_(self_, filenode, storage_broker, servermap, verinfo, *a_, **kw_):
                if storage_broker is g.c0.broker:
                    best_ = servermap.best_recoverable_version()
                    reads_.append((verinfo[0], best_[0] if best_ else None))
                return orig_init(self_, filenode, storage_broker, servermap, verinfo, *a_, **kw_)
            _rt.Retrieve.__init__ = init_
            B_ = g.add_client()
            nodeB_ = B_.nodemaker.create_from_cap(cap)
            state_ = {"n": 0, "outs": [b"published-by-the-other-writer-" + PAD]}
            wm_ = len(written)

            def modifier(old_, servermap_, first_time_):
                state_["n"] += 1
                if first_time_:
                    # the other writer publishes now, i.e. after this writer has read the file and before it publishes
                    rb_ = g.run(nodeB_.overwrite(mutfile.mdata(state_["outs"][0])))
                    state_["other"] = rb_[0]
                state_["outs"].append(old_ + b"+tag")
                return old_ + b"+tag"
            try:
                rm_ = g.sched.run_until(node.modify(modifier), maxsteps=60000)
            finally:
                _rt.Retrieve.__init__ = orig_init
            classes.add("modify-raced-by-another-writer")
            classes.add("modify-race:" + (rm_[0] if rm_[0] != "err" else type(rm_[1]).__name__) + (":retried" if state_["n"] > 1 else ""))
            for (got_, best_) in reads_:
                ctx.check(best_ is None or got_ == best_, "modify-read-stale-version", "%s; then modify() raced by another writer's overwrite (%s): a read inside modify fetched seq%s although the survey it had just run shows seq%s as the best recoverable version (reads %r, modifier ran %d times, outcome %s)" % (
                    desc(), state_.get("other"), got_, best_, reads_, state_["n"], rm_[0] if rm_[0] != "err" else type(rm_[1]).__name__), retried=state_["n"] > 1)
            if rm_[0] == "hang":
                ctx.fail("hang", "%s: modify() raced by another writer never completed" % desc())
            # what the two writers may have stored under the sequence numbers they wrote
            for (c_, ns_) in written[wm_:]:
                contents.setdefault(ns_, []).extend(b_ for b_ in state_["outs"] if b_ not in contents.get(ns_, []))
            history.append(("modify-raced", rm_[0] if rm_[0] != "err" else type(rm_[1]).__name__))
            truth = disk()
        pub = {v for vs in contents.values() for v in vs}
        for ri, (offline, sched, kills, ro_reader, swapdown) in enumerate(case["reads"]):
            for s in g.servers:
                s.down = s.idx in offline
            rd = g.add_client()
            cid = rd.idx
            nd = rd.nodemaker.create_from_cap(cap)
            g.sched.choices, g.sched.ci = list(sched), 0
            n0, a0 = len(shown), len(asked)
            rs = g.sched.run_until(nd.get_servermap(MODE_READ))
            located = {}        # (seqnum, root hash) -> share numbers shown   (two publishes that did not see each other can share a seqnum)
            for (c, srv, sh, s, rh) in shown[n0:]:
                if c == cid:
                    located.setdefault((s, rh), set()).add(sh)
            queried = set(srv for (c, srv) in asked[a0:] if c == cid)
            g.sched.settle()
            rdesc = "%s; reader %d (offline %r, schedule %r) was shown %r" % (desc(), ri, sorted(offline), sched[:12], {"seq%d-%s" % (s[0], s[1][:2].hex()): sorted(v) for s, v in sorted(located.items())})
            if rs[0] != "ok":
                ctx.fail("survey-failed", "%s: survey failed %r" % (rdesc, rs))
                continue
            sm = rs[1]
            rec = [s for s, shs in located.items() if len(shs) >= k]
            best = sm.best_recoverable_version()
            reachable = set(s.idx for s in g.servers if not s.down)
            if rec:
                top = max(r[0] for r in rec)
                ctx.check(best is not None and best[0] == top, "not-highest-located", "%s: its best recoverable version is %s, the highest recoverable among the shares shown is seq%d" % (
                    rdesc, "seq%d" % best[0] if best else None, top), best=(best[0] if best else None), expected=top)
                newer = [s[0] for s in located if s[0] > top]
            else:
                ctx.check(best is None, "phantom-version", "%s: claims version %r recoverable" % (rdesc, best and best[0]))
                newer = [s[0] for s in located]
            if newer or not rec:
                if newer:
                    classes.add("newer-unrecoverable-seen")
                ctx.check(reachable <= queried, "stopped-early", "%s: it saw version(s) %r that it cannot recover%s, but stopped after asking servers %r of the reachable %r" % (
                    rdesc, sorted(newer), "" if rec else " and no recoverable one", sorted(queried), sorted(reachable)), newer=bool(newer))
            if best is not None:
                c = MemoryConsumer()
                d2 = Retrieve(nd, rd.broker, sm, best).download(c)
                rr = g.run(d2)
                if rr[0] == "ok":
                    got = b"".join(c.chunks)
                    ctx.check(got in contents.get(best[0], []), "wrong-version-contents",
                              "%s: retrieving seq%d returned %r, published under that number: %r" % (rdesc, best[0], got[:40], [v[:40] for v in contents.get(best[0], [])]))
                    if best[0] < max(s for s in truth.values() if s is not None):
                        classes.add("read-older-than-newest")
                else:
                    classes.add("retrieve-failed")
            # and the plain convenience read: must be a published version (which one depends on what that second survey is shown).  During it the
            # servers in `kills` drop their connection after answering j more calls (typically: they answer the survey and are gone for the fetch), so the
            # read may have to start over; whatever it does, what it returns is judged against everything this client was shown.
            rd2 = g.add_client()
            cid2 = rd2.idx
            nd2 = rd2.nodemaker.create_from_cap(rocap if ro_reader else cap)
            n1, a1, e1 = len(shown), len(asked), len(events)
            killed = []
            for (sidx, j_) in kills:
                srv = g.servers[sidx]
                if not srv.down and srv.disconnect_after is None:
                    srv.disconnect_after = srv.total_calls + j_
                    killed.append((sidx, j_))
            swapped = []

            def swap_ob(m, phase, res):
                # when this reader sends its first block fetch: the servers it could not reach during the survey come back, the servers in `swapdown` drop out
                if phase == "sent" and m.meth == "slot_readv" and m.client == cid2 and not swapped and not any(o == 0 and l >= 9 for (o, l) in m.args[2]):
                    swapped.append(True)
                    g.sched.ci = 0          # the delivery choices apply afresh to whatever the read does next
                    for s_ in g.servers:
                        if s_.idx in offline:
                            s_.down = False
                        elif s_.idx in swapdown and not s_.down:
                            s_.disconnect()
            if swapdown is not None:
                g.sched.observers.append(swap_ob)
            g.sched.choices, g.sched.ci = list(sched), 0
            from allmydata.mutable import servermap as smmod
            orig_update = smmod.ServermapUpdater.update
            surveys = []         # the surveys this reader runs, delimited by the calls to ServermapUpdater.update (observation only)

            def upd(self_):
                d_ = orig_update(self_)
                if self_._storage_broker is rd2.broker:
                    rec_ = {"mode": self_.mode, "start": len(events), "end": None}
                    surveys.append(rec_)

                    def _done(res_):
                        rec_["end"] = len(events)
                        return res_
                    d_.addBoth(_done)
                return d_
            smmod.ServermapUpdater.update = upd
            try:
                rr = g.sched.run_until(nd2.download_best_version())
            finally:
                smmod.ServermapUpdater.update = orig_update
            if swapdown is not None:
                g.sched.observers.remove(swap_ob)
                if swapped:
                    classes.add("servers-swapped-at-first-fetch")
                    killed = killed + [("swap: up %r, down %r" % (sorted(offline), sorted(swapdown)))]
            for srv in g.servers:
                srv.disconnect_after = None
            up_end = set(s_.idx for s_ in g.servers if not s_.down)
            if os.environ.get("VERIF_DEBUG"):
                sys.stderr.write("DEBUG truth=%r\n" % (sorted((k_, v_) for k_, v_ in truth.items()),))
                sys.stderr.write("DEBUG plain read: killed=%r result=%r up_end=%r asked=%r shown=%r\n" % (killed, rr if rr[0] != "ok" else ("ok", rr[1][:20]), sorted(up_end),
                                 [x for x in asked[a1:] if x[0] == cid2], [(x[1], x[2], x[3]) for x in shown[n1:] if x[0] == cid2]))
            if killed:
                classes.add("servers-dropped-during-read")
            if rr[0] == "ok":
                ctx.check(rr[1] in pub, "unpublished-bytes", "%s: download_best_version returned %d bytes nobody published" % (rdesc, len(rr[1])))
                R = max([sq for sq, vs in contents.items() if rr[1] in vs] or [0])
                epochs = []
                for sv in surveys:
                    ep = {"asked": set(), "seen": {}, "mode": sv["mode"]}
                    # (the first queries are sent synchronously inside update(), i.e. just before `start` was recorded: look back to the previous survey's end)
                    lo = epochs and surveys[len(epochs) - 1]["end"] or e1
                    for ev in events[lo:sv["end"]]:
                        if ev[1] != cid2:
                            continue
                        if ev[0] == "S":
                            ep["asked"].add(ev[2])
                        elif ev[0] == "A":
                            ep["seen"].setdefault((ev[4], ev[5]), set()).add((ev[2], ev[3]))
                    epochs.append(ep)
                last = epochs[-1] if epochs else {"asked": set(), "seen": {}}
                d2desc = "%s; then a %s reader's download_best_version (servers dropping out after j further calls: %r) returned seq%d after %d survey(s) %r that were shown %r" % (
                    desc(), "read-cap" if ro_reader else "write-cap", killed, R, len(epochs), [e_["mode"] for e_ in epochs],
                    [{"seq%d-%s" % (s_[0], s_[1][:2].hex()): sorted(v) for s_, v in sorted(e_["seen"].items())} for e_ in epochs])
                if len(epochs) > 1:
                    classes.add("plain-read-started-over")
                rec_last = [s_[0] for s_, holders in last["seen"].items() if len(set(sh_ for (srv_, sh_) in holders if srv_ in up_end)) >= k]
                if rec_last:
                    ctx.check(R >= max(rec_last), "returned-older-than-located", "%s: its last survey located seq%d with at least k distinct shares on servers that were still reachable when the read ended" % (d2desc, max(rec_last)),
                              dropped=bool(killed), ro=ro_reader)
                newer_seen = sorted(set(s_[0] for e_ in epochs for s_ in e_["seen"] if s_[0] > R))
                if newer_seen and last.get("mode") == "MODE_WRITE":
                    # a write-cap holder's second attempt surveys in MODE_WRITE, whose stopping rule is "N+epsilon servers asked and epsilon of them empty"; the
                    # keep-querying rule of the statement is MODE_READ's (and MODE_CHECK asks everybody anyway), so nothing is asserted about how far this one went
                    classes.add("plain-read-retry-in-MODE_WRITE(not-asserted)")
                elif newer_seen:
                    classes.add("plain-read-saw-newer-than-returned")
                    ctx.check(up_end <= last["asked"], "stopped-early", "%s: it had seen version(s) %r, newer than the one it returned, but its last survey asked only servers %r of the reachable %r" % (
                        d2desc, newer_seen, sorted(last["asked"]), sorted(up_end)), newer=True, dropped=bool(killed), ro=ro_reader)
                if killed and ro_reader:
                    classes.add("ro-read-with-dropouts-ok")
            elif rr[0] == "hang":
                ctx.fail("hang", "%s: download_best_version never completed" % rdesc)
    finally:
        g.stop()
        mutfile.restore_segsize()
    ctx.note(sig=repr(sorted(case.items())), nontrivial=nt, classes=sorted(classes), sample={"fmt": fmt, "k": k, "n": n, "servers": case["servers"], "history": history, "on_disk": sorted(set(v for v in truth.values() if v))})
