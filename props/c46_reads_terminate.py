"""C46 immutable reads always terminate: once every message is answered/failed and every timer has fired, every read has completed; a failed read
does not block later reads on the same node."""
from hypothesis import strategies as st
from vf import immfile, boot
from vf.grid import Consumer

ID = "C46"
LEVEL = "fault_enumeration"
ENGINE = "E2 detgrid"
TECHNIQUE = ("Hypothesis-generated placements x share damage x server fault plans x delivery/timer schedules (the C03 generator) plus authentic files whose URI "
             "extension block commits to a wrong ciphertext hash for a drawn segment, followed by concurrent reads (some of which give up: stopProducing in flight) and follow-up reads on the same node; termination is "
             "decided as a safety property of the closed system: scheduler quiescent (no message, no timer) and a read still unresolved = HANG; a read that keeps "
             "the servers busy beyond a generous message bound = LIVELOCK")
RULE = ("each case: a C03 scenario (k<=4, N<=6, 1-5 segments, generated placement/damage/faults/schedule); with probability ~1/3 the file is 'authentic but unreadable in "
        "segment j' (the uploader is made to commit to a wrong ciphertext hash for segment j, so every decode of that segment fails its hash check); then a batch of "
        "1-3 reads started together on one node object (up to two of them giving up: stopProducing() after the j-th delivered server message or at the n-th write) and 1-3 follow-up reads issued one after the other on the same node, each over a drawn range (same segment, "
        "other segment, whole file). Oracle: after the scheduler has run to quiescence every read Deferred has fired; no read needs more than 6000 server messages; "
        "bytes delivered are a prefix of the true range. Non-trivial = some read failed and a later read was issued on the same node, or a fault/damage was present "
        "and >=2 reads overlapped; distinct by whole case.")
LEVEL_TEXT = "Fault and schedule search; liveness is decided as 'quiescent and unresolved' on a closed system whose scheduler and clock the harness owns."
ASSUMPTIONS = ["termination is judged when no message is pending and no timer is left; unbounded-time liveness under an open environment is not addressed",
               "the message bound (6000 per batch for files of <=5 segments and <=6 shares) is ~20x the largest fault-free count observed"]
REQUIRED_CLASSES = ["reader-stopped-in-flight", "bad-segment", "read-failed-then-read", "concurrent", "followup-ok", "followup-err", "fault", "damage"]
BUDGET = {"quick": 900, "thorough": 7200}
MAXSTEPS = 6000


def plan(tier):
    n = 120 if tier == "quick" else 2500
    return [{"kind": "hyp", "n": n} for _ in range(16)]


@st.composite
def cases(draw):
    from props.c03_availability import cases as c03cases
    base = draw(c03cases())
    mode = draw(st.sampled_from(["clean", "faulty", "faulty", "badseg", "badseg+faulty"]))
    if mode in ("clean", "badseg"):
        base["damage"], base["faults"] = [], []
    size = base["size"]
    rng = st.tuples(st.integers(0, size), st.one_of(st.none(), st.integers(1, size))).map(list)
    nseg = -(-size // base["seg"])
    base["badseg"] = draw(st.integers(0, nseg - 1)) if mode.startswith("badseg") else None
    base["batch"] = draw(st.lists(rng, min_size=1, max_size=3))
    base["follow"] = draw(st.lists(rng, min_size=1, max_size=3))
    # a reader of the batch may give up: its consumer calls stopProducing() after the j-th server message of the batch has been delivered (answers
    # to its share reads may still be in flight) or at its n-th write
    base["stops"] = draw(st.lists(st.tuples(st.integers(0, 2), st.sampled_from(["step", "step", "write"]), st.integers(1, 30)).map(list), max_size=2))
    base.pop("second", None)
    base.pop("second_used", None)
    return base


def run_shard(spec, ctx):
    ctx.drive(cases(), spec["n"], run_case)


def install_badseg(j):
    from allmydata.immutable import encode
    orig = encode.Encoder.send_crypttext_hash_tree_to_all_shareholders

    def patched(self):
        if j < len(self._crypttext_hashes):
            self._crypttext_hashes[j] = bytes(x ^ 0x5a for x in self._crypttext_hashes[j])
        return orig(self)
    encode.Encoder.send_crypttext_hash_tree_to_all_shareholders = patched
    return lambda: setattr(encode.Encoder, "send_crypttext_hash_tree_to_all_shareholders", orig)


def run_case(case, ctx):
    undo = install_badseg(case["badseg"]) if case.get("badseg") is not None else (lambda: None)
    try:
        sc = immfile.build(ctx, case, choices=case["down"])
    finally:
        undo()
    g = sc.g
    classes = set()
    outcomes = []
    try:
        reader = g.add_client()
        node = reader.nodemaker.create_from_cap(sc.cap)
        desc0 = "k=%d N=%d seg=%d size=%d servers=%d place=%r damage=%r faults=%r badseg=%r schedule=%r" % (
            case["k"], case["n"], case["seg"], case["size"], case["servers"], sorted(sc.placed), sorted(sc.damaged.items()), sorted(sc.faulty.items()), case.get("badseg"), case["down"][:20])

        def do_batch(ranges, label, stops=()):
            cons = [Consumer() for _ in ranges]
            for (bi, how, j_) in stops:
                if how == "write" and bi < len(cons):
                    cons[bi].script[j_ % 4 + 1] = "stop"
            ds = [node.read(c, off, ln) for c, (off, ln) in zip(cons, ranges)]
            before = g.sched.delivered
            stepstops = [(bi, j_) for (bi, how, j_) in stops if how == "step" and bi < len(cons)]

            def stopper(m, phase, res_):
                if phase != "delivered":
                    return
                for (bi, j_) in stepstops:
                    c_ = cons[bi]
                    if g.sched.delivered - before == j_ and c_.producer is not None and not c_.stopped:
                        c_.stopped = True
                        classes.add("reader-stopped-in-flight")
                        c_.producer.stopProducing()
            if stepstops:
                g.sched.observers.append(stopper)
            try:
                res = g.sched.run_all(ds, maxsteps=MAXSTEPS)
            finally:
                if stepstops:
                    g.sched.observers.remove(stopper)
            if any(c_.stopped for c_ in cons):
                classes.add("reader-stopped")
            used = g.sched.delivered - before
            for c, (off, ln), r in zip(cons, ranges, res):
                want = sc.data[off:] if ln is None else sc.data[off:off + ln]
                got = c.data()
                desc = "%s; %s read(offset=%d,size=%r) after outcomes %r" % (desc0, label, off, ln, outcomes)
                if got != want[:len(got)]:
                    ctx.fail("wrong-bytes", "%s: delivered bytes are not a prefix of the requested range" % desc)
                if r[0] == "hang":
                    if used >= MAXSTEPS - 1:
                        ctx.fail("livelock", "%s: still running after %d server messages (the servers keep answering, the read never ends)" % (desc, used), phase=label)
                    else:
                        ctx.fail("hang", "%s: nothing is pending (no message, no timer) but the read never completed" % desc, phase=label,
                                 after_failure=("err" in outcomes), badseg=case.get("badseg") is not None)
                if r[0] == "ok" and not c.stopped:
                    ctx.check(got == want, "short-success", "%s: success with %d of %d bytes" % (desc, len(got), len(want)))
            return [r[0] for r in res]
        if len(case["batch"]) > 1:
            classes.add("concurrent")
        outcomes += do_batch(case["batch"], "batch", stops=case.get("stops", []))
        for rg in case["follow"]:
            had_err = "err" in outcomes
            o = do_batch([rg], "follow-up")
            if had_err:
                classes.add("read-failed-then-read")
            classes.add("followup-" + o[0])
            outcomes += o
        # finally the system must be able to become quiescent
        g.sched.settle(maxsteps=MAXSTEPS, timers=True)
    finally:
        g.stop()
    if case.get("badseg") is not None:
        classes.add("bad-segment")
    if sc.faulty:
        classes.add("fault")
    if sc.damaged:
        classes.add("damage")
    nt = ("err" in outcomes[:-1]) or ((sc.faulty or sc.damaged or case.get("badseg") is not None) and len(case["batch"]) > 1)
    ctx.note(sig=repr(sorted(case.items())), nontrivial=nt, classes=sorted(classes),
             sample={"k": case["k"], "n": case["n"], "seg": case["seg"], "size": case["size"], "placed": sorted(sc.placed), "damaged": sorted(sc.damaged.items()),
                     "faults": sorted(sc.faulty.items()), "badseg": case.get("badseg"), "batch": case["batch"], "follow": case["follow"], "outcomes": outcomes})
