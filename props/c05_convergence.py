"""C05 convergent capabilities and literal files."""
import io
from hypothesis import strategies as st
from zope.interface import implementer
from vf import boot, refhash
from vf.core import pbytes
from vf.grid import Grid

ID = "C05"
LEVEL = "exploration"
ENGINE = "E2 detgrid"
TECHNIQUE = ("metamorphic + differential: Hypothesis over (plaintext, secret, k, N, segment size) x data sources (Data, FileHandle, "
             "custom IUploadable with generated chunking) on the real Uploader; caps compared across sources, with the same upload under a mid-transfer server failure, and with an independent hashlib reference of the convergent key")
RULE = ("each case: plaintext of a size around 55/56, segment and k multiples or random (<=6000 bytes quick, <=300 KiB thorough), a convergence secret (random, empty, or None), "
        "(k,N,segment size); uploaded through 2-3 different sources, one of which returns data in a generated chunking, once more (when N >= 2) while one server fails its writes from a generated call number on, and once more with exactly one of "
        "{secret, k, N, segment size} changed. Oracle: same inputs => byte-identical cap from every source, whose key equals the reference "
        "SHA256d-tagged convergence hash and whose storage index equals the reference hash of the key; a degraded upload that still succeeds => the same cap; one changed input => different storage index; "
        "size <= 55 => URI:LIT embedding the bytes with no server message; no secret => two uploads get different keys. "
        "Non-trivial = a chunked source whose chunk boundaries do not coincide with segment boundaries, on a non-literal file; distinct by (k,N,seg,size,secret,chunking).")
LEVEL_TEXT = "Random search with a metamorphic oracle (source/chunking independence, sensitivity to each parameter) and a differential oracle (independent key derivation)."
ASSUMPTIONS = ["the reference derivation is the documented netstring-tagged SHA-256d construction (shared with C17)", "honest grid, except that in the server-failure variant one server rejects (or fails to acknowledge) every write from a generated call number on; there the client-side write batch size (a constructor default) is lowered so that small shares are written in several calls"]
REQUIRED_CLASSES = ["faulty-upload-ok", "literal", "size-55", "size-56", "chunked-unaligned", "empty-secret", "no-secret", "changed-secret", "changed-k", "changed-n", "changed-seg"]
BUDGET = {"quick": 900, "thorough": 7200}
SEGS = [16, 17, 64, 100, 128, 1000, 4096, 131072]


def plan(tier):
    n = 60 if tier == "quick" else 2000
    return [{"kind": "hyp", "n": n, "big": tier != "quick"} for _ in range(16)]


@st.composite
def cases(draw, big):
    k = draw(st.integers(1, 8))
    n = draw(st.integers(k, 10))
    seg = draw(st.sampled_from(SEGS + [k, k * 3]))
    kind = draw(st.sampled_from(["lit", "edge", "seg", "any", "any"]))
    maxsize = 300 * 1024 if big else 6000
    if kind == "lit":
        size = draw(st.integers(0, 55))
    elif kind == "edge":
        size = draw(st.sampled_from([54, 55, 56, 57]))
    elif kind == "seg":
        size = max(56, seg * draw(st.integers(1, 5)) + draw(st.integers(-1, 1)))
    else:
        size = draw(st.integers(56, maxsize))
    size = min(size, maxsize)
    segeff = max(k, (seg // k) * k)
    if size // segeff > 40:
        size = segeff * 40 + size % segeff
    secret = draw(st.sampled_from(["r", "r", "r", "empty", "none"]))
    secret = {"r": pbytes(draw(st.integers(0, 3)), draw(st.sampled_from([1, 16, 32]))).hex(), "empty": "", "none": None}[secret]
    chunks = draw(st.lists(st.integers(1, max(1, min(size, 3 * seg + 5))), min_size=1, max_size=12))
    return {"hsalt": draw(st.integers(0, 15)), "k": k, "n": n, "seg": seg, "size": size, "fill": draw(st.integers(0, 3)), "secret": secret, "chunks": chunks,
            "change": draw(st.sampled_from(["secret", "k", "n", "seg"])),
            "fault": draw(st.none() | st.fixed_dictionaries({"server": st.integers(0, 9), "from": st.integers(0, 12), "batch": st.sampled_from([1, 64, 500, 4096]), "after": st.booleans()}))}


def run_shard(spec, ctx):
    ctx.drive(cases(spec["big"]), spec["n"], run_case)


def make_chunked(data, chunks, convergence):
    from allmydata.immutable.upload import FileHandle

    class Chunked(FileHandle):
        """IUploadable whose read() returns several strings per call, cut at generated positions."""

        def read(self, length):
            out = []
            remaining = length
            i = getattr(self, "_ci", 0)
            while remaining > 0:
                c = min(remaining, chunks[i % len(chunks)])
                i += 1
                piece = self._filehandle.read(c)
                if not piece:
                    break
                out.append(piece)
                remaining -= len(piece)
            self._ci = i
            from twisted.internet import defer
            return defer.succeed(out)
    return Chunked(io.BytesIO(data), convergence)


def run_case(case, ctx):
    from allmydata.immutable.upload import Data, FileHandle
    from allmydata import uri
    k, n, seg, size = case["k"], case["n"], case["seg"], case["size"]
    secret = None if case["secret"] is None else bytes.fromhex(case["secret"])
    data = pbytes(case["fill"], size)
    classes = set()
    desc = "k=%d N=%d segsize=%d size=%d secret=%r chunks=%r" % (k, n, seg, size, case["secret"], case["chunks"])

    def up(params, mk, fault=None):
        from allmydata.immutable.layout import WriteBucketProxy
        g = Grid(ctx.casedir(), n if params is None else params["n"], params or {"k": k, "n": n, "happy": 1, "max_segment_size": seg})
        saved = WriteBucketProxy.__init__.__defaults__
        try:
            if fault:
                # a server that stops accepting writes in mid-upload; the client-side write batch (1 MB by default, so small shares are
                # written in one piece at close) is made small so that "mid-upload" exists for small files too
                WriteBucketProxy.__init__.__defaults__ = (fault["batch"],)
                srv = g.servers[fault["server"] % len(g.servers)]
                (srv.fail_after if fault["after"] else srv.fail)["write"] = set(range(fault["from"], fault["from"] + 100000))
            r = g.run(g.c0.upload(mk()))
            if r[0] != "ok":
                if fault:
                    return None, 0
                ctx.fail("upload-failed", "%s: upload failed %r" % (desc, r))
                return None, 0
            return r[1].get_uri(), g.sched.delivered
        finally:
            WriteBucketProxy.__init__.__defaults__ = saved
            g.stop()
    sources = [("Data", lambda s=secret: Data(data, convergence=s)),
               ("FileHandle", lambda s=secret: FileHandle(io.BytesIO(data), convergence=s)),
               ("chunked-IUploadable", lambda s=secret: make_chunked(data, case["chunks"], s)),
               ]
    # (a file object with short reads behind FileHandle is NOT generated: IUploadable.read forbids short reads without EOF)
    pick = sources
    caps = []
    for name, mk in pick:
        cap, msgs = up(None, mk)
        if cap is None:
            return
        caps.append((name, cap, msgs))
    u0 = uri.from_string(caps[0][1])
    if size <= 55:
        classes.add("literal")
        for name, cap, msgs in caps:
            u = uri.from_string(cap)
            ctx.check(isinstance(u, uri.LiteralFileURI) and u.data == data, "literal", "%s: source %s: %d-byte file gave %r, not a literal cap embedding the data" % (desc, name, size, cap))
            ctx.check(msgs == 0, "literal-touches-servers", "%s: source %s: literal upload sent %d server messages" % (desc, name, msgs))
    else:
        for name, cap, msgs in caps:
            ctx.check(isinstance(uri.from_string(cap), uri.CHKFileURI), "not-chk", "%s: source %s: %d-byte file gave %r" % (desc, name, size, cap))
        segeff = min(seg, size)
        segeff = -(-segeff // k) * k
        if secret is not None:
            for name, cap, _ in caps[1:]:
                ctx.check(cap == caps[0][1], "not-convergent", "%s: Data gave %s but %s gave %s" % (desc, caps[0][1], name, cap), source=name)
            refkey = refhash.convergence_key(k, n, segeff, data, secret)
            ctx.check(u0.key == refkey, "key-differs-from-reference", "%s: cap key %s, reference convergence hash %s" % (desc, u0.key.hex(), refkey.hex()))
            ctx.check(u0.get_storage_index() == refhash.chk_storage_index(u0.key), "si-differs-from-reference", "%s: storage index is not the tagged hash of the key" % desc)
            # ---- the same upload while one server fails in mid-transfer: if it still succeeds the cap is the same
            if case.get("fault") and n >= 2:
                capf, _ = up(None, lambda: Data(data, convergence=secret), fault=case["fault"])
                if capf is None:
                    classes.add("faulty-upload-failed")
                else:
                    classes.add("faulty-upload-ok")
                    ctx.check(capf == caps[0][1], "not-convergent-under-server-failure", "%s: a clean upload gave %s, the same upload with server %d failing its writes from number %d on (write batch %d bytes) gave %s" % (
                        desc, caps[0][1], case["fault"]["server"] % n, case["fault"]["from"], case["fault"]["batch"], capf), fault_from=case["fault"]["from"])
            # ---- change exactly one input
            ch = case["change"]
            p2 = {"k": k, "n": n, "happy": 1, "max_segment_size": seg}
            s2 = secret
            if ch == "secret":
                s2 = secret + b"x"
            elif ch == "k":
                p2["k"] = k + 1 if k < n else (k - 1 if k > 1 else None)
            elif ch == "n":
                p2["n"] = n + 1
            else:
                p2["max_segment_size"] = seg + k if seg < size else None
            if p2["k"] is not None and p2["max_segment_size"] is not None:
                k2, seg2 = p2["k"], p2["max_segment_size"]
                eff2 = -(-min(seg2, size) // k2) * k2
                if ch == "secret" or (k2, p2["n"], eff2) != (k, n, segeff):
                    cap2, _ = up(p2, lambda: Data(data, convergence=s2))
                    if cap2 is None:
                        return
                    u2 = uri.from_string(cap2)
                    classes.add("changed-" + ch)
                    ctx.check(u2.get_storage_index() != u0.get_storage_index(), "not-sensitive", "%s: changing %s (to %r / %r) left the storage index unchanged" % (desc, ch, p2, s2), changed=ch)
            if secret == b"":
                classes.add("empty-secret")
        else:
            classes.add("no-secret")
            keys = [uri.from_string(cap).key for _, cap, _ in caps]
            ctx.check(len(set(keys)) == len(keys), "random-key-repeats", "%s: uploads without a convergence secret produced equal keys %r" % (desc, [x.hex() for x in keys]))
    if size == 55:
        classes.add("size-55")
    if size == 56:
        classes.add("size-56")
    segeff = max(k, (seg // k) * k)
    pos, unaligned = 0, False
    for c in case["chunks"]:
        pos += c
        if pos < size and pos % segeff:
            unaligned = True
    if unaligned and size > 55:
        classes.add("chunked-unaligned")
    ctx.note(sig=(k, n, seg, size, case["secret"], tuple(case["chunks"])), nontrivial=unaligned and size > 55, classes=sorted(classes),
             sample={kk: case[kk] for kk in ("k", "n", "seg", "size", "secret", "chunks", "change")})
