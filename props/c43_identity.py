"""C43 node / capability identity: == iff same cap string, != is its negation, equal => same hash."""
from hypothesis import strategies as st
from vf import caps as C

ID = "C43"
LEVEL = "exploration"
ENGINE = "E0 pure"
TECHNIQUE = "Hypothesis pairs of caps (equal / one field changed / other kind) wrapped in every node class by two independent NodeMakers; oracle = equality of capability strings"
RULE = ("pairs (A,B) of caps of every kind: B identical to A, B differing in exactly one field, or B of another kind; compared as raw cap objects and as "
        "nodes (ImmutableFileNode, LiteralFileNode, MutableFileNode, DirectoryNode over every inner kind) built by two distinct NodeMakers so that "
        "caching cannot make them the same object. Non-trivial = pair with equal strings but distinct objects, or pair differing in one field; distinct by (A,B)."
        ' Also: nodes for CHK verify caps (CiphertextFileNode) and unknown caps / UnknownNode, each built by two NodeMakers.')
LEVEL_TEXT = "Search over pairs of equal and nearly-equal capabilities in every wrapper class; oracle is string equality."
ASSUMPTIONS = ["nodes are built without a storage broker and never used for I/O"]
REQUIRED_CLASSES = ["node:UnknownNode", "node:CiphertextFileNode", "equal-distinct-objects", "one-field-differs", "node:ImmutableFileNode", "node:LiteralFileNode", "node:MutableFileNode", "node:DirectoryNode"]
BUDGET = {"quick": 600, "thorough": 3600}
NODE_KINDS = ["CHK", "LIT", "SSK", "SSK-RO", "MDMF", "MDMF-RO", "DIR2", "DIR2-RO", "DIR2-CHK", "DIR2-LIT", "DIR2-MDMF", "DIR2-MDMF-RO"]


def plan(tier):
    n = 600 if tier == "quick" else 3000
    return [{"kind": "hyp", "n": n} for _ in range(16)]


def cases():
    return st.fixed_dictionaries({"p": C.cap_params(), "rel": st.sampled_from(["same", "same", "field", "kind", "other"]),
                                  "field": st.sampled_from(["a", "b", "k", "n", "size", "lit"]), "q": C.cap_params(), "unknown": st.sampled_from([False, False, True])})


def run_shard(spec, ctx):
    ctx.drive(cases(), spec["n"], run_case)


def _nm():
    from allmydata.nodemaker import NodeMaker
    from allmydata.client import SecretHolder
    from allmydata.interfaces import SDMF_VERSION
    return NodeMaker(None, SecretHolder(b"lease", b"conv"), None, None, None, {"k": 3, "n": 10, "happy": 7, "max_segment_size": 1000}, SDMF_VERSION, None, None)


def compare(ctx, a, b, sa, sb, what, classes):
    same = (sa == sb) and type(a) is type(b)
    try:
        eq, ne = (a == b), (a != b)
        eq2, ne2 = (b == a), (b != a)
    except Exception as e:
        ctx.fail("compare-raised", "%s: comparison raised %r for %r vs %r" % (what, e, sa, sb))
        return
    ctx.check(eq is True or eq is False, "eq-type", "%s: == returned %r" % (what, eq))
    ctx.check(eq == same, "eq-wrong", "%s: (a==b) is %r but capability strings %s: %r vs %r" % (what, eq, "are equal" if same else "differ", sa, sb))
    ctx.check(ne == (not eq), "ne-not-negation", "%s: (a==b)=%r and (a!=b)=%r for %r vs %r" % (what, eq, ne, sa, sb))
    ctx.check(eq2 == eq and ne2 == ne, "asymmetric", "%s: comparison not symmetric for %r vs %r" % (what, sa, sb))
    if same:
        try:
            ctx.check(hash(a) == hash(b), "hash-differs", "%s: equal objects hash differently (%r)" % (what, sa))
        except TypeError as e:
            ctx.fail("unhashable", "%s: %r" % (what, e))
    for other in (None, sa, 5):
        ctx.check((a == other) is False and (a != other) is True, "eq-foreign", "%s: comparison with %r" % (what, other))


def run_case(case, ctx):
    p = dict(case["p"])
    rel = case["rel"]
    if rel == "same":
        q = dict(p)
    elif rel == "field":
        q = dict(p)
        f = case["field"]
        if f == "lit":
            q["lit"] = (bytes.fromhex(p["lit"]) + b"x").hex()
        else:
            q[f] = p[f] + 1
    elif rel == "kind":
        q = dict(p, kind=case["q"]["kind"])
    else:
        q = dict(case["q"])
    a, b = C.make(p), C.make(q)
    sa, sb = a.to_string(), b.to_string()
    classes = []
    compare(ctx, a, b, sa, sb, "cap objects %s/%s" % (type(a).__name__, type(b).__name__), classes)
    if a is not b and sa == sb:
        classes.append("equal-distinct-objects")
    if rel == "field" and sa != sb:
        classes.append("one-field-differs")
    if p["kind"] in NODE_KINDS and q["kind"] in NODE_KINDS:
        na = _nm().create_from_cap(sa)
        nb = _nm().create_from_cap(sb)
        ctx.check(na is not nb, "harness", "same node object")
        ua, ub = na.get_uri(), nb.get_uri()
        ctx.check(ua == sa and ub == sb, "node-uri", "node.get_uri() %r != cap %r" % (ua, sa))
        compare(ctx, na, nb, ua, ub, "nodes %s/%s" % (type(na).__name__, type(nb).__name__), classes)
        classes.append("node:" + type(na).__name__)
    if p["kind"] == "CHK-Verifier" and q["kind"] == "CHK-Verifier":
        # the node class the NodeMaker hands out for an immutable verify cap
        na, nb = _nm().create_from_cap(sa), _nm().create_from_cap(sb)
        compare(ctx, na, nb, sa, sb, "nodes %s/%s" % (type(na).__name__, type(nb).__name__), classes)
        classes.append("node:" + type(na).__name__)
    if case.get("unknown"):
        # capabilities of a kind this version does not know, and the node class that holds them
        from allmydata import uri as _uri
        xa = b"x-tahoe-future:" + sa[4:]
        xb = xa if rel == "same" else b"x-tahoe-future:" + sb[4:] + (b"" if sa != sb else b"2")
        ca, cb = _uri.from_string(xa), _uri.from_string(xb)
        compare(ctx, ca, cb, xa, xb, "cap objects %s/%s" % (type(ca).__name__, type(cb).__name__), classes)
        na, nb = _nm().create_from_cap(None, b"ro." + xa), _nm().create_from_cap(None, b"ro." + xb)
        compare(ctx, na, nb, xa, xb, "nodes %s/%s" % (type(na).__name__, type(nb).__name__), classes)
        classes.append("node:" + type(na).__name__)
    ctx.note(sig=(sa, sb, bool(case.get("unknown"))), nontrivial=(sa == sb) or rel == "field", classes=classes, sample={"a": sa.decode(), "b": sb.decode(), "rel": rel})
