"""C35 IncompleteHashTree accepts only genuine leaves; rollback on rejection."""
import hashlib, random
from hypothesis import strategies as st

ID = "C35"
LEVEL = "exploration"
ENGINE = "E0 pure"
TECHNIQUE = "bounded-exhaustive adversary enumeration (trees of 1..8 leaves) + Hypothesis histories (up to 64 leaves), oracle = genuine HashTree + state-unchanged-on-reject invariant"
RULE = ("exhaustive: n=1..8 leaves x every set of already-validated leaves x every target leaf x every genuine/forged/missing assignment "
        "over the needed hashes x leaf genuine/forged x one extra entry (none / duplicate of each already-known node / forged root / a hash number outside the tree: len, 60000, -1, listed last) x two "
        "argument forms; random: histories of genuine validations in random order interleaved with adversarial calls (arbitrary forged, "
        "missing, duplicate and unneeded entries, forged values planted for not-yet-validated leaves followed by a hash number outside the tree) on trees up to 64 leaves; "
        "a rejection is any exception. Non-trivial = a call that contains at least one forged or "
        "missing or duplicate entry; distinct by full case description.")
LEVEL_TEXT = ("Complete enumeration of the adversary's choices for trees up to 8 leaves with real SHA-256d hashes (forged = fresh random), and random "
              "histories up to 64 leaves. After every call: success => every stored node equals the genuine tree; rejection => stored nodes identical "
              "to before; genuine needed hashes + genuine leaf => accepted, in any order.")
ASSUMPTIONS = ["forged hashes are fresh random 32-byte strings (collisions with genuine hashes are not modelled)",
               "the tree is seeded with the genuine root before untrusted input, as the class docstring prescribes"]
EXHAUSTIVE = {"quick": True, "thorough": True}
REQUIRED_CLASSES = ["accepted-genuine", "rejected-forged", "rejected-missing", "rejected-with-duplicate-of-known", "rejected-index-outside-tree"]
BUDGET = {"quick": 600, "thorough": 3600}

_G = {}


def leaf_hash(n, i):
    return hashlib.sha256(b"leaf-%d-%d" % (n, i)).digest()


def forged(tag):
    return hashlib.sha256(b"forged-" + repr(tag).encode()).digest()


def genuine(n):
    from allmydata.hashtree import HashTree
    if n not in _G:
        _G[n] = HashTree([leaf_hash(n, i) for i in range(n)])
    return _G[n]


def plan(tier):
    shards = []
    for n in range(1, 9):
        total = 1 << n
        parts = 1 if n < 6 else (4 if n == 6 else (8 if n == 7 else 16))
        step = total // parts
        for i in range(parts):
            shards.append({"kind": "ex", "n": n, "lo": i * step, "hi": (i + 1) * step})
    cnt = 150 if tier == "quick" else 2500
    for i in range(8):
        shards.append({"kind": "hyp", "n": cnt})
    return shards


def run_shard(spec, ctx):
    if spec["kind"] == "ex":
        n = spec["n"]

        def gen():
            for pre in range(spec["lo"], spec["hi"]):
                for t in range(n):
                    yield {"mode": "ex", "n": n, "pre": pre, "t": t}
        ctx.enumerate(gen(), run_case_ex)
    else:
        ctx.drive(histories(), spec["n"], run_case)


def run_case(case, ctx):
    if case.get("mode") == "ex":
        return run_case_ex(case, ctx)
    if case.get("mode") == "one":
        return run_one(case, ctx)
    return run_history(case, ctx)


def _prepared(n, pre, ctx):
    """iht with trusted root and the leaves in bitmask `pre` validated genuinely."""
    from allmydata.hashtree import IncompleteHashTree
    G = genuine(n)
    iht = IncompleteHashTree(n)
    iht.set_hashes({0: G[0]})
    for i in range(n):
        if (pre >> i) & 1:
            need = iht.needed_hashes(i, include_leaf=False)
            try:
                iht.set_hashes({j: G[j] for j in need}, leaves={i: leaf_hash(n, i)})
            except Exception as e:
                ctx.fail("genuine-rejected", "genuine needed hashes %r + genuine leaf %d rejected (%r) n=%d pre=%s" % (sorted(need), i, e, n, bin(pre)))
    return G, iht


def _apply(ctx, G, iht, hashes, leaves, expect_ok, must_fail, desc, classes):
    before = list(iht)
    try:
        iht.set_hashes(dict(hashes), leaves=dict(leaves))
        ok = True
        err = None
    except Exception as e:
        ok = False
        err = e
    if ok:
        bad = [i for i in range(len(iht)) if iht[i] is not None and iht[i] != G[i]]
        ctx.check(not bad, "forged-accepted", "set_hashes succeeded but nodes %r differ from the genuine tree; %s" % (bad, desc))
        ctx.check(not must_fail, "forged-accepted", "set_hashes accepted a call containing a forged/unverifiable value; %s" % desc)
        lost = [i for i in range(len(iht)) if before[i] is not None and iht[i] is None]
        ctx.check(not lost, "state-lost", "successful call erased nodes %r; %s" % (lost, desc))
    else:
        changed = [i for i in range(len(iht)) if iht[i] != before[i]]
        ctx.check(not changed, "state-changed-on-reject", "rejected call (%r) changed nodes %r; %s" % (err, changed, desc))
        ctx.check(not expect_ok, "genuine-rejected", "genuine needed hashes + genuine leaf rejected with %r; %s" % (err, desc))
    return ok


def run_case_ex(case, ctx):
    n, pre, t = case["n"], case["pre"], case["t"]
    # enumerate all adversary choices for this (n, pre, t) inside one case to amortise set-up;
    # a single choice can be replayed with mode "one"
    G, base = _prepared(n, pre, ctx)
    needed = sorted(base.needed_hashes(t, include_leaf=False))
    known = [i for i in range(len(base)) if base[i] is not None]
    extras = [None] + [("dup", i) for i in known] + [("forged-root", 0)] + [("poison", len(base)), ("poison", 60000), ("poison", -1)]
    k = len(needed)
    count = 0
    for assign in range(3 ** k):
        for leafmode in (0, 1):
            for ex in extras:
                for form in (0, 1):
                    one = {"mode": "one", "n": n, "pre": pre, "t": t, "assign": assign, "leaf": leafmode,
                           "extra": list(ex) if ex else None, "form": form}
                    run_one(one, ctx, prepared=(G, base, needed))
                    count += 1
    ctx.evaluations += count - 1


def run_one(case, ctx, prepared=None):
    from allmydata.hashtree import IncompleteHashTree
    n, pre, t = case["n"], case["pre"], case["t"]
    if prepared:
        G, base, needed = prepared
        iht = IncompleteHashTree(n)
        iht[:] = list(base)
    else:
        G, iht = _prepared(n, pre, ctx)
        needed = sorted(iht.needed_hashes(t, include_leaf=False))
    a = case["assign"]
    hashes = {}
    nforged = nmissing = 0
    for j in needed:
        m = a % 3
        a //= 3
        if m == 0:
            hashes[j] = G[j]
        elif m == 1:
            hashes[j] = forged((n, pre, t, j))
            nforged += 1
        else:
            nmissing += 1
    leafidx = iht.first_leaf_num + t
    lh = leaf_hash(n, t) if case["leaf"] == 0 else forged((n, pre, t, "leaf"))
    if case["leaf"] == 1:
        nforged += 1
    leaf_known = iht[leafidx] is not None
    leaves = {}
    if case["form"] == 0:
        leaves[t] = lh
    else:
        hashes[leafidx] = lh
    dup = False
    poison = False
    ex = case["extra"]
    if ex:
        if ex[0] == "dup":
            if ex[1] not in hashes:
                hashes[ex[1]] = G[ex[1]]
                dup = True
        elif ex[0] == "poison":
            # a hash number that does not exist in the tree, listed after everything else (so the other entries have been provisionally added)
            hashes[ex[1]] = forged((n, "poison", ex[1]))
            poison = True
        else:
            hashes[0] = forged((n, "root"))
            nforged += 1
    expect_ok = nforged == 0 and nmissing == 0 and not poison
    # a missing needed hash makes the leaf unverifiable unless it was already known
    must_fail = nforged > 0 or (nmissing > 0 and not leaf_known) or poison
    desc = "n=%d validated-leaves=%s target=%d needed=%r call: hashes=%r leaves=%r (forged=%d missing=%d dup=%s)" % (
        n, bin(pre), t, needed, sorted(hashes), sorted(leaves), nforged, nmissing, dup)
    classes = []
    ok = _apply(ctx, G, iht, hashes, leaves, expect_ok, must_fail, desc, classes)
    if ok:
        classes.append("accepted-genuine")
    else:
        if nforged:
            classes.append("rejected-forged")
        if nmissing:
            classes.append("rejected-missing")
        if dup:
            classes.append("rejected-with-duplicate-of-known")
        if poison:
            classes.append("rejected-index-outside-tree")
    nt = nforged > 0 or nmissing > 0 or dup or poison
    ctx.note(sig=(n, pre, t, case["assign"], case["leaf"], repr(ex), case["form"]), nontrivial=nt, classes=classes,
             sample={"case": case, "needed": needed, "accepted": ok} if (pre and nt) else None)


# ---- random histories -----------------------------------------------------
@st.composite
def histories(draw):
    n = draw(st.sampled_from([1, 2, 3, 5, 8, 9, 13, 16, 17, 31, 33, 64]) | st.integers(1, 64))
    steps = []
    for _ in range(draw(st.integers(1, 12))):
        leaf = draw(st.integers(0, n - 1))
        kind = draw(st.sampled_from(["genuine", "genuine", "adversary"]))
        if kind == "genuine":
            steps.append({"k": "g", "leaf": leaf, "form": draw(st.integers(0, 1)), "dups": draw(st.integers(0, 3))})
        else:
            steps.append({"k": "a", "leaf": leaf,
                          "forge": draw(st.lists(st.integers(0, 2 * 64), max_size=3)),
                          "drop": draw(st.lists(st.integers(0, 7), max_size=2)),
                          "extra": draw(st.lists(st.tuples(st.integers(0, 2 * 64), st.booleans()), max_size=3)),
                          "forge_leaf": draw(st.booleans()),
                          "poison": draw(st.sampled_from([None, None, None, "size", "size+", 60000, 65535, -1, "-size-1"])),
                          "plant": draw(st.lists(st.integers(0, 63), max_size=3))})
    return {"mode": "hist", "n": n, "steps": steps}


def run_history(case, ctx):
    from allmydata.hashtree import IncompleteHashTree
    n = case["n"]
    G = genuine(n)
    iht = IncompleteHashTree(n)
    iht.set_hashes({0: G[0]})
    size = len(iht)
    nt = False
    classes = []
    for si, s in enumerate(case["steps"]):
        t = s["leaf"]
        need = sorted(iht.needed_hashes(t, include_leaf=False))
        leafidx = iht.first_leaf_num + t
        if s["k"] == "g":
            hashes = {j: G[j] for j in need}
            known = [i for i in range(size) if iht[i] is not None]
            for d in range(min(s["dups"], len(known))):
                hashes[known[(d * 7 + t) % len(known)]] = G[known[(d * 7 + t) % len(known)]]
            leaves = {}
            if s["form"]:
                hashes[leafidx] = G[leafidx]
            else:
                leaves[t] = G[leafidx]
            ok = _apply(ctx, G, iht, hashes, leaves, True, False, "n=%d step %d genuine leaf %d need=%r" % (n, si, t, need), classes)
            classes.append("accepted-genuine")
            if s["dups"]:
                nt = True
        else:
            hashes = {j: G[j] for j in need}
            nforged = 0
            unverifiable = False
            for f in s["forge"]:
                if need:
                    j = need[f % len(need)]
                    hashes[j] = forged((n, si, j))
                    nforged += 1
            for d in s["drop"]:
                if need:
                    j = need[d % len(need)]
                    if j in hashes and hashes[j] == G[j]:
                        del hashes[j]
                        unverifiable = True
            dup = False
            for (e, fg) in s["extra"]:
                j = e % size
                if j in hashes:
                    continue
                if fg:
                    hashes[j] = forged((n, si, "x", j))
                    nforged += 1
                else:
                    hashes[j] = G[j]
                    if iht[j] is not None:
                        dup = True
            lh = G[leafidx]
            if s["forge_leaf"]:
                lh = forged((n, si, "leaf"))
                nforged += 1
            leaf_known = iht[leafidx] is not None
            poisoned = False
            if s.get("poison") is not None:
                # forged values for leaves not validated yet ("plants"), then a hash number that does not exist in the tree
                for pl in s.get("plant", []):
                    j = iht.first_leaf_num + pl % n
                    if j not in hashes and iht[j] is None:
                        hashes[j] = forged((n, si, "plant", j))
                        nforged += 1
                pz = s["poison"]
                pidx = {"size": size, "size+": size + 1 + si, "-size-1": -size - 1}.get(pz, pz)
                hashes[pidx] = forged((n, si, "poison"))
                poisoned = True
                nforged += 1
            hashes_before = dict(hashes)
            ok = _apply(ctx, G, iht, hashes, {t: lh}, False, nforged > 0,
                        "n=%d step %d adversarial leaf %d need=%r hashes=%r forged=%d" % (n, si, t, need, sorted(hashes_before), nforged), classes)
            nt = True
            if not ok:
                if nforged:
                    classes.append("rejected-forged")
                if unverifiable:
                    classes.append("rejected-missing")
                if dup:
                    classes.append("rejected-with-duplicate-of-known")
                if poisoned:
                    classes.append("rejected-index-outside-tree")
    ctx.note(sig=repr(case), nontrivial=nt, classes=sorted(set(classes)) + (["n>8"] if n > 8 else []), sample=case)
