"""C24 read-test-write is atomic and guarded by the write enabler."""
from hypothesis import strategies as st
from vf import boot, store, slots
from vf.core import pbytes

ID = "C24"
LEVEL = "exploration"
ENGINE = "E1 store"
TECHNIQUE = "model-based testing: Hypothesis multi-share read-test-write requests on a real StorageServer; oracle = all-or-nothing byte-for-byte snapshot comparison of every share file + pre-state read results"
RULE = ("per case: a slot with 0-4 existing shares, each created under one of 3 write enablers (server-created or placed directly, so that one slot can hold "
        "shares with different enablers), then <=12 requests naming 1-4 shares (existing and new) with per-share test vectors (matching / failing / 'must not "
        "exist'), write vectors, new_length and a read vector, sent with a drawn enabler. Oracle: if any test fails or the enabler differs from ANY existing "
        "share of the slot -> every file byte-identical afterwards (and BadWriteEnablerError for the latter); otherwise every named share changed as the model "
        "says; read results always equal the pre-request data. Non-trivial = request that must be refused while naming >=2 shares or with mixed enablers in the "
        "slot; distinct by case."
        ' Write vectors also use offsets at or just above MutableShareFile.MAX_SIZE: such a request may fail, but then the share directory must be byte-identical.')
LEVEL_TEXT = "Random multi-share requests; all-or-nothing is decided by comparing complete snapshots of the share directory before and after every refused request."
ASSUMPTIONS = ["shares with foreign write enablers are placed in the bucket directory directly (the API cannot create them on a correct server)"]
REQUIRED_CLASSES = ["write-beyond-max-size", "bad-enabler", "testv-failed", "mixed-enablers", "multi-share-refused", "applied-multi", "enabler-mismatch-on-unnamed-share"]
BUDGET = {"quick": 600, "thorough": 3600}


def plan(tier):
    n = 300 if tier == "quick" else 1500
    return [{"kind": "hyp", "n": n} for _ in range(16)]


def cases():
    test = st.tuples(st.sampled_from(["in", "end", "abs"]), st.integers(0, 100), st.integers(0, 30), st.sampled_from(["ok", "ok", "bad", "empty"]))
    vec = st.tuples(st.sampled_from(["in", "in", "end", "end", "past", "past", "abs", "abs", "toobig"]), st.integers(0, 200), st.integers(1, 60))
    share_spec = st.fixed_dictionaries({"tests": st.lists(test, max_size=2), "writes": st.lists(vec, max_size=2),
                                        "newlen": st.tuples(st.sampled_from(["none", "none", "smaller", "zero", "larger"]), st.integers(0, 100))})
    req = st.fixed_dictionaries({"spec": st.dictionaries(st.sampled_from(["0", "1", "2", "3", "4"]), share_spec, min_size=1, max_size=4),
                                 "enabler": st.integers(0, 2), "lease": st.integers(0, 2),
                                 "readv": st.lists(st.tuples(st.integers(0, 200), st.integers(0, 100)), max_size=2)})
    existing = st.lists(st.tuples(st.integers(0, 4), st.sampled_from([0, 0, 0, 1, 2]), st.integers(0, 150), st.sampled_from([1, 2])), max_size=4)
    return st.fixed_dictionaries({"existing": existing, "reqs": st.lists(req, min_size=1, max_size=12)})


def run_shard(spec, ctx):
    ctx.drive(cases(), spec["n"], run_case)


def run_case(case, ctx):
    boot.cancel_all_timers()
    w = slots.SlotWorld(ctx, ctx.casedir())
    si_i = 0
    for (sh, en, size, ver) in case["existing"]:
        if w.create_direct(si_i, sh, en, ver) and size:
            # fill through the container API (no enabler check there)
            from allmydata.storage.mutable import MutableShareFile
            data = pbytes(sh * 7 + en, size)
            MutableShareFile(w.path(si_i, sh), w.ss).writev([(0, data)], None)
            w.shares[(si_i, sh)].data = bytearray(data)
    w.check_all("after set-up")
    nt = False
    for step, r in enumerate(case["reqs"]):
        what = "request %d enabler#%d spec=%r" % (step, r["enabler"], r["spec"])
        existing = {sh: m for (s, sh), m in w.shares.items() if s == si_i}
        ens = {m.enabler_i for m in existing.values()}
        if len(ens) > 1:
            w.classes.add("mixed-enablers")
        tw = w.build_tw(si_i, r["spec"], step)
        named_existing = [sh for sh in tw if sh in existing]
        if any(m.enabler_i != r["enabler"] for sh, m in existing.items() if sh not in tw) and all(existing[sh].enabler_i == r["enabler"] for sh in named_existing):
            w.classes.add("enabler-mismatch-on-unnamed-share")
        res = w.rtw(si_i, r["enabler"], r["lease"], tw, [tuple(x) for x in r["readv"]], what)
        if res in ("bad-enabler", "tests-failed", "refused-oversized") and (len(tw) >= 2 or len(ens) > 1):
            w.classes.add("multi-share-refused")
            nt = True
        if res == "applied" and len(tw) >= 2:
            w.classes.add("applied-multi")
        w.check_all(what)
    boot.cancel_all_timers()
    ctx.note(sig=repr(case), nontrivial=nt, classes=sorted(w.classes), sample={"existing": case["existing"], "reqs": case["reqs"][:3], "n": len(case["reqs"])})
