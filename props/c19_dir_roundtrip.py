"""C19 directory contents round-trip through pack/unpack."""
import json, unicodedata
from hypothesis import strategies as st
from vf import caps

ID = "C19"
LEVEL = "exploration"
ENGINE = "E0 pure"
TECHNIQUE = ("Hypothesis round-trip: generated child sets (Unicode names incl. NFC-changing and NFC-colliding spellings, caps of every file/directory kind and unknown future "
             "caps with ro./imm. prefixes, nested JSON metadata) packed with the real pack_children and unpacked by real DirectoryNode objects opened through write, read-only "
             "and immutable directory caps; oracle = dict model over normalized names + independently derived read-only caps")
RULE = ("each case: 0-50 children; names drawn from text that includes precomposed/decomposed pairs, compatibility characters, Hangul jamo and unassigned code points; each "
        "child a cap of kind CHK, LIT, SSK(-RO), MDMF(-RO), DIR2*, DIR2-MDMF*, DIR2-CHK, DIR2-LIT or an unknown cap (rw+ro, ro only, imm.); metadata = nested JSON. "
        "Round trip 1: pack with the parent's write key, unpack through the write-cap directory => names == NFC(names) with dict semantics on collisions, write and "
        "read-only caps equal, metadata equal; unpack through the read-only directory => same names/read caps/metadata and no write cap at all. Round trip 2: pack with "
        "deep_immutable=True => MustBeDeepImmutableError iff some child is mutable or write-capable (and it names such a child), otherwise unpacking through an immutable "
        "directory returns the same names/caps/metadata. Non-trivial = >=1 name changed by NFC or colliding after NFC, or an unknown cap child; distinct by whole case.")
LEVEL_TEXT = "Random search with a round-trip oracle and a dictionary model of name normalization."
ASSUMPTIONS = ["children carry a read cap (verify-only caps are not linked as children)", "metadata is JSON-representable without NaN/Infinity"]
REQUIRED_CLASSES = ["nfc-changed-name", "nfc-collision", "unknown-child", "deep-immutable-ok", "deep-immutable-refused", "readonly-parent", "mdmf-parent", "empty", ">=20-children"]
BUDGET = {"quick": 600, "thorough": 3600}
CHILD_KINDS = ["CHK", "LIT", "SSK", "SSK-RO", "MDMF", "MDMF-RO", "DIR2", "DIR2-RO", "DIR2-MDMF", "DIR2-MDMF-RO", "DIR2-CHK", "DIR2-LIT"]
IMMUTABLE_KINDS = {"CHK", "LIT", "DIR2-CHK", "DIR2-LIT"}


def plan(tier):
    n = 150 if tier == "quick" else 3000
    return [{"kind": "hyp", "n": n} for _ in range(16)]


special = st.sampled_from(["\u00e9", "e\u0301", "\u00c5", "A\u030a", "\u212b", "\uac00", "\u1100\u1161", "\ufb01", "fi", "\u0378", "\u03a9", "\u2126", "a", "B", " ", ".", "/", "\u0301"])
names = st.one_of(st.text(max_size=6), st.lists(special, min_size=1, max_size=4).map("".join), st.text(alphabet=st.characters(min_codepoint=0x300, max_codepoint=0x36f), min_size=1, max_size=2).map(lambda s: "a" + s))
json_leaf = st.one_of(st.none(), st.booleans(), st.integers(-2 ** 70, 2 ** 70), st.floats(allow_nan=False, allow_infinity=False), st.text(max_size=8))
json_val = st.recursive(json_leaf, lambda ch: st.one_of(st.lists(ch, max_size=3), st.dictionaries(st.text(max_size=5), ch, max_size=3)), max_leaves=8)
metadata = st.dictionaries(st.text(max_size=6), json_val, max_size=4)


@st.composite
def child(draw, immutable_only):
    kind = draw(st.sampled_from((sorted(IMMUTABLE_KINDS) + ["unknown-imm"]) if immutable_only else (CHILD_KINDS + ["unknown-rw", "unknown-ro", "unknown-imm"])))
    p = {"kind": kind, "a": draw(st.integers(0, 50)), "b": draw(st.integers(0, 50)), "k": draw(st.integers(1, 20)), "n": draw(st.integers(20, 40)),
         "size": draw(st.integers(0, 10 ** 6)), "lit": draw(st.binary(max_size=20)).hex()}
    return p


@st.composite
def cases(draw):
    imm_only = draw(st.sampled_from([False, False, True]))
    nchildren = draw(st.sampled_from([0, 1, 2, 3, 5, 8, 20, 50]))
    children = [[draw(names), draw(child(imm_only)), draw(metadata)] for _ in range(nchildren)]
    return {"parent": draw(st.sampled_from(["DIR2", "DIR2-MDMF"])), "pa": draw(st.integers(0, 20)), "children": children}


def run_shard(spec, ctx):
    ctx.drive(cases(), spec["n"], run_case)


_NM = []


def nodemaker():
    if not _NM:
        from allmydata.nodemaker import NodeMaker
        from allmydata.client import SecretHolder
        from allmydata.interfaces import SDMF_VERSION
        _NM.append(NodeMaker(None, SecretHolder(b"lease", b"conv"), None, None, None, {"k": 3, "n": 10, "happy": 7, "max_segment_size": 1000}, SDMF_VERSION, None, None))
    return _NM[0]


def make_child(p):
    """-> (node, expected rw string|None, expected ro string, is deep-immutable)"""
    nm = nodemaker()
    kind = p["kind"]
    if kind.startswith("unknown"):
        tag = b"%d-%d" % (p["a"], p["b"])
        if kind == "unknown-rw":
            node = nm.create_from_cap(b"URI:FUTURE-RW:" + tag, b"URI:FUTURE-RO:" + tag)
        elif kind == "unknown-ro":
            node = nm.create_from_cap(None, b"ro.URI:FUTURE-RO:" + tag)
        else:
            node = nm.create_from_cap(None, b"imm.URI:FUTURE-IMM:" + tag)
        # an unknown cap given only in the read slot is allowed in an immutable directory (documented in UnknownNode.is_allowed_in_immutable_directory)
        return node, node.get_write_uri(), node.get_readonly_uri(), kind in ("unknown-imm", "unknown-ro")
    cap = caps.make(p)
    s = cap.to_string()
    if kind in caps.WRITE_KINDS:
        node = nm.create_from_cap(s, cap.get_readonly().to_string())
        return node, s, cap.get_readonly().to_string(), False
    node = nm.create_from_cap(None, s)
    return node, None, s, kind in IMMUTABLE_KINDS


def run_case(case, ctx):
    from allmydata.dirnode import pack_children, MustBeDeepImmutableError
    from allmydata import uri
    nm = nodemaker()
    pcap = caps.make({"kind": case["parent"], "a": 1000 + case["pa"], "b": 2000 + case["pa"], "k": 1, "n": 1, "size": 0, "lit": ""})
    wnode = nm.create_from_cap(pcap.to_string())
    rnode = nm.create_from_cap(None, pcap.get_readonly().to_string())
    writekey = wnode._node.get_writekey()
    classes = set()
    childrenx, model, info = {}, {}, {}
    changed = collided = unknown = False
    for (name, p, md) in case["children"]:
        node, rw, ro, imm = make_child(p)
        childrenx[name] = (node, md)
        nn = unicodedata.normalize("NFC", name)
        if nn != name:
            changed = True
        if nn in model and model[nn][3] != name:
            collided = True
        model[nn] = (rw, ro, md, name, imm, p["kind"])
        if p["kind"].startswith("unknown"):
            unknown = True
    # the model follows dict semantics of the input mapping: a later spelling of the same normalized name wins
    model = {}
    for name, (node, md) in childrenx.items():
        nn = unicodedata.normalize("NFC", name)
        p = next(pp for (n2, pp, m2) in reversed(case["children"]) if n2 == name)
        node2, rw, ro, imm = make_child(p)
        model[nn] = (rw, ro, md, imm, p["kind"])
    desc = "parent=%s children=%r" % (case["parent"], [(n, p["kind"]) for (n, p, m) in case["children"]][:12])
    packed = pack_children(childrenx, writekey)

    def compare(got, with_rw, label):
        ctx.check(set(got.keys()) == set(model.keys()), "names", "%s: %s: unpacked names %r, expected %r" % (desc, label, sorted(got.keys()), sorted(model.keys())), view=label)
        for nn, (rw, ro, md, imm, kind) in model.items():
            ch, gmd = got[nn]
            gro = ch.get_readonly_uri()
            if kind.startswith("unknown") and label.startswith("immutable"):
                # the ro./imm. prefix of an unknown cap is implied by the context it is read back in
                strip = lambda x: x[x.index(b"URI:"):] if x else x
                gro, ro = strip(gro), strip(ro)
            ctx.check(gro == ro, "ro-cap", "%s: %s: child %r (%s) read cap %r, expected %r" % (desc, label, nn, kind, ch.get_readonly_uri(), ro), view=label, ckind=kind)
            exp_rw = rw if with_rw else None
            ctx.check(ch.get_write_uri() == exp_rw, "rw-cap", "%s: %s: child %r (%s) write cap %r, expected %r" % (desc, label, nn, kind, ch.get_write_uri(), exp_rw), view=label, ckind=kind)
            ctx.check(gmd == json.loads(json.dumps(md)) and gmd == md, "metadata", "%s: %s: child %r metadata %r, expected %r" % (desc, label, nn, gmd, md), view=label)
    compare(wnode._unpack_contents(packed), True, "write-cap view")
    compare(rnode._unpack_contents(packed), False, "read-cap view")
    classes.add("readonly-parent")
    if case["parent"] == "DIR2-MDMF":
        classes.add("mdmf-parent")
    # ---- deep-immutable packing
    offenders = [nn for nn, (rw, ro, md, imm, kind) in model.items() if not imm]
    try:
        ipacked = pack_children(childrenx, None, deep_immutable=True)
        refused = None
    except MustBeDeepImmutableError as e:
        refused = e
    if offenders:
        classes.add("deep-immutable-refused")
        ctx.check(refused is not None, "mutable-child-in-immutable-dir", "%s: packing as an immutable directory accepted mutable/writeable children %r" % (desc, [(o, model[o][4]) for o in offenders]),
                  kinds=sorted(set(model[o][4] for o in offenders)))
    else:
        classes.add("deep-immutable-ok")
        ctx.check(refused is None, "immutable-child-refused", "%s: packing as an immutable directory refused although every child is immutable: %r" % (desc, refused))
        if refused is None:
            icap = uri.ImmutableDirectoryURI(uri.CHKFileURI(b"k" * 16, b"h" * 32, 1, 1, max(56, len(ipacked))))
            inode = nm.create_from_cap(None, icap.to_string())
            compare(inode._unpack_contents(ipacked), False, "immutable-directory view")
    if changed:
        classes.add("nfc-changed-name")
    if len(model) < len(childrenx):
        classes.add("nfc-collision")
    if unknown:
        classes.add("unknown-child")
    if not case["children"]:
        classes.add("empty")
    if len(case["children"]) >= 20:
        classes.add(">=20-children")
    ctx.note(sig=repr(case), nontrivial=changed or unknown or len(model) < len(childrenx), classes=sorted(classes),
             sample={"parent": case["parent"], "children": [(n, p["kind"], m) for (n, p, m) in case["children"]][:6]})
