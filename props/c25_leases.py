"""C25 lease semantics on immutable and mutable shares, v1 and v2 containers."""
import os, struct
from hypothesis import strategies as st
from vf import boot, store, slots
from vf.core import pbytes

ID = "C25"
LEVEL = "exploration"
ENGINE = "E1 store"
TECHNIQUE = "model-based testing: Hypothesis histories of add/renew/cancel/allocate/slot-write/clock operations on a real StorageServer vs. a lease-table model (renew secret -> expiry), plus a raw-bytes scan of the container files"
RULE = ("per case: one immutable storage index (0-3 shares, v1 or v2 container) and one mutable slot (0-3 shares, v1 or v2), then <=30 operations: add_lease "
        "with a secret from a pool of 8 (repeats) , renew_lease with known / unknown secrets, a second allocate_buckets by another uploader, slot writes "
        "that grow or shrink containers, container-level cancel_lease, clock advances (forward only). After every operation: one lease per renew secret, "
        "expiry never decreases and equals the model, unknown renew => IndexError and byte-identical files, data unchanged by lease operations, v2 files "
        "contain no secret in cleartext (v1 files do - sanity of the scan). Non-trivial = history that adds >=5 leases to a mutable share and then grows it, "
        "re-adds an existing secret after the clock moved, or renews with an unknown secret; distinct by case.")
LEVEL_TEXT = "Random lease histories on all four container formats compared with a dictionary model after every step."
ASSUMPTIONS = ["the clock only moves forward", "cancel_lease is exercised at container level only (the server API no longer exposes it)"]
REQUIRED_CLASSES = ["re-add-existing", "renew-unknown", "renew-known", "grow-with-extra-leases", "imm-v1", "imm-v2", "mut-v1", "mut-v2", "second-uploader", "cancel"]
BUDGET = {"quick": 600, "thorough": 3600}
LEASE_TIME = slots.LEASE_TIME
IMM, MUT = 0, 1


def plan(tier):
    n = 300 if tier == "quick" else 1500
    return [{"kind": "hyp", "n": n} for _ in range(16)]


def cases():
    li = st.integers(0, 7)
    op = st.one_of(
        st.tuples(st.just("add"), st.sampled_from([IMM, MUT]), li, st.just(0)),
        st.tuples(st.just("add"), st.sampled_from([IMM, MUT]), li, st.just(0)),
        st.tuples(st.just("renew"), st.sampled_from([IMM, MUT]), li | st.integers(100, 103), st.just(0)),
        st.tuples(st.just("renew"), st.sampled_from([IMM, MUT]), st.integers(0, 2), st.just(0)),
        st.tuples(st.just("addmany"), st.sampled_from([IMM, MUT, MUT]), st.integers(0, 3), st.integers(3, 8)),
        st.tuples(st.just("write"), st.just(MUT), li, st.integers(0, 120)),
        st.tuples(st.just("realloc"), st.just(IMM), li, st.integers(0, 7)),
        st.tuples(st.just("write"), st.just(MUT), li, st.integers(0, 400)),
        st.tuples(st.just("shrink"), st.just(MUT), li, st.integers(0, 100)),
        st.tuples(st.just("cancel"), st.sampled_from([IMM, MUT]), li, st.integers(0, 3)),
        st.tuples(st.just("advance"), st.just(0), st.just(0), st.sampled_from([1, 60, 86400, 86400 * 20, 86400 * 40])),
    )
    share = st.tuples(st.integers(0, 2), st.sampled_from([1, 2]), st.integers(1, 150))
    return st.fixed_dictionaries({"imm": st.lists(share, max_size=3, unique_by=lambda t: t[0]), "mut": st.lists(share, max_size=3, unique_by=lambda t: t[0]),
                                  "ops": st.lists(op, min_size=1, max_size=30)})


def run_shard(spec, ctx):
    ctx.drive(cases(), spec["n"], run_case)


class IShare:
    def __init__(self, data, version):
        self.data, self.version, self.leases = data, version, {}


def imm_path(ss, sh):
    from allmydata.storage.common import storage_index_to_dir
    return os.path.join(ss.sharedir, storage_index_to_dir(store.si(10)), "%d" % sh)


def run_case(case, ctx):
    from allmydata.storage.immutable import ShareFile
    from allmydata.storage.mutable import MutableShareFile
    from allmydata.storage import immutable_schema
    from allmydata.storage.lease import LeaseInfo
    boot.cancel_all_timers()
    R = boot.R
    w = slots.SlotWorld(ctx, ctx.casedir())
    ss = w.ss
    classes = w.classes
    imm = {}
    nt = False
    # ---- set-up: immutable shares written directly with the requested container version, first lease #0
    for (sh, ver, size) in case["imm"]:
        p = imm_path(ss, sh)
        os.makedirs(os.path.dirname(p), exist_ok=True)
        data = pbytes(sh + 50, size)
        sf = ShareFile(p, max_size=size, create=True, schema=immutable_schema.schema_from_version(ver))
        sf.write_share_data(0, data)
        rs, cs = slots.lsecret(0)
        sf.add_lease(LeaseInfo(1, rs, cs, R.seconds() + LEASE_TIME, ss.my_nodeid))
        imm[sh] = IShare(data, ver)
        imm[sh].leases[0] = R.seconds() + LEASE_TIME
        classes.add("imm-v%d" % ver)
    for (sh, ver, size) in case["mut"]:
        w.create_direct(1, sh, 0, ver)
        data = pbytes(sh + 90, size)
        MutableShareFile(w.path(1, sh), ss).writev([(0, data)], None)
        w.shares[(1, sh)].data = bytearray(data)
        classes.add("mut-v%d" % ver)

    def all_files():
        return store.snapshot(ss.sharedir)

    def check(what):
        # immutable: data + leases
        b = ss.get_buckets(store.si(10))
        ctx.check(sorted(b) == sorted(imm), "share-set", "%s: immutable shares %r, model %r" % (what, sorted(b), sorted(imm)))
        for sh, m in imm.items():
            if sh not in b:
                continue
            got = b[sh].read(0, 10 ** 6)
            ctx.check(got == m.data, "data-changed-by-lease-op", "%s: immutable share %d data: %d bytes, model %d bytes%s" % (
                what, sh, len(got), len(m.data), "" if len(got) != len(m.data) else " (content differs)"))
            leases = list(ShareFile(imm_path(ss, sh)).get_leases())
            ctx.check(len(leases) == len(m.leases), "lease-count", "%s: immutable share %d (v%d) has %d leases, model %d" % (what, sh, m.version, len(leases), len(m.leases)))
            for li, exp in m.leases.items():
                rs, cs = slots.lsecret(li)
                match = [l for l in leases if l.is_renew_secret(rs)]
                ctx.check(len(match) == 1, "lease-missing-or-duplicate", "%s: immutable share %d: %d leases match renew secret #%d (share has %d leases)" % (what, sh, len(match), li, len(leases)))
                if len(match) == 1:
                    ctx.check(match[0].get_expiration_time() == int(exp), "lease-expiry", "%s: immutable share %d lease #%d expires %r, model %r" % (what, sh, li, match[0].get_expiration_time(), int(exp)))
            raw = open(imm_path(ss, sh), "rb").read()
            for li in m.leases:
                rs, cs = slots.lsecret(li)
                if m.version == 2:
                    ctx.check(rs not in raw and cs not in raw, "cleartext-secret", "%s: v2 immutable container %d stores lease secret #%d in cleartext" % (what, sh, li))
                else:
                    ctx.check(rs in raw, "scan-sanity", "%s: v1 immutable container %d does not contain renew secret #%d" % (what, sh, li))
        for (s, sh), m in w.shares.items():
            raw = open(w.path(s, sh), "rb").read()
            for li in m.leases:
                rs, cs = slots.lsecret(li)
                if m.version == 2:
                    ctx.check(rs not in raw and cs not in raw, "cleartext-secret", "%s: v2 mutable container %d stores lease secret #%d in cleartext" % (what, sh, li))
                else:
                    ctx.check(rs in raw, "scan-sanity", "%s: v1 mutable container %d does not contain renew secret #%d" % (what, sh, li))
        w.check_all(what)

    check("after set-up")
    for step, (kind, which, li, a) in enumerate(case["ops"]):
        what = "step %d %s(%s, secret#%d, %d) t=%d" % (step, kind, "imm" if which == IMM else "mut", li, a, R.seconds())
        si = store.si(10) if which == IMM else store.si(1)
        targets = list(imm.values()) if which == IMM else [m for (s, sh), m in w.shares.items() if s == 1]
        rs, cs = slots.lsecret(li)
        newexp = R.seconds() + LEASE_TIME
        if kind in ("add", "addmany"):
            for lj in ([li] if kind == "add" else [(li + j) % 8 for j in range(a)]):
                rs, cs = slots.lsecret(lj)
                try:
                    ss.add_lease(si, rs, cs)
                except Exception as e:
                    ctx.fail("add-lease-raised", "%s: %r" % (what, e))
                    return
                for m in targets:
                    if lj in m.leases:
                        classes.add("re-add-existing")
                        if newexp > m.leases[lj]:
                            nt = True
                        m.leases[lj] = max(m.leases[lj], newexp)
                    else:
                        m.leases[lj] = newexp
        elif kind == "renew":
            have = [m for m in targets if li in m.leases]
            before = all_files()
            try:
                ss.renew_lease(si, rs)
                err = None
            except Exception as e:
                err = e
            if not have:
                classes.add("renew-unknown")
                nt = True
                ctx.check(isinstance(err, IndexError), "renew-unknown-accepted", "%s: renewing with a secret no share knows returned %r instead of IndexError" % (what, err))
                ctx.check(all_files() == before, "renew-unknown-changed-state", "%s: failed renewal changed share files" % what)
            elif len(have) == len(targets):
                classes.add("renew-known")
                ctx.check(err is None, "renew-known-failed", "%s: %r" % (what, err))
                for m in have:
                    m.leases[li] = max(m.leases[li], newexp)
            else:
                # some shares know the secret, others do not: order of processing is unspecified -> adopt what happened, but only monotone changes
                classes.add("renew-mixed")
                for m in have:
                    m.leases[li] = None  # resolved below
                for sh, m in (imm.items() if which == IMM else [(sh, m) for (s, sh), m in w.shares.items() if s == 1]):
                    if m.leases.get(li, 0) is None:
                        leases = list(ShareFile(imm_path(ss, sh)).get_leases()) if which == IMM else w.leases_of(1, sh)
                        match = [l for l in leases if l.is_renew_secret(rs)]
                        ctx.check(len(match) == 1, "lease-missing-or-duplicate", "%s: share %d" % (what, sh))
                        m.leases[li] = match[0].get_expiration_time() if match else newexp
        elif kind == "realloc":
            # another uploader asks for shares of the same immutable SI: existing ones get its lease
            shnums = {s for s in range(3) if (a >> s) & 1} | set(imm)
            try:
                already, writers = ss.allocate_buckets(si, rs, cs, shnums, 10)
            except Exception as e:
                ctx.fail("allocate-raised", "%s: %r" % (what, e))
                return
            for bw in writers.values():
                bw.abort()
            classes.add("second-uploader")
            for m in imm.values():
                if li in m.leases:
                    classes.add("re-add-existing")
                    m.leases[li] = max(m.leases[li], newexp)
                else:
                    m.leases[li] = newexp
        elif kind in ("write", "shrink"):
            cand = sorted(sh for (s, sh) in w.shares if s == 1)
            if not cand:
                continue
            sh = cand[li % len(cand)]
            m = w.shares[(1, sh)]
            n = len(m.data)
            if kind == "write":
                tw = {sh: ([], [(n + (a % 7 if a % 3 == 0 else 0), pbytes(step, 1 + a))], None)}
                if len(m.leases) > 4:
                    classes.add("grow-with-extra-leases")
                    nt = True
            else:
                tw = {sh: ([], [], max(1, n * a // 101))}
            w.rtw(1, 0, li, tw, [], what)
        elif kind == "cancel":
            items = sorted(imm.items()) if which == IMM else sorted((sh, m) for (s, sh), m in w.shares.items() if s == 1)
            if not items:
                continue
            sh, m = items[a % len(items)]
            if li not in m.leases or len(m.leases) < 2:
                continue
            sf = ShareFile(imm_path(ss, sh)) if which == IMM else MutableShareFile(w.path(1, sh), ss)
            try:
                sf.cancel_lease(cs)
            except Exception as e:
                ctx.fail("cancel-raised", "%s: %r" % (what, e))
                return
            del m.leases[li]
            classes.add("cancel")
        else:
            R.advance(a)
        check(what)
    boot.cancel_all_timers()
    ctx.note(sig=repr(case), nontrivial=nt, classes=sorted(classes), sample={"imm": case["imm"], "mut": case["mut"], "ops": case["ops"][:10], "n": len(case["ops"])})
