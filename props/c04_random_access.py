"""C04 random-access and concurrent immutable reads: every (offset,size) read returns exactly the clipped slice; concurrent reads on one node are
independent; pause/resume/stop of one consumer does not disturb the others."""
from hypothesis import strategies as st
from vf import boot
from vf.core import pbytes
from vf.grid import Grid, Consumer

ID = "C04"
LEVEL = "exploration"
ENGINE = "E2 detgrid"
TECHNIQUE = ("Hypothesis over files x up to four concurrent (offset,size) reads drawn around segment/AES-block/EOF boundaries x consumer scripts (pause, resume, stop "
             "after the j-th write or at the t-th scheduler step, i.e. also while a segment fetch is in flight) x one generator-owned delivery schedule; slice oracle per consumer")
RULE = ("each case: a CHK file (k<=4, N<=6, segment size from {8k,16k,64,100}, 1-5 segments) or a literal file (<=55 bytes) on an honest grid; 1-4 reads on ONE node object, "
        "all started before any message is delivered, offsets/sizes drawn from {0, +-1 around every segment boundary, multiples of 16 +-1, EOF-1, EOF, EOF+1, beyond EOF, None}; "
        "each consumer has a script of pause/resume/stop events keyed by its write count or by the global scheduler step; paused consumers that the script never resumes are "
        "resumed by the harness once the system is quiescent. Oracle: an un-stopped read ends successfully having received exactly plaintext[offset:offset+size] (clipped, "
        "empty at/after EOF); a stopped read ends (DownloadStopped or, if everything had arrived, success) with a correct prefix; no read hangs. "
        "Non-trivial = >=2 reads touching a common segment, or any pause/stop event that took effect; distinct by whole case."
        ' Added dimensions: reads issued later (at a scheduler step, or while the j-th piece of CPU-thread-pool work such as a segment decode is still out), consumer events keyed to that same moment, and nodes that have served a read before (warm).')
LEVEL_TEXT = "Random search over read ranges, consumer flow-control scripts and delivery orders against the byte-slice reference."
ASSUMPTIONS = ["consumers follow the IPushProducer contract: resumeProducing only after pauseProducing, nothing after stopProducing", "honest servers (faults are C02/C03/C46)"]
REQUIRED_CLASSES = ["read-issued-during-thread-work", "stop-during-thread-work", "guess<real", "concurrent", "overlap-same-segment", "pause-in-flight", "stop", "past-eof", "at-eof", "literal", "size-none", "cross-segment"]
BUDGET = {"quick": 900, "thorough": 7200}


def plan(tier):
    n = 300 if tier == "quick" else 3000
    return [{"kind": "hyp", "n": n} for _ in range(16)]


@st.composite
def cases(draw):
    lit = draw(st.integers(0, 9)) == 0
    k = draw(st.integers(1, 4))
    n = draw(st.integers(k, 6))
    seg = draw(st.sampled_from([k * 8, k * 16, 64, 100, 100, 1024, 2048]))
    if lit:
        size = draw(st.integers(0, 55))
        nseg = 1
    else:
        nseg = draw(st.integers(1, 5))
        size = max(56, seg * nseg - draw(st.integers(0, seg - 1)))
    segeff = max(k, (seg // k) * k)

    def pos():
        kind = draw(st.sampled_from(["seg", "seg", "aes", "eof", "any", "zero"]))
        if kind == "seg":
            return max(0, segeff * draw(st.integers(0, nseg)) + draw(st.integers(-1, 1)))
        if kind == "aes":
            return max(0, 16 * draw(st.integers(0, size // 16 + 1)) + draw(st.integers(-1, 1)))
        if kind == "eof":
            return max(0, size + draw(st.integers(-2, 3)))
        if kind == "zero":
            return 0
        return draw(st.integers(0, size + 5))
    reads = []
    for _ in range(draw(st.integers(1, 4))):
        off = pos()
        ln = draw(st.sampled_from(["none", "pos", "pos", "small", "huge", "zero"]))
        ln = {"none": None, "pos": max(0, pos() - off) or 1, "small": draw(st.integers(1, 20)), "huge": size * 3 + 7, "zero": 0}[ln]
        ev = draw(st.lists(st.one_of(st.tuples(st.sampled_from(["w", "s"]), st.integers(0, 25), st.sampled_from(["pause", "pause", "resume", "stop"])),
                                     # "d": while the j-th piece of work handed to the CPU thread pool (segment decode) is still out
                                     st.tuples(st.just("d"), st.integers(0, 5), st.sampled_from(["pause", "stop", "stop"]))).map(list), max_size=4))
        # the read is issued at the start, at scheduler step j, or while the j-th piece of thread-pool work is out
        start = draw(st.sampled_from([None, None, None, ["s", draw(st.integers(0, 25))], ["d", draw(st.integers(0, 5))], ["d", draw(st.integers(0, 2))]]))
        reads.append({"off": off, "len": ln, "events": ev, "start": start})
    threads, warm = draw(st.sampled_from(["sync", "async"])), draw(st.booleans())
    if len(reads) >= 2 and not lit and draw(st.integers(0, 5)) == 0:
        # one read is stopped while the segment it asked for is being decoded, and another read for the same region arrives in that same moment
        j = draw(st.integers(0, 2))
        reads[0].update({"events": [["d", j, "stop"]], "start": None})
        reads[-1].update({"start": ["d", j], "off": reads[0]["off"] + draw(st.integers(0, 3))})
        threads, warm = "async", draw(st.sampled_from([True, True, False]))
    return {"hsalt": draw(st.integers(0, 15)), "threads": threads, "k": k, "n": n, "seg": seg, "size": size, "fill": draw(st.integers(0, 3)), "reads": reads, "warm": warm, "guess": draw(st.sampled_from([None, None, 16, 50, 200, 1000])),
            "sched": draw(st.lists(st.integers(0, 12), max_size=draw(st.sampled_from([0, 20, 100]))))}


def run_shard(spec, ctx):
    ctx.drive(cases(), spec["n"], run_case)


def run_case(case, ctx):
    from vf import boot as _boot
    _boot.set_thread_mode(case.get("threads") == "async")      # defer_to_thread answered in a later reactor turn (as in production) or synchronously
    _boot.hold_threads(False)
    from allmydata.immutable.upload import Data
    from allmydata.interfaces import DownloadStopped
    k, n, seg, size = case["k"], case["n"], case["seg"], case["size"]
    g = Grid(ctx.casedir(), n, {"k": k, "n": n, "happy": 1, "max_segment_size": seg})
    data = pbytes(case["fill"], size)
    classes = set()
    try:
        r = g.run(g.c0.upload(Data(data, convergence=b"c")))
        if r[0] != "ok":
            ctx.fail("upload-failed", "set-up upload failed: %r" % (r,))
            return
        cap = r[1].get_uri()
        # the reader guesses the segment size from its own default maximum before it has seen the real one; uploaders may be configured with larger or smaller
        # segments than the reader's default, so both 'guess > real' and 'guess < real' are legitimate starting points for a fresh node
        from allmydata.immutable.downloader.node import DownloadNode
        if case.get("guess"):
            DownloadNode.default_max_segment_size = case["guess"]       # class attribute provided for exactly this purpose; restored below
            classes.add("guess<real" if case["guess"] < min(seg, size) else "guess>=real")
        reader = g.add_client()
        node = reader.nodemaker.create_from_cap(cap)
        if case.get("warm"):
            # the node has served a read before: it knows the real segment size and holds the hash trees
            from vf.grid import read_node
            w = g.run(read_node(node, 0, 1))
            if w[0] != "ok":
                ctx.fail("read-failed", "k=%d N=%d seg=%d size=%d: a one-byte read on an honest grid failed: %r" % (k, n, seg, size, w), exc="warm")
                return
            classes.add("warm-node")
        g.sched.choices, g.sched.ci = list(case["sched"]), 0
        cons, ds, took = [], [], []
        for rd in case["reads"]:
            c = Consumer({})
            c.effects = 0
            c.wscript = {}
            for (kind, when, act) in rd["events"]:
                if kind == "w":
                    c.wscript.setdefault(when + 1, act)
            c.sscript = [(when, act) for (kind, when, act) in rd["events"] if kind == "s"]
            c.dscript = [(when, act) for (kind, when, act) in rd["events"] if kind == "d"]
            cons.append(c)

        def act(c, a):
            if c.producer is None or c.stopped:
                return
            if a == "pause" and not c.paused:
                c.paused = True
                c.producer.pauseProducing()
                c.effects += 1
                classes.add("pause")
                if not c.chunks:
                    classes.add("pause-in-flight")
            elif a == "resume" and c.paused:
                c.paused = False
                c.producer.resumeProducing()
            elif a == "stop":
                c.stopped = True
                c.effects += 1
                classes.add("stop")
                c.producer.stopProducing()
        for c in cons:
            def write(data, c=c, orig=c.write):
                c.chunks.append(bytes(data))
                c.nwrites += 1
                a = c.wscript.get(c.nwrites)
                if a:
                    act(c, a)
            c.write = write
        outs = [[] for _ in cons]
        started = [False] * len(cons)

        def start(i):
            if not started[i]:
                started[i] = True
                rd = case["reads"][i]
                d = node.read(cons[i], rd["off"], rd["len"])
                d.addBoth(outs[i].append)
                if rd.get("start"):
                    classes.add("read-issued-later")
        for i, rd in enumerate(case["reads"]):
            if not rd.get("start"):
                start(i)
        # from here on the results of work given to the CPU thread pool come back when the loop below says so
        _boot.hold_threads(case.get("threads") == "async")
        step, seen_held = 0, 0
        for _ in range(20000):
            boot.drain()
            for c in cons:
                for (when, a) in c.sscript:
                    if when == step:
                        act(c, a)
            for i, rd in enumerate(case["reads"]):
                if rd.get("start") and rd["start"] == ["s", step]:
                    start(i)
            while seen_held < _boot._held_total[0]:
                # a new piece of work is out in the thread pool: what the scripts want to happen meanwhile
                for i, (c, rd) in enumerate(zip(cons, case["reads"])):
                    for (when, a) in c.dscript:
                        if when == seen_held and c.producer is not None and not c.stopped:
                            act(c, a)
                            classes.add(a + "-during-thread-work")
                    if rd.get("start") == ["d", seen_held]:
                        start(i)
                        classes.add("read-issued-during-thread-work")
                seen_held += 1
            boot.drain()
            if all(started) and all(outs):
                break
            step += 1
            if _boot.release_thread():
                continue
            if not g.sched.step():
                if not all(started):
                    # quiescent before a late read's moment came: issue it now
                    for i in range(len(cons)):
                        start(i)
                    continue
                # quiescent: resume whoever is still paused (the script never did); if nobody is paused we are done (or hung)
                paused = [c for c in cons if c.paused and not c.stopped]
                if not paused:
                    break
                for c in paused:
                    act(c, "resume")
        boot.drain()
        from twisted.python.failure import Failure
        segeff = max(k, (seg // k) * k)
        desc0 = "k=%d N=%d seg=%d size=%d reads=%r schedule=%r" % (k, n, seg, size, case["reads"], case["sched"][:20])
        for i, (c, rd, o) in enumerate(zip(cons, case["reads"], outs)):
            off, ln = rd["off"], rd["len"]
            want = data[off:] if ln is None else data[off:off + ln]
            got = c.data()
            desc = "%s: read #%d (offset=%d,size=%r)" % (desc0, i, off, ln)
            if got != want[:len(got)]:
                first = next(j for j in range(len(got)) if j >= len(want) or got[j] != want[j])
                ctx.fail("wrong-bytes", "%s received %d bytes; byte %d of the delivery is not plaintext[%d] (or lies beyond the requested range of %d bytes)" % (desc, len(got), first, off + first, len(want)))
            if not o:
                ctx.fail("hang", "%s never completed although nothing is pending (stopped=%r paused=%r, %d/%d bytes)" % (desc, c.stopped, c.paused, len(got), len(want)))
                continue
            if c.stopped:
                if isinstance(o[0], Failure):
                    classes.add("stopped-" + type(o[0].value).__name__)   # any error type is an acceptable end of a cancelled read (the statement names none)
                else:
                    ctx.check(got == want, "short-success", "%s stopped, reported success with %d of %d bytes" % (desc, len(got), len(want)))
            else:
                if isinstance(o[0], Failure):
                    ctx.fail("read-failed", "%s failed on an honest grid: %r" % (desc, o[0].value), exc=type(o[0].value).__name__)
                else:
                    ctx.check(got == want, "short-success", "%s reported success with %d of %d bytes" % (desc, len(got), len(want)))
        # classes
        segsets = []
        for rd in case["reads"]:
            off, ln = rd["off"], rd["len"]
            end = size if ln is None else min(size, off + ln)
            segsets.append(set(range(off // segeff, max(off, end - 1) // segeff + 1)) if off < size and end > off else set())
            if off > size:
                classes.add("past-eof")
            if off == size:
                classes.add("at-eof")
            if ln is None:
                classes.add("size-none")
            if len(segsets[-1]) > 1:
                classes.add("cross-segment")
        if len(case["reads"]) > 1:
            classes.add("concurrent")
        overlap = any(segsets[i] & segsets[j] for i in range(len(segsets)) for j in range(i + 1, len(segsets)))
        if overlap:
            classes.add("overlap-same-segment")
        if size <= 55:
            classes.add("literal")
    finally:
        g.stop()
        from allmydata.immutable.downloader.node import DownloadNode as _DN
        from allmydata.interfaces import DEFAULT_IMMUTABLE_MAX_SEGMENT_SIZE as _D
        _DN.default_max_segment_size = _D
        _boot.hold_threads(False)
    nt = overlap or any(c.effects for c in cons)
    ctx.note(sig=repr(sorted(case.items())), nontrivial=nt, classes=sorted(classes),
             sample={"k": k, "n": n, "seg": seg, "size": size, "reads": case["reads"], "schedule": case["sched"][:16],
                     "received": [len(c.data()) for c in cons]})
