"""C03 immutable availability: >=k intact shares on answering servers => the read succeeds; fewer than k possibly-usable shares => not-enough-shares error."""
from hypothesis import strategies as st
from vf import immfile
from vf.grid import Consumer

ID = "C03"
LEVEL = "fault_enumeration"
ENGINE = "E2 detgrid"
TECHNIQUE = ("Hypothesis-generated share placements x share damage x server fault plans (down, erroring, failing n-th read, disconnect after j calls, late) x delivery "
             "schedules with generator-chosen timer firings; bounded-exhaustive damage subsets for k<=2,N<=3; two-sided oracle from an independent good-share count; optional second phase (late answers delivered, the shares the first read used go bad, the same node reads again)")
RULE = ("each case: a file (k<=4, N<=6, 1-4 segments) whose N shares are re-placed on 1..N+3 servers by an explicit generated map (several shares per server, duplicates, "
        "unplaced shares), then per-share damage (12 kinds: deleted, truncated, every block flipped, bad version, single flips in data/block hashes/share hashes/UEB/"
        "ciphertext hashes/unused region) and per-server faults (7 kinds), then a full read from a fresh client under a drawn schedule in which negative choices fire "
        "the next timer (overdue timers) while messages are still pending and 'late' servers answer only after every timer. G+ = distinct share numbers byte-identical "
        "to the upload on servers that answer everything; G- = distinct share numbers present, not certainly unusable, on servers that answer share queries. "
        "Oracle: G+ >= k => success with the exact bytes; G- < k => NotEnoughSharesError/NoSharesError and no data; otherwise either, never other bytes. "
        "In half of the cases a second phase follows: outstanding answers are delivered, further shares are damaged and the same node is read again; "
        "there only G+ >= k => success (and never other bytes) is asserted, because the node may serve cached data. "
        "Non-trivial = G+ or G- within 1 of k, or a fault that strikes after the first block request, or a second read after shares went bad; distinct by the whole case.")
LEVEL_TEXT = "Fault-plan search with a two-sided availability oracle; exhaustive over share-damage subsets for the smallest encodings."
ASSUMPTIONS = ["a share whose damage lies in a region the downloader may never consult counts neither as certainly good nor as certainly bad (either outcome accepted)",
               "late servers answer after all timers have fired; the transport is the in-memory scheduler"]
REQUIRED_CLASSES = ["two-copies", "G+>=k", "G-<k", "between", "fault-late", "fault-disconnect-after", "timer-fired-while-pending", "multi-share-server", "ok", "not-enough", "share>=2KiB", "second-read:G+>=k", "second-read-after-used-shares-went-bad"]
BUDGET = {"quick": 900, "thorough": 7200}
MAXSTEPS = 6000


def plan(tier):
    if tier == "quick":
        return [{"kind": "exh", "k": 1, "n": 2, "part": i, "parts": 4} for i in range(4)] + [{"kind": "hyp", "n": 60} for _ in range(12)]
    return [{"kind": "exh", "k": kk, "n": nn, "part": i, "parts": 4} for (kk, nn) in ((1, 2), (1, 3), (2, 3)) for i in range(4)] + [{"kind": "hyp", "n": 2500} for _ in range(16)]


@st.composite
def cases(draw):
    k = draw(st.integers(1, 4))
    n = draw(st.integers(k, 6))
    seg = draw(st.sampled_from([k * 8, 64, 100, 100, 1024, 4096]))
    nseg = draw(st.integers(1, 4))
    size = max(56, seg * nseg - draw(st.integers(0, seg - 1)))
    # (shares of a few KiB make the downloader keep several read requests in flight per share; tiny shares are served by a single request)
    servers = draw(st.integers(1, n + 3))
    style = draw(st.sampled_from(["spread", "spread", "random", "one-server", "dups", "two-copies"]))
    if style == "spread":
        place = [[i, i % servers] for i in range(n)]
    elif style == "one-server":
        place = [[i, 0] for i in range(n)]
    elif style == "two-copies":
        # exactly k share numbers, each held by two servers, nothing to spare: a failing copy must be replaced by its twin
        servers = max(2, servers)
        place = [[i, i % servers] for i in range(k)] + [[i, (i + 1 + draw(st.integers(0, servers - 2))) % servers] for i in range(k)]
    elif style == "dups":
        place = [[i, i % servers] for i in range(n)] + draw(st.lists(st.tuples(st.integers(0, n - 1), st.integers(0, servers - 1)).map(list), max_size=4))
    else:
        place = draw(st.lists(st.tuples(st.integers(0, n - 1), st.integers(0, servers - 1)).map(list), min_size=0, max_size=n + 3))
    damage = draw(st.lists(st.tuples(st.integers(0, 8), st.integers(0, 5), st.sampled_from(immfile.SHARE_DAMAGE), st.integers(0, 5000)).map(list), max_size=n))
    faults = draw(st.lists(st.tuples(st.integers(0, servers - 1), st.sampled_from(immfile.SERVER_FAULTS + (["fail-reads-from", "fail-read-once", "fail-reads-from"] if style == "two-copies" else [])),
                                     st.integers(0, 12)).map(list), max_size=3))
    if style == "two-copies":
        damage = []
    down = draw(st.lists(st.integers(-2, 12), max_size=draw(st.sampled_from([0, 10, 80]))))
    # second phase: after the first read, further shares are damaged and the same node is read again
    second = draw(st.one_of(st.just([]), st.lists(st.tuples(st.integers(0, 8), st.integers(0, 5), st.sampled_from([d for d in immfile.SHARE_DAMAGE if d != "trunc-header"] + ["delete", "flip-all-blocks"]),
                                                           st.integers(0, 5000)).map(list), min_size=1, max_size=max(1, n - k))))
    second_used = draw(st.sampled_from([None, None, "delete", "flip-all-blocks", "flip-data-byte"]))
    if draw(st.integers(0, 5)) == 0 and n > k:
        # the first read is served by k prompt servers while every other server answers late; then exactly the shares that were used go bad
        servers = max(servers, n)
        place = [[i, i] for i in range(n)]
        prompt = draw(st.lists(st.integers(0, n - 1), min_size=k, max_size=k, unique=True))
        faults = [[i, "late", 0] for i in range(n) if i not in prompt]
        damage, second = [], []
        second_used = second_used or "delete"
    return {"hsalt": draw(st.integers(0, 15)), "k": k, "n": n, "seg": seg, "size": size, "servers": servers, "place": place, "damage": damage, "faults": faults, "down": down,
            "guess": draw(st.sampled_from([None, None, None, 16, 200])), "second": second, "second_used": second_used}


def exhaustive(spec):
    """k, n tiny: every assignment of {ok, delete, flip-all-blocks, flip-data-byte, flip-share-hash} to the n shares (one per server) x {no fault, one server late,
    one server disconnecting after 2 calls} x {FIFO, reversed-ish schedule}."""
    import itertools
    k, n = spec["k"], spec["n"]
    kinds = [None, "delete", "flip-all-blocks", "flip-data-byte", "flip-share-hash"]
    out = []
    for assign in itertools.product(kinds, repeat=n):
        for fault in [None] + [[s, f, 2] for s in range(n) for f in ("late", "disconnect-after", "fail-read-once")]:
            for down in ([], [3, 1, 2, 5, 1, 1, 4], [-1, 0, -1, 2]):
                dmg = [[s, s, kd, 3] for s, kd in enumerate(assign) if kd]
                out.append({"k": k, "n": n, "seg": 64, "size": 150, "servers": n, "place": [[i, i] for i in range(n)], "damage_exact": True,
                            "damage": dmg, "faults": [fault] if fault else [], "down": down})
    return out[spec["part"]::spec["parts"]]


def run_shard(spec, ctx):
    if spec["kind"] == "exh":
        ctx.enumerate(exhaustive(spec), run_case)
    else:
        ctx.drive(cases(), spec["n"], run_case)


def run_case(case, ctx):
    from allmydata.interfaces import NotEnoughSharesError, NoSharesError
    if case.get("damage_exact"):
        # address shares directly: (server s, share s)
        keys = sorted((i, i) for i in range(case["n"]))
        case = dict(case)
        case["damage"] = [[0, keys.index((d[0], d[1])), d[2], d[3]] for d in case["damage"]]
        # immfile picks keys[(sidx*31+shnum) % len(keys)]
    sc = immfile.build(ctx, case, choices=case["down"])
    g, k = sc.g, case["k"]
    try:
        reader = g.add_client()
        node = reader.nodemaker.create_from_cap(sc.cap)
        c = Consumer()
        timers0 = g.sched.timers_fired
        firsts = {}

        read_servers = set()

        def ob(m, phase, res):
            if phase == "delivered" and m.meth == "read":
                firsts.setdefault("read", g.sched.delivered)
                read_servers.add(m.server.idx)
        g.sched.observers.append(ob)
        before = g.sched.delivered
        r = g.sched.run_until(node.read(c, 0, None), maxsteps=MAXSTEPS)
        if r[0] == "hang" and g.sched.delivered - before >= MAXSTEPS - 1:
            r = ("livelock", None)
        pending_when_timer = g.sched.timers_fired > timers0
        got = c.data()
        desc = "k=%d N=%d seg=%d size=%d servers=%d place=%r damage=%r faults=%r schedule=%r  (G+=%d, G-=%d)" % (
            k, case["n"], case["seg"], case["size"], case["servers"], sorted(sc.placed), sorted(sc.damaged.items()), sorted(sc.faulty.items()), case["down"][:20], sc.gplus, sc.gminus)
        if got != sc.data[:len(got)]:
            ctx.fail("wrong-bytes", "%s: consumer received bytes that are not a prefix of the file" % desc)
        zone = "G+>=k" if sc.gplus >= k else ("G-<k" if sc.gminus < k else "between")
        if r[0] == "ok":
            out = "ok"
            ctx.check(got == sc.data, "short-success", "%s: read succeeded with %d of %d bytes" % (desc, len(got), len(sc.data)))
            if zone == "G-<k":
                ctx.fail("data-without-k-shares", "%s: read succeeded although fewer than k shares can possibly be used" % desc)
        elif r[0] == "err":
            out = "not-enough" if isinstance(r[1], (NotEnoughSharesError, NoSharesError)) else "other-error"
            if zone == "G+>=k":
                ctx.fail("unavailable", "%s: %d intact shares on answering servers but the read failed with %s: %s" % (desc, sc.gplus, type(r[1]).__name__, str(r[1])[:200]), exc=type(r[1]).__name__)
            if zone == "G-<k" and out != "not-enough":
                ctx.fail("wrong-error", "%s: fewer than k usable shares but the read failed with %s (%s) instead of a not-enough-shares error" % (desc, type(r[1]).__name__, str(r[1])[:200]), exc=type(r[1]).__name__)
        else:
            out = r[0]
            if zone == "G+>=k":
                ctx.fail("unavailable", "%s: %d intact shares on answering servers but the read never finished (%s after %d messages)" % (desc, sc.gplus, r[0], g.sched.delivered - before), exc=r[0])
            # G- < k with a hang/livelock: termination is C46's statement; here only 'no data' is required (checked above: prefix) -- counted
        second_classes = []
        if (case.get("second") or case.get("second_used")) and r[0] in ("ok", "err"):
            # ---- second phase: answers still in flight arrive (late servers), more shares go bad, the same node is read again.  The node may
            # serve data it has cached, so only the availability direction is asserted: >= k intact shares on answering servers => success.
            g.sched.settle()
            used = sorted(read_servers)
            hit = immfile.damage_more(sc, case.get("second") or [])
            if case.get("second_used"):
                # every share on a server the first read fetched blocks from goes bad
                for key in sorted(sc.placed):
                    if key[0] in used and key not in sc.damaged and immfile.apply_damage(sc.placed[key], case["second_used"], 7):
                        sc.damaged[key] = case["second_used"]
                        hit.append(key)
                immfile.ground_truth(sc)
                second_classes.append("second-read-all-used-shares-bad")
            c2 = Consumer()
            before2 = g.sched.delivered
            r2 = g.sched.run_until(node.read(c2, 0, None), maxsteps=MAXSTEPS)
            got2 = c2.data()
            desc2 = desc + " then, after that read (%s) and once every outstanding answer had arrived, shares %r were damaged (%r) and the same node was read again (G+=%d)" % (
                r[0], hit, [sc.damaged[h_] for h_ in hit], sc.gplus)
            if got2 != sc.data[:len(got2)]:
                ctx.fail("wrong-bytes", "%s: consumer received bytes that are not a prefix of the file" % desc2)
            second_classes.append("second-read")
            if sc.gplus >= k:
                second_classes.append("second-read:G+>=k")
                if hit and r[0] == "ok":
                    second_classes.append("second-read-after-used-shares-went-bad")
                if r2[0] != "ok":
                    ctx.fail("unavailable-second-read", "%s: %d intact shares on answering servers but the second read %s" % (
                        desc2, sc.gplus, "failed with %s: %s" % (type(r2[1]).__name__, str(r2[1])[:160]) if r2[0] == "err" else "never finished (%s)" % r2[0]), exc=type(r2[1]).__name__ if r2[0] == "err" else r2[0])
                else:
                    ctx.check(got2 == sc.data, "short-success", "%s: second read succeeded with %d of %d bytes" % (desc2, len(got2), len(sc.data)))
    finally:
        g.stop()
    per_server = {}
    for (s, sh) in sc.placed:
        per_server[s] = per_server.get(s, 0) + 1
    classes = second_classes + [zone, out] + ["fault-" + f for f in set(sc.faulty.values())] + ["damage-" + d for d in set(sc.damaged.values())]
    if pending_when_timer:
        classes.append("timer-fired-while-pending")
    if any(v > 1 for v in per_server.values()):
        classes.append("multi-share-server")
    if case["size"] // k >= 2048:
        classes.append("share>=2KiB")
    if len(sc.placed) == 2 * k and len(set(sh for (s, sh) in sc.placed)) == k:
        classes.append("two-copies")
    late_fault = any(f in ("fail-read-once", "fail-reads-from", "disconnect-after") for f in sc.faulty.values()) and "read" in firsts
    nt = abs(sc.gplus - k) <= 1 or abs(sc.gminus - k) <= 1 or late_fault or "second-read-after-used-shares-went-bad" in second_classes
    ctx.note(sig=repr(sorted(case.items())), nontrivial=nt, classes=classes,
             sample={"k": k, "n": case["n"], "seg": case["seg"], "size": case["size"], "placed": sorted(sc.placed), "damaged": sorted(sc.damaged.items()),
                     "faults": sorted(sc.faulty.items()), "schedule": case["down"][:16], "G+": sc.gplus, "G-": sc.gminus, "outcome": out})
