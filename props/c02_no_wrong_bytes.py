"""C02 immutable downloads never return wrong bytes, whatever the servers store or answer."""
import os, shutil, struct
from hypothesis import strategies as st
from vf import boot, imm_share
from vf.core import pbytes
from vf.grid import Grid, read_node, Consumer

ID = "C02"
LEVEL = "fault_enumeration"
ENGINE = "E2 detgrid"
TECHNIQUE = "Hypothesis-generated adversarial share plans (targeted field edits, byte flips, truncation, substitution, consistent grafts from a sibling file, equivocating servers) x delivery schedules; oracle = delivered bytes are a prefix of the true plaintext"
RULE = ("each case: a file (k<=4, N<=6, 1-6 segments) plus a sibling file of the same size and encoding, then 1-4 damages applied to chosen shares: set a header/"
        "offset field to {0,1,v-1,v+1,huge,value from another share}, flip bytes inside a named field (data, crypttext hash tree, block hashes, share hashes, UEB "
        "length, UEB), truncate at a field boundary +-1, replace a share by another share number / by the sibling's share, graft named regions of the sibling's "
        "share into it (all regions except the UEB = a consistently forged share), or make a server return altered bytes on its n-th read. Then a full read and "
        "a ranged read under a drawn schedule. Oracle: bytes delivered to the consumer are a prefix of plaintext[offset:offset+size]; success => all of it. "
        "Non-trivial = >=1 damaged share and the read actually completed or failed after fetching blocks; distinct by (params, damage plan, schedule hash).")
LEVEL_TEXT = "Fault-plan search: the adversary's choices are enumerated by a generator that knows the share format, including forgeries that are internally consistent."
ASSUMPTIONS = ["SHA-256d collisions are not modelled", "the adversary controls share files and read answers but not the cap"]
REQUIRED_CLASSES = ["graft-consistent", "field-set", "flip", "truncate", "swap", "equivocate", "read-failed", "read-ok"]
BUDGET = {"quick": 900, "thorough": 7200}
MAXSTEPS = 4000   # a read of <=6 segments from <=6 shares needs a few hundred messages; beyond this the read is classified "livelock" (termination is C46's business)
REGIONS = ["data", "crypttext_hash_tree", "block_hashes", "share_hashes", "ueb_len", "ueb", "plaintext_hash_tree"]
HDR = ["share_version", "block_size", "data_size", "o_data", "o_plaintext_hash_tree", "o_crypttext_hash_tree", "o_block_hashes", "o_share_hashes", "o_uri_extension", "container_version"]


def plan(tier):
    n = 100 if tier == "quick" else 2500
    return [{"kind": "hyp", "n": n} for _ in range(16)]


@st.composite
def cases(draw):
    k = draw(st.integers(1, 4))
    n = draw(st.integers(k, 6))
    seg = draw(st.sampled_from([k * 8, k * 16, 64, 100, 128, 128, 1024, 4096]))     # (multi-KiB shares keep several read requests in flight per share)
    nseg = draw(st.integers(1, 6))
    size = max(56, seg * nseg - draw(st.integers(0, max(0, seg - 1))))
    which = st.one_of(st.just("all"), st.integers(0, 5), st.lists(st.integers(0, 5), min_size=1, max_size=4, unique=True))
    dmg = st.one_of(
        st.tuples(st.just("graft"), which, st.sampled_from([REGIONS[:4], REGIONS[:4], ["data"], ["data", "block_hashes"], ["data", "block_hashes", "crypttext_hash_tree"],
                                                             ["share_hashes"], ["crypttext_hash_tree"], ["ueb"], REGIONS[:4] + ["ueb_len", "ueb"]]), st.just(0)),
        st.tuples(st.just("set"), which, st.sampled_from(HDR), st.sampled_from(["zero", "one", "minus", "plus", "huge", "other"])),
        st.tuples(st.just("flip"), which, st.sampled_from(REGIONS), st.integers(0, 10 ** 6)),
        st.tuples(st.just("trunc"), which, st.sampled_from(REGIONS + ["end"]), st.integers(-1, 1)),
        st.tuples(st.just("swap"), which, st.sampled_from(["othershnum", "sibling", "sibling-other"]), st.integers(0, 5)),
        st.tuples(st.just("equivocate"), st.integers(0, 5), st.integers(0, 8), st.integers(0, 500)),
        st.tuples(st.just("delete"), which, st.just(""), st.just(0)),
    )
    return {"hsalt": draw(st.integers(0, 15)), "k": k, "n": n, "seg": seg, "size": size, "servers": draw(st.integers(1, n + 1)), "guess": draw(st.sampled_from([None, None, 16, 100, 1000])), "damage": draw(st.lists(dmg, min_size=1, max_size=4)),
            "down": draw(st.lists(st.integers(0, 30), max_size=60)), "read": [draw(st.integers(0, size)), draw(st.integers(1, size))]}


def run_shard(spec, ctx):
    ctx.drive(cases(), spec["n"], run_case)


def pick(which, shares):
    if which == "all":
        return list(shares)
    if isinstance(which, int):
        return [shares[which % len(shares)]] if shares else []
    return [shares[w % len(shares)] for w in which] if shares else []


def run_case(case, ctx):
    from allmydata.immutable.upload import Data
    from allmydata import uri
    k, n, seg, size = case["k"], case["n"], case["seg"], case["size"]
    params = {"k": k, "n": n, "happy": 1, "max_segment_size": seg}
    g = Grid(ctx.casedir(), case["servers"], params)
    data, sib = pbytes(1, size), pbytes(2, size)
    classes = set()
    try:
        ra = g.run(g.c0.upload(Data(data, convergence=b"c")))
        rb = g.run(g.c0.upload(Data(sib, convergence=b"c")))
        if ra[0] != "ok" or rb[0] != "ok":
            ctx.fail("upload-failed", "set-up upload failed: %r %r" % (ra, rb))
            return
        cap = ra[1].get_uri()
        si_a = uri.from_string(cap).get_storage_index()
        si_b = uri.from_string(rb[1].get_uri()).get_storage_index()
        shares = g.all_share_paths(si_a)          # (server, shnum, path)
        sib_by_num = {shnum: p for (_, shnum, p) in g.all_share_paths(si_b)}
        orig = {p: open(p, "rb").read() for (_, _, p) in shares}
        damaged = set()
        for d in case["damage"]:
            kind = d[0]
            if kind == "equivocate":
                srv = g.servers[d[1] % len(g.servers)]
                nth, pos = d[2], d[3]
                state = {"n": 0}

                def transform(server, m, res, state=state, nth=nth, pos=pos):
                    if m.meth == "read" and isinstance(res, bytes) and res:
                        state["n"] += 1
                        if state["n"] > nth:
                            b = bytearray(res)
                            b[pos % len(b)] ^= 0x55
                            return bytes(b)
                    return res
                srv.transform = transform
                classes.add("equivocate")
                damaged.add("srv%d" % srv.idx)
                continue
            for (sidx, shnum, p) in pick(d[1], shares):
                if not os.path.exists(p):
                    continue
                try:
                    info = imm_share.parse(p)
                except Exception:
                    continue
                F = info["fields"]
                if kind == "graft":
                    sp = sib_by_num.get(shnum)
                    if not sp:
                        continue
                    sraw = open(sp, "rb").read()
                    for reg in d[2]:
                        a, b = F[reg]
                        imm_share.patch(p, a, sraw[a:b])
                    classes.add("graft-consistent" if set(REGIONS[:4]) <= set(d[2]) and "ueb" not in d[2] else "graft-partial")
                elif kind == "set":
                    a, b = F[d[2]]
                    w = b - a
                    cur = int.from_bytes(info["raw"][a:b], "big")
                    if d[3] == "other" and len(shares) > 1:
                        op = shares[(shares.index((sidx, shnum, p)) + 1) % len(shares)][2]
                        val = int.from_bytes(orig[op][a:b], "big") if op in orig else cur + 7
                    else:
                        val = {"zero": 0, "one": 1, "minus": max(0, cur - 1), "plus": cur + 1, "huge": (1 << (8 * w)) - 1, "other": cur + 7}[d[3]]
                    imm_share.patch(p, a, (val % (1 << (8 * w))).to_bytes(w, "big"))
                    classes.add("field-set")
                elif kind == "flip":
                    a, b = F[d[2]]
                    if b > a:
                        imm_share.flip(p, a + d[3] % (b - a), 1 << (d[3] % 8))
                        classes.add("flip")
                elif kind == "trunc":
                    pos = info["share_end"] if d[2] == "end" else F[d[2]][0]
                    imm_share.truncate(p, max(0, pos + d[3]))
                    classes.add("truncate")
                elif kind == "swap":
                    if d[2] == "othershnum" and len(shares) > 1:
                        src = shares[(shares.index((sidx, shnum, p)) + 1 + d[3]) % len(shares)][2]
                        if src in orig:
                            open(p, "wb").write(orig[src])
                    elif d[2] == "sibling" and shnum in sib_by_num:
                        shutil.copyfile(sib_by_num[shnum], p)
                    elif sib_by_num:
                        shutil.copyfile(sorted(sib_by_num.items())[(shnum + 1 + d[3]) % len(sib_by_num)][1], p)
                    classes.add("swap")
                elif kind == "delete":
                    os.unlink(p)
                    classes.add("delete")
                damaged.add(p)
        # ---- reads under the drawn schedule, from a fresh client (no cached hashes)
        from allmydata.immutable.downloader.node import DownloadNode
        from allmydata.interfaces import DEFAULT_IMMUTABLE_MAX_SEGMENT_SIZE
        DownloadNode.default_max_segment_size = case.get("guess") or DEFAULT_IMMUTABLE_MAX_SEGMENT_SIZE     # the reader's initial segment-size guess may be below the real size
        reader = g.add_client()
        g.sched.choices, g.sched.ci = list(case["down"]), 0
        node = reader.nodemaker.create_from_cap(cap)
        outcomes = []
        for (off, ln) in (case["read"], [0, None], case["read"]):      # the ranged read comes first: the fresh node has only a guess of the segment size
            c = Consumer()
            before = g.sched.delivered
            r = g.sched.run_until(node.read(c, off, ln), maxsteps=MAXSTEPS)
            if r[0] == "hang" and g.sched.delivered - before >= MAXSTEPS - 1:
                r = ("livelock", None)
            want = data[off:] if ln is None else data[off:off + ln]
            got = c.data()
            desc = "k=%d N=%d seg=%d size=%d servers=%d damage=%r read(offset=%d,size=%r)" % (k, n, seg, size, case["servers"], case["damage"], off, ln)
            if got != want[:len(got)]:
                first = next(i for i in range(len(got)) if i >= len(want) or got[i] != want[i])
                ctx.fail("wrong-bytes", "%s: consumer received %d bytes, byte %d is not the uploaded plaintext (read outcome %s %r)" % (desc, len(got), off + first, r[0], r[1] if r[0] != "ok" else ""))
            if r[0] == "ok":
                ctx.check(got == want, "short-success", "%s: read reported success but delivered %d of %d bytes" % (desc, len(got), len(want)))
                classes.add("read-ok")
            elif r[0] == "err":
                classes.add("read-failed")
            else:
                classes.add("read-" + r[0])   # liveness is C46's business; safety holds (checked above)
            outcomes.append(r[0])
    finally:
        g.stop()
        from allmydata.immutable.downloader.node import DownloadNode as _DN
        from allmydata.interfaces import DEFAULT_IMMUTABLE_MAX_SEGMENT_SIZE as _D
        _DN.default_max_segment_size = _D
    ctx.note(sig=(k, n, seg, size, case["servers"], repr(case["damage"]), hash(tuple(case["down"]))), nontrivial=bool(damaged), classes=sorted(classes),
             sample={"k": k, "n": n, "seg": seg, "size": size, "servers": case["servers"], "damage": case["damage"], "outcomes": outcomes})
