"""C07 share_placement: complete, respects read-only servers, maximises spread."""
import random
from hypothesis import strategies as st
from vf.models import max_matching, max_matching_brute

ID = "C07"
LEVEL = "exploration"
ENGINE = "E0 pure"
TECHNIQUE = "bounded-exhaustive enumeration of layouts + Hypothesis random layouts, validity predicate and independent maximum-matching reference, metamorphic re-labelling"
RULE = ("exhaustive: all layouts with S servers (every read-only subset leaving >=1 writable), H shares and every existing-share "
        "relation for the (S,H) bounds of the tier; random: up to 20 servers x 30 shares. Each layout is evaluated under 2 server "
        "labelings (changes set/dict iteration and sort order). Non-trivial = >=1 read-only server holding a share and >=1 writable "
        "server holding a share; distinct by (W,R,H,relation).")
LEVEL_TEXT = ("Complete enumeration of small layouts (quick: S<=3,H<=4 and S=4,H<=3; thorough: S<=4,H<=5) and random search up to 20x30; "
              "oracle = all shares placed on known servers, read-only servers only get shares they hold, number of distinct servers equals "
              "an independently computed maximum matching of {writable x all shares} U {read-only x held shares}.")
ASSUMPTIONS = ["writable and read-only sets are disjoint and existing share numbers lie inside the share set, as PeerSelector passes them",
               "reference = own Kuhn matching (brute-force cross-check on small graphs)"]
EXHAUSTIVE = {"quick": True, "thorough": True}
BUDGET = {"quick": 600, "thorough": 3 * 3600}


def plan(tier):
    shards = []
    if tier == "quick":
        dims = [(s, h) for s in (1, 2, 3) for h in (1, 2, 3, 4)] + [(4, 1), (4, 2), (4, 3)]
    else:
        dims = [(s, h) for s in (1, 2, 3, 4) for h in (1, 2, 3, 4, 5)]
    for (s, h) in dims:
        total = 1 << (s * h)
        parts = 1 if total < 4096 else (16 if total < (1 << 16) else 64)
        step = total // parts
        for i in range(parts):
            shards.append({"kind": "bits", "S": s, "H": h, "lo": i * step, "hi": (i + 1) * step if i < parts - 1 else total})
    n = 300 if tier == "quick" else 5000
    for i in range(8):
        shards.append({"kind": "hyp", "n": n})
    return shards


@st.composite
def cases(draw):
    S = draw(st.integers(1, 20))
    H = draw(st.integers(1, 30))
    romask = draw(st.integers(0, (1 << S) - 2))  # never all read-only: bit S-1.. ensure >=1 writable below
    ro = [i for i in range(S) if (romask >> i) & 1]
    if len(ro) == S:
        ro = ro[1:]
    dens = draw(st.sampled_from([0.0, 0.05, 0.2, 0.5]))
    existing = []
    for p in range(S):
        hs = draw(st.lists(st.integers(0, H - 1), max_size=int(H * dens) + (1 if p in ro else 0), unique=True))
        existing += [[p, h] for h in hs]
    return {"mode": "edges", "S": S, "H": H, "ro": ro, "existing": existing, "perm": draw(st.integers(0, 1 << 16))}


def run_shard(spec, ctx):
    if spec["kind"] == "bits":
        S, H = spec["S"], spec["H"]

        def gen():
            for b in range(spec["lo"], spec["hi"]):
                for romask in range(0, (1 << S) - 1):
                    yield {"mode": "bits", "S": S, "H": H, "bits": b, "romask": romask}
        ctx.enumerate(gen(), run_case)
    else:
        ctx.drive(cases(), spec["n"], run_case)


def run_case(case, ctx):
    from allmydata.immutable.happiness_upload import share_placement
    S, H = case["S"], case["H"]
    if case["mode"] == "bits":
        b = case["bits"]
        existing = [[p, h] for p in range(S) for h in range(H) if (b >> (p * H + h)) & 1]
        ro = [i for i in range(S) if (case["romask"] >> i) & 1]
        perm_seed = b * 31 + case["romask"]
    else:
        existing, ro, perm_seed = case["existing"], case["ro"], case["perm"]
    ro = set(ro)
    held = {}
    for p, h in existing:
        held.setdefault(p, set()).add(h)
    adj = {p: (sorted(held.get(p, ())) if p in ro else list(range(H))) for p in range(S)}
    opt = max_matching(adj)
    if S <= 4:
        assert opt == max_matching_brute(adj)
    rnd = random.Random(perm_seed)
    labelings = [["srv%02d" % i for i in range(S)]]
    l2 = ["x%02d" % i for i in range(S)]
    rnd.shuffle(l2)
    labelings.append(l2)
    for li, lab in enumerate(labelings):
        writable = {lab[p] for p in range(S) if p not in ro}
        readonly = {lab[p] for p in ro}
        items = [(lab[p], set(hs)) for p, hs in held.items()]
        if li:
            rnd.shuffle(items)
        p2s = dict(items)
        shares = set(range(H))
        desc = "writable=%r readonly=%r shares=%d existing=%r" % (sorted(writable), sorted(readonly), H, {k: sorted(v) for k, v in p2s.items()})
        try:
            if li == 1:
                # the second labeling goes through the uploader's own bookkeeping (PeerSelector: add_peer, mark_readonly_peer, add_peer_with_share in
                # generated order), which is what feeds share_placement in a real upload
                from allmydata.immutable.upload import PeerSelector
                ps = PeerSelector(1, H, 1, 1)
                for peer in sorted(writable | readonly, key=lambda x: rnd.random()):
                    ps.add_peer(peer)
                events = [("ro", peer, None) for peer in readonly] + [("share", peer, sh) for peer, hs in p2s.items() for sh in hs]
                rnd.shuffle(events)
                for (ev, peer, sh) in events:
                    if ev == "ro":
                        ps.mark_readonly_peer(peer)
                    else:
                        ps.add_peer_with_share(peer, sh)
                res = ps.get_share_placements()
                desc += " (via PeerSelector)"
            else:
                res = share_placement(set(writable), set(readonly), set(shares), {k: set(v) for k, v in p2s.items()})
        except Exception as e:
            ctx.fail("exception", "share_placement raised %r for %s" % (e, desc))
            return
        ctx.check(set(res.keys()) == shares, "incomplete", "placement keys %r != shares for %s" % (sorted(res.keys()), desc))
        for sh, peer in sorted(res.items()):
            ctx.check(peer in writable or peer in readonly, "unknown-server", "share %r -> %r not a known server; %s" % (sh, peer, desc))
            if peer in readonly:
                ctx.check(sh in p2s.get(peer, ()), "readonly-got-new-share",
                          "read-only server %r assigned share %r it does not hold; result=%r; %s" % (peer, sh, res, desc))
        got = len(set(res.values()))
        ctx.check(got >= opt, "suboptimal-spread",
                  "placement uses %d distinct servers but %d are achievable; result=%r; %s" % (got, opt, res, desc))
    ro_holding = any(p in ro and held.get(p) for p in range(S))
    w_holding = any(p not in ro and held.get(p) for p in range(S))
    nt = ro_holding and w_holding
    ctx.note(sig=(S, H, tuple(sorted(ro)), tuple(map(tuple, sorted(existing)))), nontrivial=nt,
             classes=[c for c, f in (("ro-holds-share", ro_holding), ("writable-holds-share", w_holding), ("no-existing", not existing),
                                     ("fewer-servers-than-shares", S < H)) if f],
             sample={"S": S, "H": H, "readonly": sorted(ro), "existing(server,share)": existing[:30], "max_spread": opt})
