"""C07 share_placement: complete, respects read-only servers, maximises spread."""
import random
from hypothesis import strategies as st
from vf.models import max_matching, max_matching_brute

ID = "C07"
LEVEL = "exploration"
ENGINE = "E0 pure + E2 detgrid (upload family)"
TECHNIQUE = "bounded-exhaustive enumeration of layouts + Hypothesis random layouts, validity predicate and independent maximum-matching reference, metamorphic re-labelling; whole uploads on the deterministic in-process grid with servers that are full, read-only, fill up after connecting or fail an allocation (reachability oracle)"
RULE = ("exhaustive: all layouts with S servers (every read-only subset leaving >=1 writable), H shares and every existing-share "
        "relation for the (S,H) bounds of the tier; random: up to 20 servers x 30 shares. Each layout is evaluated under 2 server "
        "labelings (changes set/dict iteration and sort order). Non-trivial = >=1 read-only server holding a share and >=1 writable "
        "server holding a share; distinct by (W,R,H,relation)."
        ' Third family: whole uploads on the in-process grid (at most 2N servers: ok / read-only / full when announced / full only after the client connected / failing allocate), no pre-existing shares; oracle: happiness min(N, number of servers that take shares) is reachable, so the upload succeeds iff that reaches the threshold.')
LEVEL_TEXT = ("Complete enumeration of small layouts (quick: S<=3,H<=4 and S=4,H<=3; thorough: S<=4,H<=5) and random search up to 20x30; "
              "oracle = all shares placed on known servers, read-only servers only get shares they hold, number of distinct servers equals "
              "an independently computed maximum matching of {writable x all shares} U {read-only x held shares}.")
ASSUMPTIONS = ["writable and read-only sets are disjoint and existing share numbers lie inside the share set, as PeerSelector passes them",
               "reference = own Kuhn matching (brute-force cross-check on small graphs)"]
EXHAUSTIVE = {"quick": True, "thorough": True}
BUDGET = {"quick": 600, "thorough": 3 * 3600}


def plan(tier):
    shards = []
    if tier == "quick":
        dims = [(s, h) for s in (1, 2, 3) for h in (1, 2, 3, 4)] + [(4, 1), (4, 2), (4, 3)]
    else:
        dims = [(s, h) for s in (1, 2, 3, 4) for h in (1, 2, 3, 4, 5)]
    for (s, h) in dims:
        total = 1 << (s * h)
        parts = 1 if total < 4096 else (16 if total < (1 << 16) else 64)
        step = total // parts
        for i in range(parts):
            shards.append({"kind": "bits", "S": s, "H": h, "lo": i * step, "hi": (i + 1) * step if i < parts - 1 else total})
    n = 300 if tier == "quick" else 5000
    for i in range(8):
        shards.append({"kind": "hyp", "n": n})
    # "...so an upload is never declared unhappy when a happy layout was reachable": whole uploads on the in-process grid
    for i in range(8):
        shards.append({"kind": "upload", "n": 100 if tier == "quick" else 1000})
    return shards


@st.composite
def upload_cases(draw):
    k = draw(st.integers(1, 3))
    n = draw(st.integers(k, 6))
    # (the selector only ever considers the first 2N servers of the permuted list, by design: keep every server a candidate)
    ns = draw(st.integers(1, min(8, 2 * n)))
    # ok / read-only by configuration / full when the client connects / full only afterwards (the client's picture of it is stale)
    kinds = [draw(st.sampled_from(["ok", "ok", "ok", "ok", "readonly", "full-announced", "full-later", "full-later", "fail-allocate", "fail-allocate-once"])) for _ in range(ns)]
    return {"mode": "upload", "k": k, "n": n, "happy": draw(st.integers(1, n)), "kinds": kinds, "size": draw(st.sampled_from([56, 100, 300])), "hsalt": draw(st.integers(0, 15)),
            "sched": draw(st.lists(st.integers(0, 9), max_size=30))}


def run_upload_case(case, ctx):
    from vf.grid import Grid
    from vf.core import pbytes
    from allmydata.immutable.upload import Data
    from allmydata.interfaces import UploadUnhappinessError, NoServersError
    k, n, happy, kinds = case["k"], case["n"], case["happy"], case["kinds"]
    skw = {i: ({"readonly_storage": True} if kd == "readonly" else {}) for i, kd in enumerate(kinds)}
    g = Grid(ctx.casedir(), len(kinds), {"k": k, "n": n, "happy": happy, "max_segment_size": 64}, server_kw=skw, nclients=0, choices=case["sched"])
    classes = {"upload"}
    try:
        for s_, kd in zip(g.servers, kinds):
            if kd == "full-announced":
                s_.ss.get_available_space = lambda: 0
        c = g.add_client({"k": k, "n": n, "happy": happy, "max_segment_size": 64})
        for s_, kd in zip(g.servers, kinds):
            if kd == "full-later":
                s_.ss.get_available_space = lambda: 0
                classes.add("upload-with-server-that-filled-up-after-connecting")
            elif kd == "fail-allocate":
                s_.fail["allocate_buckets"] = "all"
            elif kd == "fail-allocate-once":
                # (a server whose allocation failed is not asked for new shares again in this upload, by design)
                s_.fail["allocate_buckets"] = {0}
                classes.add("upload-with-failing-allocate")
        r = g.run(c.upload(Data(pbytes(2, case["size"]), convergence=b"c07")))
        # no share exists anywhere beforehand, so the servers that cannot take a share contribute nothing: the best layout puts
        # one share on each server that can, up to N
        reachable = min(n, len([kd for kd in kinds if kd == "ok"]))
        desc = "k=%d N=%d happy=%d servers=%r" % (k, n, happy, kinds)
        if r[0] == "hang":
            ctx.fail("hang", "%s: the upload never completed" % desc)
        elif reachable >= happy and len(kinds) > 2 * n:
            # the selector considers only the first 2N servers of the permuted list (by design): which of them take shares is not modelled here
            classes.add("upload-more-than-2N-servers")
        elif reachable >= happy:
            classes.add("upload-happy-reachable")
            ctx.check(r[0] == "ok", "unhappy-although-reachable", "%s: %d servers can each take a share, so happiness %d is reachable, but the upload ended with %s" % (
                desc, len([kd for kd in kinds if kd == "ok"]), reachable, type(r[1]).__name__ + ": " + str(r[1])[:200] if r[0] == "err" else r[0]), stale="full-later" in kinds)
        else:
            classes.add("upload-happy-unreachable")
            ctx.check(r[0] == "err" and isinstance(r[1], (UploadUnhappinessError, NoServersError)), "happy-although-unreachable", "%s: happiness %d is the best reachable, yet the upload ended with %r" % (desc, reachable, r[0]))
    finally:
        g.stop()
    ctx.note(sig=repr(sorted(case.items())), nontrivial=any(kd != "ok" for kd in kinds), classes=sorted(classes), sample={"k": k, "n": n, "happy": happy, "kinds": kinds})


@st.composite
def cases(draw):
    S = draw(st.integers(1, 20))
    H = draw(st.integers(1, 30))
    romask = draw(st.integers(0, (1 << S) - 2))  # never all read-only: bit S-1.. ensure >=1 writable below
    ro = [i for i in range(S) if (romask >> i) & 1]
    if len(ro) == S:
        ro = ro[1:]
    dens = draw(st.sampled_from([0.0, 0.05, 0.2, 0.5]))
    existing = []
    for p in range(S):
        hs = draw(st.lists(st.integers(0, H - 1), max_size=int(H * dens) + (1 if p in ro else 0), unique=True))
        existing += [[p, h] for h in hs]
    return {"mode": "edges", "S": S, "H": H, "ro": ro, "existing": existing, "perm": draw(st.integers(0, 1 << 16))}


def run_shard(spec, ctx):
    if spec["kind"] == "bits":
        S, H = spec["S"], spec["H"]

        def gen():
            for b in range(spec["lo"], spec["hi"]):
                for romask in range(0, (1 << S) - 1):
                    yield {"mode": "bits", "S": S, "H": H, "bits": b, "romask": romask}
        ctx.enumerate(gen(), run_case)
    elif spec["kind"] == "upload":
        from vf import boot
        ctx.drive(upload_cases(), spec["n"], run_upload_case)
    else:
        ctx.drive(cases(), spec["n"], run_case)


def run_case(case, ctx):
    if case.get("mode") == "upload":
        return run_upload_case(case, ctx)
    from allmydata.immutable.happiness_upload import share_placement
    S, H = case["S"], case["H"]
    if case["mode"] == "bits":
        b = case["bits"]
        existing = [[p, h] for p in range(S) for h in range(H) if (b >> (p * H + h)) & 1]
        ro = [i for i in range(S) if (case["romask"] >> i) & 1]
        perm_seed = b * 31 + case["romask"]
    else:
        existing, ro, perm_seed = case["existing"], case["ro"], case["perm"]
    ro = set(ro)
    held = {}
    for p, h in existing:
        held.setdefault(p, set()).add(h)
    adj = {p: (sorted(held.get(p, ())) if p in ro else list(range(H))) for p in range(S)}
    opt = max_matching(adj)
    if S <= 4:
        assert opt == max_matching_brute(adj)
    rnd = random.Random(perm_seed)
    labelings = [["srv%02d" % i for i in range(S)]]
    l2 = ["x%02d" % i for i in range(S)]
    rnd.shuffle(l2)
    labelings.append(l2)
    for li, lab in enumerate(labelings):
        writable = {lab[p] for p in range(S) if p not in ro}
        readonly = {lab[p] for p in ro}
        items = [(lab[p], set(hs)) for p, hs in held.items()]
        if li:
            rnd.shuffle(items)
        p2s = dict(items)
        shares = set(range(H))
        desc = "writable=%r readonly=%r shares=%d existing=%r" % (sorted(writable), sorted(readonly), H, {k: sorted(v) for k, v in p2s.items()})
        try:
            if li == 1:
                # the second labeling goes through the uploader's own bookkeeping (PeerSelector: add_peer, mark_readonly_peer, add_peer_with_share in
                # generated order), which is what feeds share_placement in a real upload
                from allmydata.immutable.upload import PeerSelector
                ps = PeerSelector(1, H, 1, 1)
                for peer in sorted(writable | readonly, key=lambda x: rnd.random()):
                    ps.add_peer(peer)
                events = [("ro", peer, None) for peer in readonly] + [("share", peer, sh) for peer, hs in p2s.items() for sh in hs]
                rnd.shuffle(events)
                for (ev, peer, sh) in events:
                    if ev == "ro":
                        ps.mark_readonly_peer(peer)
                    else:
                        ps.add_peer_with_share(peer, sh)
                res = ps.get_share_placements()
                desc += " (via PeerSelector)"
            else:
                res = share_placement(set(writable), set(readonly), set(shares), {k: set(v) for k, v in p2s.items()})
        except Exception as e:
            ctx.fail("exception", "share_placement raised %r for %s" % (e, desc))
            return
        ctx.check(set(res.keys()) == shares, "incomplete", "placement keys %r != shares for %s" % (sorted(res.keys()), desc))
        for sh, peer in sorted(res.items()):
            ctx.check(peer in writable or peer in readonly, "unknown-server", "share %r -> %r not a known server; %s" % (sh, peer, desc))
            if peer in readonly:
                ctx.check(sh in p2s.get(peer, ()), "readonly-got-new-share",
                          "read-only server %r assigned share %r it does not hold; result=%r; %s" % (peer, sh, res, desc))
        got = len(set(res.values()))
        ctx.check(got >= opt, "suboptimal-spread",
                  "placement uses %d distinct servers but %d are achievable; result=%r; %s" % (got, opt, res, desc))
    ro_holding = any(p in ro and held.get(p) for p in range(S))
    w_holding = any(p not in ro and held.get(p) for p in range(S))
    nt = ro_holding and w_holding
    ctx.note(sig=(S, H, tuple(sorted(ro)), tuple(map(tuple, sorted(existing)))), nontrivial=nt,
             classes=[c for c, f in (("ro-holds-share", ro_holding), ("writable-holds-share", w_holding), ("no-existing", not existing),
                                     ("fewer-servers-than-shares", S < H)) if f],
             sample={"S": S, "H": H, "readonly": sorted(ro), "existing(server,share)": existing[:30], "max_spread": opt})
