"""C29 share containers survive a server crash (process kill at every file-mutation point)."""
import os, shutil
from hypothesis import strategies as st
from vf import boot, store, crash
from vf.core import pbytes

ID = "C29"
LEVEL = "fault_enumeration"
ENGINE = "E1 store"
TECHNIQUE = ("crash-point enumeration: for each Hypothesis-generated storage operation (immutable upload with generated chunking, allocate on a storage index that already has "
             "shares, lease add/renew on immutable and mutable shares incl. the 5th+ lease, mutable writes that grow/shrink/delete a container carrying more than four "
             "leases), every low-level file mutation the operation performs (create, write, truncate, rename, unlink, mkdir, rmdir) is a kill point, writes additionally "
             "at generated torn prefixes; after each kill a new StorageServer is started on the directory and the four clauses of the statement are checked against a "
             "snapshot taken before the operation")
RULE = ("each case: one operation with generated parameters on a server pre-populated with two immutable storage indexes and one mutable slot whose shares carry 5 leases; "
        "run 1 counts the P mutation primitives; runs 2..: restore the snapshot, kill after primitive i for every i in 1..P (and inside each write after a generated prefix). "
        "After restart: (1) every share the operation does not write keeps its data and its leases; (2) after a lease-only operation every share reads the same data as "
        "before; (3) every immutable share the server lists is complete (equal to the finished upload) or absent; (4) incoming/ is empty and the server starts and lists "
        "shares without error. Non-trivial = a kill strictly inside the operation (not after its last primitive); distinct by (operation, parameters, kill point).")
LEVEL_TEXT = "Every file-mutation point of each generated operation is enumerated as a kill point (plus torn writes); the invariant is checked after a restart."
ASSUMPTIONS = ["process-kill model: completed system calls persist, nothing else does; no power-loss reordering or lost page cache", "files are written unbuffered by the injector so that the directory after the kill is exactly the kill state",
               "collections_extended.RangeMap is provided by the shim in /verif/shims"]
REQUIRED_CLASSES = ["imm-upload", "imm-add-lease", "imm-renew", "imm-alloc-existing", "mut-add-lease", "mut-write-grow", "mut-truncate", "mut-delete", "torn-write", "kill-inside"]
BUDGET = {"quick": 900, "thorough": 7200}
OPS = ["imm-upload", "imm-upload", "imm-alloc-existing", "imm-add-lease", "imm-renew", "mut-add-lease", "mut-renew", "mut-write-grow", "mut-write-inplace", "mut-truncate", "mut-delete", "mut-create"]


def plan(tier):
    n = 20 if tier == "quick" else 200
    return [{"kind": "hyp", "n": n} for _ in range(16)]


@st.composite
def cases(draw):
    return {"op": draw(st.sampled_from(OPS)), "size": draw(st.integers(1, 300)), "chunks": draw(st.lists(st.integers(1, 120), min_size=1, max_size=4)),
            "shares": draw(st.sampled_from([[0], [0, 1], [2], [1, 3]])), "off": draw(st.integers(0, 400)), "len": draw(st.integers(1, 300)), "newlen": draw(st.integers(0, 120)),
            "torn": draw(st.lists(st.integers(1, 200), min_size=1, max_size=2)), "schema": draw(st.sampled_from([1, 2]))}


def run_shard(spec, ctx):
    ctx.drive(cases(), spec["n"], run_case, shrink=False)


SI_A, SI_C, SI_B, SI_N, SI_M = [store.si(i) for i in range(5)]
SECRETS = [(store.secret(i, b"renew"), store.secret(i, b"cancel")) for i in range(12)]
WE = store.secret(99, b"we")


def populate(base, schema):
    ss = store.make_server(base)
    can = store.Canary()
    for si_, shnums, size, fill in ((SI_A, [0, 1], 150, 1), (SI_C, [0], 60, 2)):
        already, writers = ss.allocate_buckets(si_, SECRETS[0][0], SECRETS[0][1], shnums, size, renew_leases=False)
        for sh, w in writers.items():
            w.write(0, pbytes(fill * 10 + sh, size))
            w.close()
    ss.add_lease(SI_A, SECRETS[1][0], SECRETS[1][1])
    # mutable slot with two shares and five leases each (the fifth lives in the extra-lease area)
    for i in range(5):
        ss.slot_testv_and_readv_and_writev(SI_B, (WE, SECRETS[i][0], SECRETS[i][1]), {0: ([], [(0, pbytes(30, 100))] if i == 0 else [], None), 1: ([], [(0, pbytes(31, 100))] if i == 0 else [], None)}, [])
    return ss


def observe(base):
    """Start a server on the directory (a restart) and read everything readers can see."""
    from allmydata.storage.immutable import ShareFile
    from allmydata.storage.mutable import MutableShareFile
    ss = store.make_server(base)
    out = {"incoming": [os.path.relpath(p, base) for p in store.incoming_files(ss)], "imm": {}, "mut": {}}
    for si_ in (SI_A, SI_C, SI_N):
        for sh, br in ss.get_buckets(si_).items():
            path = br._share_file.home if hasattr(br, "_share_file") else None
            leases = sorted((l.get_expiration_time(), l.is_renew_secret(SECRETS[0][0]), l.is_renew_secret(SECRETS[1][0]), l.is_renew_secret(SECRETS[7][0])) for l in ss.get_leases(si_)) if False else None
            sf = ShareFile(os.path.join(ss.sharedir, __import__("allmydata.storage.common", fromlist=["x"]).storage_index_to_dir(si_), "%d" % sh))
            try:
                leases = [tuple(l.is_renew_secret(s[0]) for s in SECRETS) + (l.get_expiration_time(),) for l in sf.get_leases()]
            except Exception as e:
                leases = "unreadable: %s" % type(e).__name__
            out["imm"][(si_, sh)] = (br.read(0, 10 ** 9), leases)
    from allmydata.storage.common import storage_index_to_dir
    for si_ in (SI_B, SI_M):
        d = os.path.join(ss.sharedir, storage_index_to_dir(si_))
        if os.path.isdir(d):
            for f in sorted(os.listdir(d)):
                if f.isdigit():
                    try:
                        msf = MutableShareFile(os.path.join(d, f))
                        msf.readv([(0, 1)])
                    except Exception as e:
                        # a share file killed in mid-creation; only matters if the statement protects this share (checked by the caller)
                        out["mut"][(si_, int(f))] = ("unreadable: %s" % type(e).__name__, None)
                        continue
                    try:
                        leases = [tuple(l.is_renew_secret(s[0]) for s in SECRETS) + (l.get_expiration_time(),) for l in msf.get_leases()]
                    except Exception as e:
                        leases = "unreadable: %s" % type(e).__name__
                    out["mut"][(si_, int(f))] = (msf.readv([(0, 10 ** 9)])[0], leases)
    # the reader-facing API must work for the mutable slot too
    ss.slot_readv(SI_B, [], [(0, 10)])
    return out


def operation(case):
    """-> (callable(ss), set of written share keys, lease_only flag, expected complete immutable contents {key: bytes})"""
    op = case["op"]
    size = case["size"]
    if op in ("imm-upload", "imm-alloc-existing"):
        si_ = SI_N if op == "imm-upload" else SI_A
        shnums = case["shares"] if op == "imm-upload" else [2]
        contents = {(si_, sh): pbytes(70 + sh, size) for sh in shnums}

        def run(ss):
            can = store.Canary()
            already, writers = ss.allocate_buckets(si_, SECRETS[7][0], SECRETS[7][1], shnums, size)
            for sh, w in sorted(writers.items()):
                pos = 0
                data = contents[(si_, sh)]
                i = 0
                while pos < size:
                    c = case["chunks"][i % len(case["chunks"])]
                    w.write(pos, data[pos:pos + c])
                    pos += c
                    i += 1
                w.close()
        return run, set(contents), False, contents
    if op == "imm-add-lease":
        return (lambda ss: ss.add_lease(SI_A, SECRETS[7][0], SECRETS[7][1])), {(SI_A, 0), (SI_A, 1)}, True, {}
    if op == "imm-renew":
        def run(ss):
            boot.R.advance(1000)
            ss.add_lease(SI_A, SECRETS[1][0], SECRETS[1][1])
        return run, {(SI_A, 0), (SI_A, 1)}, True, {}
    if op == "mut-add-lease":
        return (lambda ss: ss.add_lease(SI_B, SECRETS[7][0], SECRETS[7][1])), {(SI_B, 0), (SI_B, 1)}, True, {}
    if op == "mut-renew":
        def run(ss):
            boot.R.advance(1000)
            ss.add_lease(SI_B, SECRETS[4][0], SECRETS[4][1])
        return run, {(SI_B, 0), (SI_B, 1)}, True, {}
    sec = (WE, SECRETS[0][0], SECRETS[0][1])
    if op == "mut-write-grow":
        return (lambda ss: ss.slot_testv_and_readv_and_writev(SI_B, sec, {0: ([], [(100 + case["off"], pbytes(5, case["len"]))], None)}, [])), {(SI_B, 0)}, False, {}
    if op == "mut-write-inplace":
        return (lambda ss: ss.slot_testv_and_readv_and_writev(SI_B, sec, {0: ([], [(case["off"] % 90, pbytes(5, 1 + case["len"] % 10))], None)}, [])), {(SI_B, 0)}, False, {}
    if op == "mut-truncate":
        return (lambda ss: ss.slot_testv_and_readv_and_writev(SI_B, sec, {1: ([], [], 1 + case["newlen"] % 99)}, [])), {(SI_B, 1)}, False, {}
    if op == "mut-delete":
        return (lambda ss: ss.slot_testv_and_readv_and_writev(SI_B, sec, {0: ([], [], 0)}, [])), {(SI_B, 0)}, False, {}
    if op == "mut-create":
        return (lambda ss: ss.slot_testv_and_readv_and_writev(SI_M, sec, {sh: ([], [(0, pbytes(9, size))], None) for sh in case["shares"]}, [])), {(SI_M, sh) for sh in case["shares"]}, False, {}
    raise ValueError(op)


def run_case(case, ctx):
    import allmydata.storage.immutable as immod
    d = ctx.casedir()
    pristine, work = os.path.join(d, "pristine"), os.path.join(d, "work")
    populate(pristine, case["schema"])
    before = observe_copy(pristine, work)
    run, written, lease_only, complete = operation(case)
    classes = {case["op"]}

    def attempt(kill_at, torn):
        crash.copytree(pristine, work)
        boot.R.rightNow = boot.EPOCH
        ss = store.make_server(work)
        inj = crash.Injector(work)
        inj.kill_at, inj.torn = kill_at, torn
        inj.install()
        died = False
        try:
            run(ss)
        except crash.Crash:
            died = True
        finally:
            inj.uninstall()
        return inj, died
    inj0, _ = attempt(None, None)
    P = inj0.count
    log = inj0.log
    ctx.extra["crash_points"] = ctx.extra.get("crash_points", 0)
    points = [(i, None) for i in range(1, P + 1)]
    for i, (kind, path, size) in enumerate(log, 1):
        if kind == "write":
            for t in case["torn"]:
                if 0 < t < size:
                    points.append((i, t))
                    classes.add("torn-write")
    for (i, torn) in points:
        inj, died = attempt(i, torn)
        ctx.extra["crash_points"] += 1
        kind, path, size = log[i - 1]
        where = "kill after primitive %d/%d (%s %s%s)" % (i, P, kind, path, "" if torn is None else ", only %d of %d bytes written" % (torn, size))
        desc = "op=%s params=%r; %s" % (case["op"], {k: case[k] for k in ("size", "chunks", "shares", "off", "len", "newlen")}, where)
        from allmydata.storage.common import storage_index_to_dir
        existing_imm = {os.path.join("shares", storage_index_to_dir(k[0]), "%d" % k[1]) for k in before["imm"]}
        path_kind = "existing-immutable-share" if path in existing_imm else "other"
        try:
            after = observe(work)
        except Exception as e:
            ctx.fail("restart-failed", "%s: after the kill the restarted server cannot list/read shares: %s: %s" % (desc, type(e).__name__, str(e)[:200]), op=case["op"], exc=type(e).__name__)
            continue
        if i < P or torn is not None:
            classes.add("kill-inside")
        # (4)
        ctx.check(not after["incoming"], "incoming-not-empty", "%s: incoming/ holds %r after the restart" % (desc, after["incoming"]), op=case["op"])
        # (1) and (2)
        for kind2 in ("imm", "mut"):
            for key, (data0, leases0) in before[kind2].items():
                got = after[kind2].get(key)
                untouched = key not in written
                if untouched and case["op"] == "imm-alloc-existing" and key[0] == SI_A:
                    # allocate_buckets on a storage index with existing shares also adds the uploader's lease to them: a lease-only write to these shares
                    if got is None or got[0] != data0:
                        ctx.fail("bystander-share-changed", "%s: share %d (which only received a lease) changed: %s" % (desc, key[1], "gone" if got is None else "data differs (%s)" % effect_of(data0, got)), op=case["op"], primitive=kind, path_kind=path_kind, effect=effect_of(data0, got))
                elif untouched:
                    if got is None or got[0] != data0 or got[1] != leases0:
                        ctx.fail("bystander-share-changed", "%s: share %d of another/unwritten slot changed: %s" % (desc, key[1], "gone" if got is None else ("data differs" if got[0] != data0 else "leases differ")), op=case["op"], primitive=kind, path_kind=path_kind)
                elif lease_only:
                    if got is None or got[0] != data0:
                        ctx.fail("lease-op-changed-data", "%s: a lease-only operation changed what share %d reads as: %s" % (
                            desc, key[1], "share is gone" if got is None else "%d bytes before, %d bytes after%s" % (len(data0), len(got[0]), "" if got[0][:len(data0)] == data0 else ", contents differ")),
                            op=case["op"], primitive=kind, path_kind=path_kind, effect=effect_of(data0, got))
        # (3)
        for key, (data1, leases1) in after["imm"].items():
            if key in complete:
                ctx.check(data1 == complete[key], "incomplete-immutable-share-visible", "%s: the server lists immutable share %d with %d bytes; the complete share has %d" % (desc, key[1], len(data1), len(complete[key])), op=case["op"])
        ctx.note(sig=(case["op"], repr(sorted(case.items())), i, torn), nontrivial=(i < P or torn is not None), classes=())
    ctx.note(sig=None, nontrivial=False, classes=sorted(classes), sample={"op": case["op"], "primitives": ["%s %s %d" % l for l in log][:12], "kill_points": len(points)})


def effect_of(data0, got):
    if got is None:
        return "gone"
    d1 = got[0]
    if isinstance(d1, bytes) and len(data0) < len(d1) <= len(data0) + 72 and d1[:len(data0)] == data0:
        return "grew<=72-prefix-intact"
    if isinstance(d1, bytes) and len(d1) < len(data0):
        return "shrunk"
    return "other"


def observe_copy(pristine, work):
    crash.copytree(pristine, work)
    return observe(work)
