"""C15 capability strings round-trip and parse canonically."""
import re
from hypothesis import strategies as st
from vf import caps as C

ID = "C15"
LEVEL = "exploration"
ENGINE = "E0 pure"
TECHNIQUE = "Hypothesis round-trip over all 18 cap kinds + grammar-aware and byte-level mutation of valid cap strings, canonical re-serialisation oracle; thorough tier adds coverage-guided atheris/libFuzzer campaigns (seeded and empty corpus) with the same oracle inside the target"
RULE = ("rt: cap objects of every kind from random fields (k/N/size up to 2^80) -> to_string -> from_string -> equal object, same class, identical string; "
        "mut: a valid cap string with 1-3 mutations (append/insert/delete/replace any byte 0-255, trailing newline/space/colon/junk, non-canonical last base32 "
        "character, wrong field lengths, leading zeros or '+' in numbers, case changes, ro./imm. prefixes, MDMF extension fields); raw: printable strings around "
        "the URI: grammar. Oracle: result is UnknownURI echoing the input, or a known kind whose to_string() equals the input after removing a legal prefix "
        "(and, for MDMF kinds only, ':'-introduced extension fields) and whose class matches the URI:<kind>: prefix. Non-trivial = mutated string that is still "
        "accepted as a known kind, or any rt case with a field >= 2^32; distinct by input string."
        ' Mutations include numeric fields of 4299/4300/4301/9000 digits; only AssertionError/TypeError escaping from_string count as rejection (as in is_uri()), any other exception is a parser crash.')
LEVEL_TEXT = "Search over generated and mutated capability strings with a canonical-form oracle; round trip exactness for every kind."
ASSUMPTIONS = ["an AssertionError or TypeError escaping from_string() for a bytes input counts as rejection (is_uri() treats them that way); any other exception is a parser crash"]
REQUIRED_CLASSES = ["huge-number", "rt", "mut-accepted", "mut-unknown", "mdmf-extension-accepted", "prefix-ro", "prefix-imm"]
BUDGET = {"quick": 600, "thorough": 3600}


def plan(tier):
    n = 300 if tier == "quick" else 5000
    shards = [{"kind": "hyp", "fam": f, "n": n} for f in ("rt", "mut", "mut", "mut", "raw", "mut", "mut", "rt")] + \
             [{"kind": "hyp", "fam": "mut", "n": n} for _ in range(8)]
    if tier != "quick":
        # coverage-guided campaigns (atheris/libFuzzer) with the same oracle in the target: two from a corpus of one valid cap per kind, two from an empty corpus
        shards += [{"kind": "atheris", "runs": 400000, "seeded": i < 2, "seed": 11 + i} for i in range(4)]
    return shards


def mutation():
    b32 = "abcdefghijklmnopqrstuvwxyz234567"
    return st.one_of(
        st.tuples(st.just("app"), st.sampled_from(["\n", " ", ":", ":junk", "\r\n", "\x00", ":3:131073", "a", "=", ":"]), st.just(0)),
        st.tuples(st.sampled_from(["set", "ins", "del"]), st.integers(0, 255), st.integers(0, 400)),
        st.tuples(st.just("lastb32"), st.sampled_from(list(b32)), st.integers(0, 3)),
        st.tuples(st.just("num"), st.sampled_from(["0", "00", "+", " ", "-", "0x"]), st.integers(0, 2)),
        # a numeric field longer than Python converts by default (4300 digits), and one just below
        st.tuples(st.just("numhuge"), st.sampled_from(["4299", "4300", "4301", "9000"]), st.integers(0, 2)),
        st.tuples(st.just("prefix"), st.sampled_from(["ro.", "imm.", "ro.imm.", "imm.ro.", "RO.", " "]), st.just(0)),
        st.tuples(st.just("case"), st.sampled_from(["upper", "lower", "swap_kind"]), st.just(0)),
        st.tuples(st.just("fieldlen"), st.sampled_from(["a", "aa", ""]), st.integers(0, 3)),
        st.tuples(st.just("trunc"), st.just(""), st.integers(1, 60)),
    )


def strat(fam):
    if fam == "rt":
        return st.fixed_dictionaries({"fam": st.just("rt"), "p": C.cap_params()})
    if fam == "mut":
        return st.fixed_dictionaries({"fam": st.just("mut"), "p": C.cap_params(), "muts": st.lists(mutation(), min_size=1, max_size=3)})
    return st.fixed_dictionaries({"fam": st.just("raw"), "s": st.one_of(
        st.text(alphabet="URI:CHKLTSDMFVerifier-2abcdefgh234567:0123456789.roim\n ", max_size=80),
        st.tuples(st.sampled_from(sorted(C.PREFIX)), st.text(alphabet="abcdefghijklmnopqrstuvwxyz234567:0123456789", max_size=120)).map(
            lambda t: "URI:%s:%s" % t))})


def run_shard(spec, ctx):
    if spec["kind"] == "atheris":
        return run_atheris(spec, ctx)
    ctx.drive(strat(spec["fam"]), spec["n"], run_case)


def run_atheris(spec, ctx):
    """One libFuzzer campaign in a child process (atheris.Fuzz never returns); every saved crash artifact is re-judged here and becomes an ordinary replay case."""
    import os, subprocess, sys, glob, re
    from vf.core import mix
    home = os.environ.get("VERIF_HOME", os.path.dirname(os.path.dirname(os.path.abspath(__file__))))
    d = ctx.casedir()
    art, corpus = os.path.join(d, "artifacts"), os.path.join(d, "corpus")
    os.makedirs(corpus)
    if spec["seeded"]:
        for i, kind in enumerate(C.KINDS):
            cap = C.make({"kind": kind, "a": i, "b": i + 1, "k": 3, "n": 10, "size": 1000 + i, "lit": b"literal".hex()})
            open(os.path.join(corpus, "cap%02d" % i), "wb").write(cap.to_string())
    env = dict(os.environ)
    cmd = [sys.executable, os.path.join(home, "fuzz", "cap_parse.py"), art, corpus, "-runs=%d" % spec["runs"], "-seed=%d" % (mix(ctx.seed, spec["seed"]) % (2 ** 31 - 1) + 1)]
    try:
        p = subprocess.run(cmd, env=env, stdout=subprocess.PIPE, stderr=subprocess.STDOUT, timeout=1500)
        out = p.stdout.decode("utf-8", "replace")
    except subprocess.TimeoutExpired as e:
        out = (e.stdout or b"").decode("utf-8", "replace")
    if "No module named 'atheris'" in out:
        ctx.cls("atheris-unavailable")
        return
    m = re.search(r"stat::number_of_executed_units:\s*(\d+)", out)
    execs = int(m.group(1)) if m else 0
    ctx.extra["atheris_execs"] = ctx.extra.get("atheris_execs", 0) + execs
    ctx.evaluations += execs
    ctx.cls("atheris-seeded-corpus" if spec["seeded"] else "atheris-empty-corpus")
    crashes = sorted(glob.glob(os.path.join(art, "crash-*")))
    cases = [{"fam": "rawhex", "hex": open(f, "rb").read().hex()} for f in crashes]
    ctx.enumerate(cases, run_case)


def apply_mut(s, m):
    op, a, b = m
    if op == "app":
        return s + a.encode("latin1")
    if op == "set" and s:
        i = b % len(s)
        return s[:i] + bytes([a]) + s[i + 1:]
    if op == "ins":
        i = b % (len(s) + 1)
        return s[:i] + bytes([a]) + s[i:]
    if op == "del" and s:
        i = b % len(s)
        return s[:i] + s[i + 1:]
    if op == "lastb32":
        # replace the last char of the b-th base32-looking field
        fields = list(re.finditer(rb"[a-z2-7]{5,}", s))
        if fields:
            f = fields[b % len(fields)]
            return s[:f.end() - 1] + a.encode() + s[f.end():]
        return s
    if op == "numhuge":
        nums = list(re.finditer(rb":(\d+)", s))
        if nums:
            f = nums[b % len(nums)]
            return s[:f.start(1)] + b"7" * int(a) + s[f.end(1):]
        return s
    if op == "num":
        nums = list(re.finditer(rb":(\d+)", s))
        if nums:
            f = nums[b % len(nums)]
            return s[:f.start(1)] + a.encode() + s[f.start(1):]
        return s + a.encode()
    if op == "prefix":
        return a.encode() + s
    if op == "case":
        if a == "upper":
            return s.upper()
        if a == "lower":
            return s.lower()
        return s.replace(b"URI:SSK:", b"URI:SSK-RO:").replace(b"URI:CHK:", b"URI:CHK-Verifier:") if b"-RO" not in s else s.replace(b"-RO:", b":")
    if op == "fieldlen":
        fields = list(re.finditer(rb"[a-z2-7]{5,}", s))
        if fields:
            f = fields[b % len(fields)]
            return s[:f.end()] + a.encode() + s[f.end():] if a else s[:f.end() - 1] + s[f.end():]
        return s
    if op == "trunc":
        return s[:max(0, len(s) - b)]
    return s


def parse_oracle(ctx, s, classes):
    from allmydata import uri
    try:
        r = uri.from_string(s)
    except (AssertionError, TypeError):
        # the two exception types the module's own is_uri() treats as "not a cap"
        classes.append("raised")
        return None
    except Exception as e:
        ctx.fail("parser-crash", "from_string(%r%s) raised %r: neither a known capability nor reported as unknown" % (s[:80], "..." if len(s) > 80 else "", e), exc=type(e).__name__)
        return None
    if isinstance(r, uri.UnknownURI):
        ctx.check(r.to_string() == s, "unknown-not-echoed", "UnknownURI.to_string()=%r for input %r" % (r.to_string(), s))
        classes.append("unknown")
        return r
    body = s
    if body.startswith(b"imm."):
        body = body[4:]
        classes.append("prefix-imm")
    elif body.startswith(b"ro."):
        body = body[3:]
        classes.append("prefix-ro")
    kind = C.class_kind(r)
    want = C.kind_of_string(body)
    ctx.check(kind is not None and kind == want, "wrong-kind", "input %r parsed as %s (%r) but its prefix says %r" % (s, type(r).__name__, kind, want))
    canon = r.to_string()
    if kind in C.MDMF_KINDS:
        ok = body == canon or (body.startswith(canon) and body[len(canon):len(canon) + 1] == b":")
        if ok and body != canon:
            classes.append("mdmf-extension-accepted")
    else:
        ok = body == canon
    ctx.check(ok, "non-canonical-accepted", "from_string(%r) is a %s whose to_string() is %r: accepted string does not re-serialise to itself" % (s, type(r).__name__, canon))
    if kind in C.WRITE_KINDS:
        ctx.check(not s.startswith((b"ro.", b"imm.")), "prefix-ignored", "%r gave a writeable %s" % (s, type(r).__name__))
    if kind in C.MUTABLE_KINDS:
        ctx.check(not s.startswith(b"imm."), "prefix-ignored", "%r gave a mutable %s" % (s, type(r).__name__))
    classes.append("known")
    return r


def run_case(case, ctx):
    from allmydata import uri
    classes = []
    if case["fam"] == "rt":
        p = case["p"]
        obj = C.make(p)
        s = obj.to_string()
        ctx.check(isinstance(s, bytes), "to_string-type", repr(s))
        try:
            r = uri.from_string(s)
        except Exception as e:
            ctx.fail("roundtrip", "from_string(%r) raised %r" % (s, e))
            return
        ctx.check(type(r) is type(obj), "roundtrip", "%r parsed as %s, built as %s" % (s, type(r).__name__, type(obj).__name__))
        ctx.check(r.to_string() == s, "roundtrip", "%r re-serialises as %r" % (s, r.to_string()))
        ctx.check(r == obj and not (r != obj) and hash(r) == hash(obj), "roundtrip", "parsed cap not equal to the original for %r" % s)
        # str input is accepted too
        r2 = uri.from_string(s.decode("ascii"))
        ctx.check(type(r2) is type(obj) and r2.to_string() == s, "roundtrip", "unicode input %r" % s)
        if p["kind"] in ("CHK", "CHK-Verifier", "DIR2-CHK", "DIR2-CHK-Verifier"):
            inner = r._filenode_uri if p["kind"].startswith("DIR2") else r
            ctx.check((inner.needed_shares, inner.total_shares, inner.size) == (p["k"], p["n"], p["size"]), "roundtrip", "numeric fields of %r" % s)
        if p["kind"] == "LIT":
            ctx.check(r.data == bytes.fromhex(p["lit"]), "roundtrip", "LIT data of %r" % s)
        parse_oracle(ctx, s, classes)
        big = max(p["k"], p["n"], p["size"]) >= 2 ** 32 and "CHK" in p["kind"]
        ctx.note(sig=s, nontrivial=big, classes=["rt"] + (["rt-bignum"] if big else []), sample={"fam": "rt", "cap": s.decode()})
        return
    if case["fam"] == "mut":
        s = C.make(case["p"]).to_string()
        orig = s
        for m in case["muts"]:
            s = apply_mut(s, tuple(m))
    elif case["fam"] == "rawhex":
        s = bytes.fromhex(case["hex"])
        orig = None
    else:
        s = case["s"].encode("utf-8")
        orig = None
    r = parse_oracle(ctx, s, classes)
    known = "known" in classes
    if case["fam"] == "mut" and any(m[0] == "numhuge" for m in case["muts"]) and re.search(rb"\d{4000}", s):
        classes.append("huge-number")
    if case["fam"] == "mut":
        classes.append("mut-accepted" if known else ("mut-unknown" if "unknown" in classes else "mut-raised"))
        nt = known and s != orig
    else:
        classes.append("raw-accepted" if known else "raw-rejected")
        nt = known
    ctx.note(sig=s, nontrivial=nt, classes=classes, sample={"fam": case["fam"], "input": s.decode("latin1")[:300], "result": classes})
