"""C08 servers_of_happiness(sharemap) == size of a maximum matching, and is
independent of insertion order."""
import random
from hypothesis import strategies as st
from vf.models import max_matching, max_matching_brute

ID = "C08"
LEVEL = "exploration"
RULE = ("exhaustive: every relation between S<=4 servers and H<=4 shares (bit masks), each built under 3 insertion "
        "orders with sparse share numbers and bytes server ids; random: relations up to 30x30 drawn by Hypothesis. "
        "Non-trivial = relation with >=2 edges where the matching is smaller than both #servers-with-shares and "
        "#shares-with-servers, or any case evaluated under a permuted order; distinct by (S,H,edge set).")
ASSUMPTIONS = ["reference = own Kuhn augmenting-path matching, cross-checked against brute force on graphs with <=5 left vertices"]
ENGINE = "E0 pure"
TECHNIQUE = "bounded-exhaustive enumeration (all relations <=4x4) + Hypothesis random relations, differential against an independent maximum-matching reference"
LEVEL_TEXT = "All 2^(S*H) relations for S,H<=4 are enumerated completely and random relations up to 30x30 are searched; each is evaluated under three insertion orders and compared with an independent matching. Exhaustive within the small bound, search beyond."
EXHAUSTIVE = {"quick": True, "thorough": True}
BUDGET = {"quick": 300, "thorough": 1800}


def plan(tier):
    shards = []
    # exhaustive S x H bitmasks
    dims = [(s, h) for s in range(1, 5) for h in range(1, 5)]
    for (s, h) in dims:
        total = 1 << (s * h)
        parts = 8 if total >= 4096 else 1
        step = total // parts
        for i in range(parts):
            shards.append({"kind": "bits", "S": s, "H": h, "lo": i * step, "hi": (i + 1) * step if i < parts - 1 else total})
    n = 400 if tier == "quick" else 6000
    for i in range(8):
        shards.append({"kind": "hyp", "n": n})
    return shards


@st.composite
def cases(draw):
    S = draw(st.integers(1, 30))
    H = draw(st.integers(1, 30))
    dens = draw(st.sampled_from([0.05, 0.15, 0.3, 0.6, 0.9]))
    # edges by construction: per share a subset of servers
    edges = []
    for h in range(H):
        servers = draw(st.lists(st.integers(0, S - 1), max_size=max(1, int(S * dens) + 1), unique=True))
        edges += [[h, s] for s in servers]
    return {"mode": "edges", "S": S, "H": H, "edges": edges,
            "perm": draw(st.integers(0, 2 ** 16)), "stride": draw(st.sampled_from([1, 2, 7, 100]))}


def run_shard(spec, ctx):
    if spec["kind"] == "bits":
        S, H = spec["S"], spec["H"]
        ctx.enumerate(({"mode": "bits", "S": S, "H": H, "bits": b} for b in range(spec["lo"], spec["hi"])), run_case)
    else:
        ctx.drive(cases(), spec["n"], run_case)


def _edges(case):
    if case["mode"] == "bits":
        S, H, b = case["S"], case["H"], case["bits"]
        return [[h, s] for h in range(H) for s in range(S) if (b >> (h * S + s)) & 1]
    return case["edges"]


def run_case(case, ctx):
    from allmydata.util.happinessutil import servers_of_happiness
    edges = _edges(case)
    S, H = case["S"], case["H"]
    stride = case.get("stride", 3)
    sid = lambda s: b"srv-%03d" % s
    shn = lambda h: h * stride + 1
    adj = {}
    for h, s in edges:
        adj.setdefault(s, set()).add(h)
    ref = max_matching({s: sorted(v) for s, v in sorted(adj.items())})
    if len(adj) <= 5:
        b = max_matching_brute(adj)
        if b != ref:
            raise RuntimeError("reference matching disagrees with brute force: %r" % (case,))
    orders = [list(edges), list(reversed(edges))]
    rnd = random.Random(case.get("perm", case.get("bits", 0)))
    e3 = list(edges)
    rnd.shuffle(e3)
    orders.append(e3)
    results = []
    for oi, order in enumerate(orders):
        sharemap = {}
        for h, s in order:
            sharemap.setdefault(shn(h), set()).add(sid(s))
        try:
            got = servers_of_happiness(sharemap)
        except Exception as e:
            ctx.fail("exception", "servers_of_happiness raised %r on %r" % (e, sharemap), order=oi)
            return
        results.append(got)
        ctx.check(got == ref, "wrong-happiness",
                  "servers_of_happiness=%r but maximum matching=%r for edges(share,server)=%r order#%d" % (got, ref, order, oi))
    ctx.check(len(set(results)) == 1, "order-dependent", "results differ across insertion orders: %r" % (results,))
    nshares = len({h for h, s in edges})
    nontrivial = len(edges) >= 2 and ref < min(len(adj), nshares)
    ctx.note(sig=(S, H, tuple(map(tuple, sorted(edges)))), nontrivial=nontrivial or (len(edges) >= 2 and case["mode"] == "edges"),
             classes=["matching<min(servers,shares)"] if nontrivial else (["empty"] if not edges else ["full-rank"]),
             sample={"case": case if case["mode"] == "bits" else {"S": S, "H": H, "edges": edges[:40]}, "happiness": ref})
