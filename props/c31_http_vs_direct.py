"""C31 HTTP and direct storage access agree."""
import os
from hypothesis import strategies as st
from vf import boot, store, httpmem
from vf.core import pbytes

ID = "C31"
LEVEL = "exploration"
ENGINE = "E1 store"
TECHNIQUE = ("differential testing: the same Hypothesis-generated IStorageServer-level history (allocate, chunked writes in generated order and chunking, close, abort, "
             "get_buckets + range reads incl. past the end, mutable read-test-write, slot_readv with empty / existing / listed-but-absent share lists, add_lease) is applied to "
             "_HTTPStorageServer (StorageClient -> in-memory HTTP -> HTTPServer -> StorageServer A) and to _StorageServer (-> FoolscapStorageServer -> StorageServer B); "
             "normalised results are compared after every operation, and share data and leases of A and B at the end")
RULE = ("each case: up to 14 operations over 3 immutable and 2 mutable storage indexes, share numbers 0-3; write chunks are slices of a fixed per-share content (so overlapping "
        "writes agree) or, rarely, conflicting bytes; close is issued once every byte has been written (the HTTP writer closes implicitly then, and its close() waits for "
        "that); reads have length >= 1. Oracle: both paths give the same normalised result (sets, bytes, (success, reads), error vs. success) for every operation; at the end "
        "the share data visible through get_buckets/slot_readv and, per share, the number of leases and which known renew secrets they match are equal on both servers. "
        "Non-trivial = an upload written in >=2 chunks or out of order, a read past the end, a failing test vector, or a slot_readv naming an absent share; distinct by whole case.")
LEVEL_TEXT = "Differential search: the direct path is the reference for the HTTP path."
ASSUMPTIONS = ["TLS, NURLs and the real network are not involved (the HTTP resource tree and the client marshalling are exercised in memory)",
               "zero-length writes are not generated (RangeMap rejects them on both paths)", "collections_extended.RangeMap is provided by the shim in /verif/shims"]
REQUIRED_CLASSES = ["testv-matching", "testv-size-ne-specimen", "testv-must-not-exist", "chunked-upload", "out-of-order-chunks", "read-past-end", "failing-testv", "readv-absent-share", "readv-all", "add-lease-immutable", "add-lease-mutable", "abort", "realloc-existing"]
BUDGET = {"quick": 900, "thorough": 7200}
SIZES = [1, 10, 33, 100, 70000]        # (the last one is larger than the 64 KiB pieces in which the HTTP server stores a request body)


def plan(tier):
    n = 60 if tier == "quick" else 1200
    return [{"kind": "hyp", "n": n} for _ in range(16)]


si_i = st.integers(0, 2)
si_m = st.integers(3, 4)
sh = st.integers(0, 3)
rng = st.tuples(st.integers(0, 130), st.integers(1, 60) | st.sampled_from([0, 1])).map(list)      # (zero-length reads are legal in the storage API)
op = st.one_of(
    st.tuples(st.just("alloc"), si_i, st.lists(sh, min_size=1, max_size=3, unique=True), st.integers(0, 3), st.integers(0, 2)),
    st.tuples(st.just("write"), si_i, sh, st.integers(0, 100), st.integers(1, 100), st.booleans()),
    st.tuples(st.just("write"), si_i, sh, st.integers(0, 100), st.integers(1, 100), st.just(False)),
    st.tuples(st.just("finish"), si_i, sh, st.lists(st.integers(1, 60), min_size=1, max_size=3), st.booleans()),
    st.tuples(st.just("abort"), si_i, sh),
    st.tuples(st.just("read"), si_i, st.lists(rng, min_size=1, max_size=3)),
    st.tuples(st.just("rtw"), si_m, st.integers(0, 1), st.lists(st.tuples(sh, st.lists(st.tuples(st.integers(0, 40), st.integers(1, 6), st.integers(0, 3)).map(list), max_size=2),
                                                                     st.lists(st.tuples(st.integers(0, 60), st.integers(1, 30)).map(list), max_size=2),
                                                                     st.one_of(st.none(), st.integers(0, 50))).map(list), min_size=1, max_size=3), st.lists(rng, max_size=2)),
    st.tuples(st.just("readv"), si_m, st.lists(sh, max_size=3, unique=True), st.lists(rng, min_size=0, max_size=2)),
    st.tuples(st.just("lease"), st.integers(0, 4), st.integers(0, 2)),
).map(list)


@st.composite
def cases(draw):
    ops = []
    # a few complete uploads first, so that reads, leases and re-allocations meet real shares
    for _ in range(draw(st.integers(0, 2))):
        si_n, shnums = draw(si_i), draw(st.lists(sh, min_size=1, max_size=2, unique=True))
        ops.append(["alloc", si_n, shnums, draw(st.integers(0, 3)), draw(st.integers(0, 2))])
        for s_ in shnums:
            ops.append(["finish", si_n, s_, draw(st.lists(st.integers(1, 60), min_size=1, max_size=3)), draw(st.booleans())])
        ops.append(["read", si_n, draw(st.lists(rng, min_size=1, max_size=3))])
    if draw(st.integers(0, 5)) == 0:
        # a share larger than one 64 KiB piece: a small write far in, then one request covering the whole share whose bytes differ from it (refused), then the rest
        si_n, s_ = draw(si_i), draw(sh)
        ops += [["alloc", si_n, [s_], 4, draw(st.integers(0, 2))], ["bigwrite", si_n, s_, 66000 + draw(st.integers(0, 3000)), draw(st.integers(1, 20)), False],
                ["bigwrite", si_n, s_, draw(st.sampled_from([0, 0, 100, 65536])), 70000, True]] + draw(st.lists(op, max_size=3)) + [["finish", si_n, s_, [draw(st.integers(20, 60))], draw(st.booleans())]]
    return {"ops": ops + draw(st.lists(op, min_size=1, max_size=14))}


def run_shard(spec, ctx):
    ctx.drive(cases(), spec["n"], run_case)


def content(si_n, shnum, size):
    return pbytes(si_n * 10 + shnum, size)


def norm(r):
    if r[0] != "ok":
        return (r[0],)
    return ("ok", r[1])


def run_case(case, ctx):
    d = ctx.casedir()
    H = httpmem.HTTPStack(os.path.join(d, "http"))
    D = httpmem.DirectStack(os.path.join(d, "direct"))
    stacks = (("HTTP", H), ("direct", D))
    writers = {}       # (si, sh) -> {"size", "w": {name: writer}, "written": set of byte positions}
    classes = set()
    nt = False
    hist = []
    sis = [store.si(100 + i) for i in range(5)]
    secrets = [(store.secret(i, b"r"), store.secret(i, b"c")) for i in range(3)]
    enablers = [store.secret(50, b"we"), store.secret(51, b"we")]

    def both(label, fn, normalise=norm):
        res = {}
        for name, S in stacks:
            try:
                res[name] = normalise(S.result(fn(name, S)))
            except Exception as e:
                res[name] = ("raised", type(e).__name__)
        hist.append((label, res["direct"][0]))
        if res["HTTP"] != res["direct"]:
            ctx.fail("results-differ", "history=%r: %s: HTTP path gives %r, direct path gives %r" % (hist, label, trim(res["HTTP"]), trim(res["direct"])), op=label.split("(")[0],
                     http=res["HTTP"][0], direct=res["direct"][0])
        return res["direct"]

    def trim(x):
        s = repr(x)
        return s if len(s) < 300 else s[:300] + "..."
    for o in case["ops"]:
        kind = o[0]
        if kind == "alloc":
            _, si_n, shnums, sz, sec = o
            size = SIZES[sz]
            got = {}

            def fn(name, S):
                dd = S.istorage.allocate_buckets(sis[si_n], secrets[sec][0], secrets[sec][1], set(shnums), size, canary=store.Canary())
                dd.addCallback(lambda r: (got.__setitem__(name, r[1]), (set(r[0]), set(r[1].keys())))[1])
                return dd
            r = both("alloc(si%d,%r,size=%d)" % (si_n, shnums, size), fn)
            if r[0] == "ok":
                if r[1][0]:
                    classes.add("realloc-existing")
                for s_ in r[1][1]:
                    writers[(si_n, s_)] = {"size": size, "w": {name: got[name][s_] for name, _ in stacks}, "written": set(), "chunks": 0, "ooo": False, "next": 0}
        elif kind in ("write", "finish", "bigwrite"):
            key = (o[1], o[2])
            w = writers.get(key)
            if not w:
                continue
            size = w["size"]
            data = content(key[0], key[1], size)
            if kind in ("write", "bigwrite"):
                off, ln, conflict = o[3] % size, o[4], o[5]
                if kind == "bigwrite":
                    classes.add("request-larger-than-one-piece" if min(ln, size - off) > 65536 else "write-beyond-first-piece")
                ln = max(1, min(ln, size - off))
                piece = data[off:off + ln]
                if conflict and any(p in w["written"] for p in range(off, off + ln)):
                    piece = bytes(b ^ 0xff for b in piece)
                    classes.add("conflicting-write")
                else:
                    conflict = False
                chunks = [(off, piece)]
            else:
                # write everything that is still missing, in generated chunk sizes, optionally back to front; then close
                missing = [p for p in range(size) if p not in w["written"]]
                chunks = []
                i = 0
                while missing:
                    c = o[3][i % len(o[3])] * (1000 if size > 1000 else 1)
                    i += 1
                    start = missing[0]
                    run = [start]
                    for p in missing[1:]:
                        if p == run[-1] + 1 and len(run) < c:
                            run.append(p)
                        else:
                            break
                    chunks.append((start, data[start:start + len(run)]))
                    missing = missing[len(run):]
                if o[4]:
                    chunks.reverse()
                    if len(chunks) > 1:
                        classes.add("out-of-order-chunks")
                conflict = False
            for (off, piece) in chunks:
                r = both("write(si%d/%d,%d,+%d%s)" % (key[0], key[1], off, len(piece), ",conflicting" if conflict else ""), lambda name, S: w["w"][name].callRemote("write", off, piece),
                         normalise=lambda r: (r[0],))
                if r[0] == "ok" and not conflict:
                    w["written"].update(range(off, off + len(piece)))
                    w["chunks"] += 1
            if w["chunks"] >= 2:
                classes.add("chunked-upload")
                nt = True
            if len(w["written"]) == size and kind == "finish":
                both("close(si%d/%d)" % key, lambda name, S: w["w"][name].callRemote("close"), normalise=lambda r: (r[0],))
                del writers[key]
            elif len(w["written"]) == size:
                # complete: the HTTP side has closed implicitly; close the direct side too
                both("close(si%d/%d)" % key, lambda name, S: w["w"][name].callRemote("close"), normalise=lambda r: (r[0],))
                del writers[key]
        elif kind == "abort":
            key = (o[1], o[2])
            w = writers.pop(key, None)
            if not w:
                continue
            both("abort(si%d/%d)" % key, lambda name, S: w["w"][name].callRemote("abort"), normalise=lambda r: (r[0],))
            classes.add("abort")
        elif kind == "read":
            _, si_n, ranges = o

            def fn(name, S):
                dd = S.istorage.get_buckets(sis[si_n])

                def got_b(b):
                    out = {}
                    from twisted.internet import defer as _d
                    ds = []
                    for s_, rd in sorted(b.items()):
                        for (off, ln) in ranges:
                            d2 = rd.callRemote("read", off, ln)
                            d2.addCallback(lambda v, s_=s_, off=off, ln=ln: out.__setitem__((s_, off, ln), bytes(v)))
                            ds.append(d2)
                    return _d.gatherResults(ds).addCallback(lambda ign: out)
                return dd.addCallback(got_b)
            r = both("read(si%d,%r)" % (si_n, ranges), fn)
            if r[0] == "ok" and r[1] and any(off + ln > 100 or len(v) < ln for (s_, off, ln), v in r[1].items()):
                classes.add("read-past-end")
                nt = True
        elif kind == "rtw":
            _, si_n, we, tws, rv = o
            tw = {}
            for (s_, tests, writes_, newlen) in tws:
                tv = []
                for (off, ln, spec) in tests:
                    cur = D.ss.slot_readv(sis[si_n], [s_], [(off, ln)]).get(s_, [b""])[0]
                    if spec == 0:
                        specimen = pbytes(spec + off, ln)            # arbitrary bytes of the tested size
                    elif spec == 1:
                        specimen = cur                               # what is there now: the test passes
                        classes.add("testv-matching")
                    elif spec == 2:
                        specimen = cur[:max(0, len(cur) - 1)]        # a proper prefix of what is there: size != len(specimen)
                        classes.add("testv-size-ne-specimen")
                    else:
                        off, ln, specimen = 0, 1, b""                # the 'share must not exist yet' idiom
                        classes.add("testv-must-not-exist")
                    tv.append((off, ln, specimen))
                tw[s_] = (tv, [(off, pbytes(off + ln, ln)) for (off, ln) in writes_], newlen)
            r = both("rtw(si%d,we%d,%r)" % (si_n, we, [(s_, len(t), len(w_), nl) for s_, (t, w_, nl) in tw.items()]),
                     lambda name, S: S.istorage.slot_testv_and_readv_and_writev(sis[si_n], (enablers[we], secrets[0][0], secrets[0][1]), tw, [tuple(x) for x in rv]),
                     normalise=lambda r: (r[0],) if r[0] != "ok" else ("ok", (bool(r[1][0]), {k: [bytes(x) for x in v] for k, v in r[1][1].items()})))
            if r[0] == "ok" and not r[1][0]:
                classes.add("failing-testv")
                nt = True
        elif kind == "readv":
            _, si_n, shares, rv = o
            r = both("readv(si%d,%r,%r)" % (si_n, shares, rv), lambda name, S: S.istorage.slot_readv(sis[si_n], list(shares), [tuple(x) for x in rv]),
                     normalise=lambda r: (r[0],) if r[0] != "ok" else ("ok", {k: [bytes(x) for x in v] for k, v in r[1].items()}))
            if not shares:
                classes.add("readv-all")
            elif r[0] == "ok" and set(shares) - set(r[1]):
                classes.add("readv-absent-share")
                nt = True
        elif kind == "lease":
            _, si_n, sec = o
            both("add_lease(si%d,secret%d)" % (si_n, sec), lambda name, S: S.istorage.add_lease(sis[si_n], secrets[sec][0], secrets[sec][1]), normalise=lambda r: (r[0],))
            classes.add("add-lease-immutable" if si_n < 3 else "add-lease-mutable")
    # ---- final state
    from allmydata.storage.common import storage_index_to_dir

    def state(S):
        out = {}
        for i, si_ in enumerate(sis):
            dd = os.path.join(S.ss.sharedir, storage_index_to_dir(si_))
            if not os.path.isdir(dd):
                continue
            for f in sorted(os.listdir(dd)):
                if not f.isdigit():
                    continue
                sf = S.ss.get_share_file(os.path.join(dd, f)) if hasattr(S.ss, "get_share_file") else None
                from allmydata.storage.shares import get_share_file
                sf = get_share_file(os.path.join(dd, f))
                data = sf.read_share_data(0, 10 ** 6) if i < 3 else sf.readv([(0, 10 ** 6)])[0]
                leases = sorted(tuple(l.is_renew_secret(s[0]) for s in secrets) for l in sf.get_leases())
                out[(i, int(f))] = (data, leases)
        return out
    sh_, sd_ = state(H), state(D)
    if sh_ != sd_:
        keys = sorted(set(sh_) ^ set(sd_)) or [k for k in sh_ if sh_[k] != sd_[k]]
        k0 = keys[0]
        what = "only on one side" if k0 not in sh_ or k0 not in sd_ else ("data differs" if sh_[k0][0] != sd_[k0][0] else "leases differ: HTTP %r direct %r" % (sh_[k0][1], sd_[k0][1]))
        ctx.fail("final-state-differs", "history=%r: share si%d/%d: %s" % (hist, k0[0], k0[1], what))
    ctx.note(sig=repr(case), nontrivial=nt, classes=sorted(classes), sample={"history": hist[:14]})
