"""C17 key and secret derivations match the specification (differential vs hashlib reference)."""
import hashlib
from hypothesis import strategies as st
from vf import refhash as RH

ID = "C17"
LEVEL = "exploration"
ENGINE = "E0 pure"
TECHNIQUE = "differential testing: Hypothesis-generated sequences of derivation calls (inputs from a small pool, so values repeat) compared with an independent hashlib/netstring reference; end-to-end chains through cap objects of every SSK/MDMF flavour and through mutable file/directory nodes"
RULE = ("each case is a sequence of 1-25 derivation calls (function drawn from 24 derivations, arguments drawn from a pool of 4 values per type so that "
        "repeated and interleaved inputs occur) plus whole chains: key->SI, writekey->readkey->SI, writekey->write-enabler per server, lease secret->"
        "client->file->bucket renew/cancel, IV+readkey->datakey, dirnode rwcap salt/key, convergence key over chunked data, pubkey fingerprint, "
        "server permutation. Non-trivial = sequence with >=2 calls of the same function sharing an argument; distinct by call list.")
LEVEL_TEXT = "Differential search against a 100-line reference written from the specification (tagged SHA-256d with netstring framing, truncation); call sequences exercise state carried between calls."
ASSUMPTIONS = ["hashlib SHA-256/SHA-1 are correct; the tag strings are the specification's constants"]
REQUIRED_CLASSES = ["repeat-same-key", "chain", "convergence-chunked", "node-chains", "second-file-same-server", "child-writecap"]
BUDGET = {"quick": 600, "thorough": 3600}

FUNCS = ["storage_index_hash", "ssk_readkey_hash", "ssk_storage_index_hash", "ssk_write_enabler_master_hash", "ssk_write_enabler_hash",
         "ssk_readkey_data_hash", "ssk_pubkey_fingerprint_hash", "ssk_writekey_hash", "my_renewal_secret_hash", "my_cancel_secret_hash",
         "file_renewal_secret_hash", "file_cancel_secret_hash", "bucket_renewal_secret_hash", "bucket_cancel_secret_hash",
         "mutable_rwcap_key_hash", "mutable_rwcap_salt_hash", "convergence_hash", "permute_server_hash", "block_hash", "uri_extension_hash",
         "crypttext_segment_hash", "crypttext_hash", "tagged_hash", "tagged_pair_hash"]


def plan(tier):
    n = 600 if tier == "quick" else 3000
    return [{"kind": "hyp", "n": n} for _ in range(12)] + [{"kind": "hyp", "fam": "nodes", "n": n // 3} for _ in range(4)]


def cases():
    call = st.tuples(st.sampled_from(FUNCS), st.integers(0, 3), st.integers(0, 3), st.integers(0, 5))
    return st.fixed_dictionaries({"calls": st.lists(call, min_size=1, max_size=25), "salt": st.integers(0, 10 ** 6),
                                  "chain": st.booleans(), "chunks": st.lists(st.integers(1, 40), max_size=6)})


def run_shard(spec, ctx):
    if spec.get("fam") == "nodes":
        ctx.drive(node_cases(), spec["n"], run_node_case)
    else:
        ctx.drive(cases(), spec["n"], run_case)


def node_cases():
    q = st.tuples(st.sampled_from(["we", "renew", "cancel"]), st.integers(0, 3), st.integers(0, 2))
    return st.fixed_dictionaries({"fam": st.just("nodes"), "salt": st.integers(0, 10 ** 6), "lease": st.integers(0, 3), "kinds": st.lists(st.sampled_from(["SSK", "MDMF", "DIR2", "DIR2-MDMF"]), min_size=2, max_size=4),
                                  "queries": st.lists(q, min_size=2, max_size=16),
                                  "children": st.lists(st.tuples(st.sampled_from(["SSK", "MDMF", "DIR2", "CHK", "LIT"]), st.integers(0, 5)), min_size=1, max_size=5)})


class _Srv:
    def __init__(self, seed):
        self.seed = seed

    def get_lease_seed(self):
        return self.seed

    def get_foolscap_write_enabler_seed(self):
        return self.seed


def run_node_case(case, ctx):
    """The chains as the client objects compute them: several mutable files/directories of one client asking for secrets for several servers in a generated order
    (state carried between calls must not matter), and the encryption of child write caps inside a directory."""
    import struct
    from allmydata.nodemaker import NodeMaker
    from allmydata.client import SecretHolder
    from allmydata.interfaces import SDMF_VERSION
    from allmydata.dirnode import pack_children
    from allmydata.util.netstring import split_netstring
    from allmydata.crypto import aes
    from vf import caps as C
    salt = case["salt"]
    lease = val(salt, b"lease", case["lease"], 32)
    nm = NodeMaker(None, SecretHolder(lease, b"conv"), None, None, None, {"k": 3, "n": 10, "happy": 7, "max_segment_size": 1000}, SDMF_VERSION, None, None)
    files = []
    for i, kind in enumerate(case["kinds"]):
        cap = C.make({"kind": kind, "a": salt % 1000 + i * 7, "b": salt % 1000 + i * 7 + 3, "k": 3, "n": 10, "size": 100, "lit": ""})
        node = nm.create_from_cap(cap.to_string())
        fn = getattr(node, "_node", node)       # the mutable file node behind a directory
        inner = cap._filenode_uri if kind.startswith("DIR2") else cap
        # storage index as the specification derives it (writekey -> readkey -> SI), not as the cap object reports it
        si_ref = RH.ssk_storage_index(RH.ssk_readkey(inner.writekey))
        si_cap = inner.get_storage_index() if hasattr(inner, "get_storage_index") else inner.storage_index
        ctx.check(si_cap == si_ref, "node-secret-differs", "%s cap: storage index %s, the specified chain writekey->readkey->SI gives %s" % (kind, si_cap.hex(), si_ref.hex()), what="si")
        ctx.check(fn.get_storage_index() == si_ref, "node-secret-differs", "%s node: storage index %s, the specified chain gives %s" % (kind, fn.get_storage_index().hex(), si_ref.hex()), what="si")
        ro_ = inner.get_readonly()
        ctx.check(ro_.get_storage_index() == si_ref and ro_.get_verify_cap().get_storage_index() == si_ref and inner.get_verify_cap().get_storage_index() == si_ref, "node-secret-differs",
                  "%s: read cap / verify cap storage indexes differ from the specified one" % kind, what="si")
        files.append((kind, fn, inner.writekey, si_ref))
    servers = [_Srv(val(salt, b"server", j, 20)) for j in range(3)]
    classes = set()
    asked = set()
    for (what, fi, sj) in case["queries"]:
        kind, fn, wk, si_ = files[fi % len(files)]
        srv = servers[sj]
        if what == "we":
            got, exp = fn.get_write_enabler(srv), RH.write_enabler(wk, srv.seed)
        elif what == "renew":
            got, exp = fn.get_renewal_secret(srv), RH.bucket_renewal(RH.file_renewal(RH.client_renewal(lease), si_), srv.seed)
        else:
            got, exp = fn.get_cancel_secret(srv), RH.bucket_cancel(RH.file_cancel(RH.client_cancel(lease), si_), srv.seed)
        if any(a[0] == what and a[2] == sj and a[1] != fi % len(files) for a in asked):
            classes.add("second-file-same-server")
        asked.add((what, fi % len(files), sj))
        ctx.check(got == exp, "node-secret-differs", "%s of %s file #%d for server #%d: node gives %s, the specified chain gives %s (queries so far %r)" % (
            {"we": "write enabler", "renew": "lease renewal secret", "cancel": "lease cancel secret"}[what], kind, fi % len(files), sj, got.hex()[:16], exp.hex()[:16], case["queries"]), what=what)
    # ---- child write caps inside a directory: salt = H(rwcap), key = H(salt, writekey), AES-CTR, HMAC
    wk = files[0][2]
    children, rws = {}, {}
    for ci, (ckind, ca) in enumerate(case["children"]):
        ccap = C.make({"kind": ckind, "a": 300 + ca, "b": 400 + ca, "k": 3, "n": 10, "size": 100 + ca, "lit": (b"lit%d" % ca).hex()})
        cs = ccap.to_string()
        if ckind in C.WRITE_KINDS:
            cnode = nm.create_from_cap(cs, ccap.get_readonly().to_string())
            rws[u"child%d" % ci] = cs
        else:
            cnode = nm.create_from_cap(None, cs)
        children[u"child%d" % ci] = (cnode, {})
    packed = pack_children(children, wk)
    pos = 0
    salts = {}
    while pos < len(packed):
        (entry,), pos = split_netstring(packed, 1, pos)
        (name, ro, rwcapdata, md), _ = split_netstring(entry, 4)
        name = name.decode("utf-8")
        rw = rws.get(name, b"")
        ivx, ct, mac = rwcapdata[:16], rwcapdata[16:-32], rwcapdata[-32:]
        exp_salt = RH.dirnode_rwcap_salt(rw)
        ctx.check(ivx == exp_salt, "rwcap-salt-differs", "directory entry %r: stored salt %s, the specification gives H(rwcap) = %s" % (name, ivx.hex(), exp_salt.hex()))
        key = RH.dirnode_rwcap_key(exp_salt, wk)
        plain = aes.decrypt_data(aes.create_decryptor(key), ct)
        ctx.check(plain == rw, "rwcap-not-decryptable-by-spec", "directory entry %r: decrypting the write-cap slot with the specified key gives %r, expected %r" % (name, plain[:40], rw[:40]))
        if rw:
            ctx.check(ivx not in salts or salts[ivx] == rw, "rwcap-salt-reused", "directory entries %r share one salt (and so one key stream) for different write caps" % (name,))
            salts[ivx] = rw
            classes.add("child-writecap")
    ctx.note(sig=repr(case), nontrivial="second-file-same-server" in classes, classes=["node-chains"] + sorted(classes), sample={"kinds": case["kinds"], "queries": case["queries"][:6]})


def val(salt, typ, i, size):
    return hashlib.sha256(b"%d-%s-%d" % (salt, typ, i)).digest()[:size] if size <= 32 else (hashlib.sha256(b"%d-%s-%d" % (salt, typ, i)).digest() * 8)[:size]


def run_case(case, ctx):
    from allmydata.util import hashutil as H
    salt = case["salt"]
    k16 = lambda i: val(salt, b"k16", i, 16)
    k32 = lambda i: val(salt, b"k32", i, 32)
    nid = lambda i: val(salt, b"nid", i, 20)
    blob = lambda i: val(salt, b"blob", i, [0, 1, 31, 32, 33, 200][i % 6])
    seen = set()
    repeat = False
    for ci, (f, a, b, c) in enumerate(case["calls"]):
        if (f, a) in seen:
            repeat = True
        seen.add((f, a))
        if f == "storage_index_hash":
            got, exp, args = H.storage_index_hash(k16(a)), RH.chk_storage_index(k16(a)), (a,)
        elif f == "ssk_readkey_hash":
            got, exp = H.ssk_readkey_hash(k16(a)), RH.ssk_readkey(k16(a))
        elif f == "ssk_storage_index_hash":
            got, exp = H.ssk_storage_index_hash(k16(a)), RH.ssk_storage_index(k16(a))
        elif f == "ssk_write_enabler_master_hash":
            got, exp = H.ssk_write_enabler_master_hash(k16(a)), RH.write_enabler_master(k16(a))
        elif f == "ssk_write_enabler_hash":
            got, exp = H.ssk_write_enabler_hash(k16(a), nid(b)), RH.write_enabler(k16(a), nid(b))
        elif f == "ssk_readkey_data_hash":
            got, exp = H.ssk_readkey_data_hash(k16(b), k16(a)), RH.ssk_datakey(k16(b), k16(a))
        elif f == "ssk_pubkey_fingerprint_hash":
            got, exp = H.ssk_pubkey_fingerprint_hash(blob(c)), RH.ssk_fingerprint(blob(c))
        elif f == "ssk_writekey_hash":
            got, exp = H.ssk_writekey_hash(blob(c)), RH.ssk_writekey(blob(c))
        elif f == "my_renewal_secret_hash":
            got, exp = H.my_renewal_secret_hash(k32(a)), RH.client_renewal(k32(a))
        elif f == "my_cancel_secret_hash":
            got, exp = H.my_cancel_secret_hash(k32(a)), RH.client_cancel(k32(a))
        elif f == "file_renewal_secret_hash":
            got, exp = H.file_renewal_secret_hash(k32(a), k16(b)), RH.file_renewal(k32(a), k16(b))
        elif f == "file_cancel_secret_hash":
            got, exp = H.file_cancel_secret_hash(k32(a), k16(b)), RH.file_cancel(k32(a), k16(b))
        elif f == "bucket_renewal_secret_hash":
            got, exp = H.bucket_renewal_secret_hash(k32(a), nid(b)), RH.bucket_renewal(k32(a), nid(b))
        elif f == "bucket_cancel_secret_hash":
            got, exp = H.bucket_cancel_secret_hash(k32(a), nid(b)), RH.bucket_cancel(k32(a), nid(b))
        elif f == "mutable_rwcap_key_hash":
            got, exp = H.mutable_rwcap_key_hash(k16(b), k16(a)), RH.dirnode_rwcap_key(k16(b), k16(a))
        elif f == "mutable_rwcap_salt_hash":
            got, exp = H.mutable_rwcap_salt_hash(blob(c)), RH.dirnode_rwcap_salt(blob(c))
        elif f == "convergence_hash":
            k, n, seg = 1 + a, 1 + a + b, [1, 3, 1000, 131072, 7, 2 ** 20][c]
            got, exp = H.convergence_hash(k, n, seg, blob(c), k32(b)), RH.convergence_key(k, n, seg, blob(c), k32(b))
        elif f == "permute_server_hash":
            got, exp = H.permute_server_hash(k16(a), nid(b)), RH.permute(k16(a), nid(b))
        elif f == "block_hash":
            got, exp = H.block_hash(blob(c)), RH.block_hash(blob(c))
        elif f == "uri_extension_hash":
            got, exp = H.uri_extension_hash(blob(c)), RH.ueb_hash(blob(c))
        elif f == "crypttext_segment_hash":
            got, exp = H.crypttext_segment_hash(blob(c)), RH.crypttext_segment_hash(blob(c))
        elif f == "crypttext_hash":
            got, exp = H.crypttext_hash(blob(c)), RH.crypttext_hash(blob(c))
        elif f == "tagged_hash":
            tr = [None, 16, 1, 32][a]
            got, exp = H.tagged_hash(blob(b), blob(c), tr), RH.tagged(blob(b), blob(c), tr)
        else:
            tr = [None, 16, 1, 32][a]
            got, exp = H.tagged_pair_hash(b"tag%d" % b, blob(c), blob(b), tr), RH.tagged_pair(b"tag%d" % b, blob(c), blob(b), tr)
        ctx.check(got == exp, "derivation-mismatch", "call #%d %s(args idx %d,%d,%d) = %s, specification gives %s (earlier calls: %r)" % (
            ci, f, a, b, c, got.hex(), exp.hex(), [x[0] for x in case["calls"][:ci]][-6:]), func=f)
    classes = ["repeat-same-key"] if repeat else []
    if case["chain"]:
        classes.append("chain")
        # whole chains, as upload/publish use them
        from allmydata.client import SecretHolder
        from allmydata import uri
        wk = k16(0)
        rk = RH.ssk_readkey(wk)
        si = RH.ssk_storage_index(rk)
        u = uri.WriteableSSKFileURI(wk, k32(1))
        ctx.check(u.readkey == rk and u.storage_index == si, "chain-mismatch", "SSK cap: readkey/SI differ from reference")
        for cls_w, cls_r in ((uri.WriteableSSKFileURI, uri.ReadonlySSKFileURI), (uri.WriteableMDMFFileURI, uri.ReadonlyMDMFFileURI)):
            w_ = cls_w(wk, k32(1))
            r_ = cls_r(rk, k32(1))
            for what_, c_ in (("write cap", w_), ("read cap", r_), ("read cap derived from the write cap", w_.get_readonly()), ("verify cap", w_.get_verify_cap()), ("verify cap of the read cap", r_.get_verify_cap())):
                ctx.check(c_.get_storage_index() == si, "chain-mismatch", "%s %s: storage index differs from H(readkey)" % (cls_w.__name__, what_))
            ctx.check(w_.readkey == rk and w_.get_readonly().readkey == rk, "chain-mismatch", "%s: readkey differs from H(writekey)" % cls_w.__name__)
        ctx.check(uri.CHKFileURI(wk, k32(1), 3, 10, 99).get_storage_index() == RH.chk_storage_index(wk), "chain-mismatch", "CHK SI")
        sh = SecretHolder(k32(2), b"conv")
        for server in range(4):
            peer = nid(server)
            fr = H.file_renewal_secret_hash(sh.get_renewal_secret(), si)
            fc = H.file_cancel_secret_hash(sh.get_cancel_secret(), si)
            ctx.check(H.bucket_renewal_secret_hash(fr, peer) == RH.bucket_renewal(RH.file_renewal(RH.client_renewal(k32(2)), si), peer),
                      "chain-mismatch", "lease renew secret chain for server %d" % server)
            ctx.check(H.bucket_cancel_secret_hash(fc, peer) == RH.bucket_cancel(RH.file_cancel(RH.client_cancel(k32(2)), si), peer),
                      "chain-mismatch", "lease cancel secret chain for server %d" % server)
            ctx.check(H.ssk_write_enabler_hash(wk, peer) == RH.write_enabler(wk, peer), "chain-mismatch",
                      "write enabler for server #%d of the same file differs from the specification" % server, func="ssk_write_enabler_hash")
    if case["chunks"]:
        classes.append("convergence-chunked")
        data = b"".join(val(salt, b"chunk", i, n) for i, n in enumerate(case["chunks"]))
        h = H.convergence_hasher(3, 10, 131072, k32(0))
        for i, n in enumerate(case["chunks"]):
            h.update(val(salt, b"chunk", i, n))
        ctx.check(h.digest() == RH.convergence_key(3, 10, 131072, data, k32(0)), "derivation-mismatch", "incremental convergence hasher differs from one-shot reference")
    ctx.note(sig=repr(case), nontrivial=repeat or case["chain"], classes=classes, sample={"calls": case["calls"][:10], "chain": case["chain"]})
