"""C17 key and secret derivations match the specification (differential vs hashlib reference)."""
import hashlib
from hypothesis import strategies as st
from vf import refhash as RH

ID = "C17"
LEVEL = "exploration"
ENGINE = "E0 pure"
TECHNIQUE = "differential testing: Hypothesis-generated sequences of derivation calls (inputs from a small pool, so values repeat) compared with an independent hashlib/netstring reference; end-to-end chains"
RULE = ("each case is a sequence of 1-25 derivation calls (function drawn from 24 derivations, arguments drawn from a pool of 4 values per type so that "
        "repeated and interleaved inputs occur) plus whole chains: key->SI, writekey->readkey->SI, writekey->write-enabler per server, lease secret->"
        "client->file->bucket renew/cancel, IV+readkey->datakey, dirnode rwcap salt/key, convergence key over chunked data, pubkey fingerprint, "
        "server permutation. Non-trivial = sequence with >=2 calls of the same function sharing an argument; distinct by call list.")
LEVEL_TEXT = "Differential search against a 100-line reference written from the specification (tagged SHA-256d with netstring framing, truncation); call sequences exercise state carried between calls."
ASSUMPTIONS = ["hashlib SHA-256/SHA-1 are correct; the tag strings are the specification's constants"]
REQUIRED_CLASSES = ["repeat-same-key", "chain", "convergence-chunked"]
BUDGET = {"quick": 600, "thorough": 3600}

FUNCS = ["storage_index_hash", "ssk_readkey_hash", "ssk_storage_index_hash", "ssk_write_enabler_master_hash", "ssk_write_enabler_hash",
         "ssk_readkey_data_hash", "ssk_pubkey_fingerprint_hash", "ssk_writekey_hash", "my_renewal_secret_hash", "my_cancel_secret_hash",
         "file_renewal_secret_hash", "file_cancel_secret_hash", "bucket_renewal_secret_hash", "bucket_cancel_secret_hash",
         "mutable_rwcap_key_hash", "mutable_rwcap_salt_hash", "convergence_hash", "permute_server_hash", "block_hash", "uri_extension_hash",
         "crypttext_segment_hash", "crypttext_hash", "tagged_hash", "tagged_pair_hash"]


def plan(tier):
    n = 600 if tier == "quick" else 3000
    return [{"kind": "hyp", "n": n} for _ in range(16)]


def cases():
    call = st.tuples(st.sampled_from(FUNCS), st.integers(0, 3), st.integers(0, 3), st.integers(0, 5))
    return st.fixed_dictionaries({"calls": st.lists(call, min_size=1, max_size=25), "salt": st.integers(0, 10 ** 6),
                                  "chain": st.booleans(), "chunks": st.lists(st.integers(1, 40), max_size=6)})


def run_shard(spec, ctx):
    ctx.drive(cases(), spec["n"], run_case)


def val(salt, typ, i, size):
    return hashlib.sha256(b"%d-%s-%d" % (salt, typ, i)).digest()[:size] if size <= 32 else (hashlib.sha256(b"%d-%s-%d" % (salt, typ, i)).digest() * 8)[:size]


def run_case(case, ctx):
    from allmydata.util import hashutil as H
    salt = case["salt"]
    k16 = lambda i: val(salt, b"k16", i, 16)
    k32 = lambda i: val(salt, b"k32", i, 32)
    nid = lambda i: val(salt, b"nid", i, 20)
    blob = lambda i: val(salt, b"blob", i, [0, 1, 31, 32, 33, 200][i % 6])
    seen = set()
    repeat = False
    for ci, (f, a, b, c) in enumerate(case["calls"]):
        if (f, a) in seen:
            repeat = True
        seen.add((f, a))
        if f == "storage_index_hash":
            got, exp, args = H.storage_index_hash(k16(a)), RH.chk_storage_index(k16(a)), (a,)
        elif f == "ssk_readkey_hash":
            got, exp = H.ssk_readkey_hash(k16(a)), RH.ssk_readkey(k16(a))
        elif f == "ssk_storage_index_hash":
            got, exp = H.ssk_storage_index_hash(k16(a)), RH.ssk_storage_index(k16(a))
        elif f == "ssk_write_enabler_master_hash":
            got, exp = H.ssk_write_enabler_master_hash(k16(a)), RH.write_enabler_master(k16(a))
        elif f == "ssk_write_enabler_hash":
            got, exp = H.ssk_write_enabler_hash(k16(a), nid(b)), RH.write_enabler(k16(a), nid(b))
        elif f == "ssk_readkey_data_hash":
            got, exp = H.ssk_readkey_data_hash(k16(b), k16(a)), RH.ssk_datakey(k16(b), k16(a))
        elif f == "ssk_pubkey_fingerprint_hash":
            got, exp = H.ssk_pubkey_fingerprint_hash(blob(c)), RH.ssk_fingerprint(blob(c))
        elif f == "ssk_writekey_hash":
            got, exp = H.ssk_writekey_hash(blob(c)), RH.ssk_writekey(blob(c))
        elif f == "my_renewal_secret_hash":
            got, exp = H.my_renewal_secret_hash(k32(a)), RH.client_renewal(k32(a))
        elif f == "my_cancel_secret_hash":
            got, exp = H.my_cancel_secret_hash(k32(a)), RH.client_cancel(k32(a))
        elif f == "file_renewal_secret_hash":
            got, exp = H.file_renewal_secret_hash(k32(a), k16(b)), RH.file_renewal(k32(a), k16(b))
        elif f == "file_cancel_secret_hash":
            got, exp = H.file_cancel_secret_hash(k32(a), k16(b)), RH.file_cancel(k32(a), k16(b))
        elif f == "bucket_renewal_secret_hash":
            got, exp = H.bucket_renewal_secret_hash(k32(a), nid(b)), RH.bucket_renewal(k32(a), nid(b))
        elif f == "bucket_cancel_secret_hash":
            got, exp = H.bucket_cancel_secret_hash(k32(a), nid(b)), RH.bucket_cancel(k32(a), nid(b))
        elif f == "mutable_rwcap_key_hash":
            got, exp = H.mutable_rwcap_key_hash(k16(b), k16(a)), RH.dirnode_rwcap_key(k16(b), k16(a))
        elif f == "mutable_rwcap_salt_hash":
            got, exp = H.mutable_rwcap_salt_hash(blob(c)), RH.dirnode_rwcap_salt(blob(c))
        elif f == "convergence_hash":
            k, n, seg = 1 + a, 1 + a + b, [1, 3, 1000, 131072, 7, 2 ** 20][c]
            got, exp = H.convergence_hash(k, n, seg, blob(c), k32(b)), RH.convergence_key(k, n, seg, blob(c), k32(b))
        elif f == "permute_server_hash":
            got, exp = H.permute_server_hash(k16(a), nid(b)), RH.permute(k16(a), nid(b))
        elif f == "block_hash":
            got, exp = H.block_hash(blob(c)), RH.block_hash(blob(c))
        elif f == "uri_extension_hash":
            got, exp = H.uri_extension_hash(blob(c)), RH.ueb_hash(blob(c))
        elif f == "crypttext_segment_hash":
            got, exp = H.crypttext_segment_hash(blob(c)), RH.crypttext_segment_hash(blob(c))
        elif f == "crypttext_hash":
            got, exp = H.crypttext_hash(blob(c)), RH.crypttext_hash(blob(c))
        elif f == "tagged_hash":
            tr = [None, 16, 1, 32][a]
            got, exp = H.tagged_hash(blob(b), blob(c), tr), RH.tagged(blob(b), blob(c), tr)
        else:
            tr = [None, 16, 1, 32][a]
            got, exp = H.tagged_pair_hash(b"tag%d" % b, blob(c), blob(b), tr), RH.tagged_pair(b"tag%d" % b, blob(c), blob(b), tr)
        ctx.check(got == exp, "derivation-mismatch", "call #%d %s(args idx %d,%d,%d) = %s, specification gives %s (earlier calls: %r)" % (
            ci, f, a, b, c, got.hex(), exp.hex(), [x[0] for x in case["calls"][:ci]][-6:]), func=f)
    classes = ["repeat-same-key"] if repeat else []
    if case["chain"]:
        classes.append("chain")
        # whole chains, as upload/publish use them
        from allmydata.client import SecretHolder
        from allmydata import uri
        wk = k16(0)
        rk = RH.ssk_readkey(wk)
        si = RH.ssk_storage_index(rk)
        u = uri.WriteableSSKFileURI(wk, k32(1))
        ctx.check(u.readkey == rk and u.storage_index == si, "chain-mismatch", "SSK cap: readkey/SI differ from reference")
        ctx.check(uri.CHKFileURI(wk, k32(1), 3, 10, 99).get_storage_index() == RH.chk_storage_index(wk), "chain-mismatch", "CHK SI")
        sh = SecretHolder(k32(2), b"conv")
        for server in range(4):
            peer = nid(server)
            fr = H.file_renewal_secret_hash(sh.get_renewal_secret(), si)
            fc = H.file_cancel_secret_hash(sh.get_cancel_secret(), si)
            ctx.check(H.bucket_renewal_secret_hash(fr, peer) == RH.bucket_renewal(RH.file_renewal(RH.client_renewal(k32(2)), si), peer),
                      "chain-mismatch", "lease renew secret chain for server %d" % server)
            ctx.check(H.bucket_cancel_secret_hash(fc, peer) == RH.bucket_cancel(RH.file_cancel(RH.client_cancel(k32(2)), si), peer),
                      "chain-mismatch", "lease cancel secret chain for server %d" % server)
            ctx.check(H.ssk_write_enabler_hash(wk, peer) == RH.write_enabler(wk, peer), "chain-mismatch",
                      "write enabler for server #%d of the same file differs from the specification" % server, func="ssk_write_enabler_hash")
    if case["chunks"]:
        classes.append("convergence-chunked")
        data = b"".join(val(salt, b"chunk", i, n) for i, n in enumerate(case["chunks"]))
        h = H.convergence_hasher(3, 10, 131072, k32(0))
        for i, n in enumerate(case["chunks"]):
            h.update(val(salt, b"chunk", i, n))
        ctx.check(h.digest() == RH.convergence_key(3, 10, 131072, data, k32(0)), "derivation-mismatch", "incremental convergence hasher differs from one-shot reference")
    ctx.note(sig=repr(case), nontrivial=repeat or case["chain"], classes=classes, sample={"calls": case["calls"][:10], "chain": case["chain"]})
