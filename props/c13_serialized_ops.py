"""C13 one client serializes operations on a mutable node (files and directories)."""
from hypothesis import strategies as st
from twisted.internet import defer
from vf import boot, mutfile
from vf.core import pbytes
from vf.grid import Grid

ID = "C13"
LEVEL = "exploration"
ENGINE = "E2 detgrid"
TECHNIQUE = ("Hypothesis-generated request plans (up to five operations on one capability, requested back-to-back, from the completion callback of an earlier operation, or at "
             "a drawn scheduler step; operations that fail on purpose) x delivery schedules; oracle = sequential execution of the requests in request order on a model, plus a "
             "non-overlap invariant observed through the callbacks the operations invoke (modifier, uploadable read) and their completion")
RULE = ("each case: one client, one mutable file (SDMF/MDMF) or directory; the capability string is resolved anew through create_from_cap for every operation (alone or accompanied by its read cap, as when reached through a directory entry); 2-5 operations "
        "from {overwrite, modify-append, modify-that-raises, modify-identity, download_best_version} or {set_node, set_node(overwrite=False), delete, set_children, list}, "
        "each requested at start, inside the completion callback of an earlier operation, or at scheduler step t; one drawn schedule. Oracle: every operation's result equals "
        "what sequential execution in request order gives on the model (reads see exactly the earlier writes, expected NoSuchChild/ExistingChild/modifier errors and nothing "
        "else, in particular no UncoordinatedWriteError); final contents equal the model; no operation's own callbacks run before every earlier-requested operation has "
        "completed; a failed operation is followed by working ones. Non-trivial = >=2 writes in flight at once, or an operation requested from the callback of a failed one "
        "while another is still queued; distinct by whole case.")
LEVEL_TEXT = "Random request plans and schedules against a sequential model, with a mechanism-independent non-overlap observation."
ASSUMPTIONS = ["honest servers; the only failures are operations that fail by themselves (raising modifier, missing/existing child)",
               "an operation counts as finished when the Deferred returned to the caller fires"]
REQUIRED_CLASSES = ["via-object-returned-by-create", "resolved-with-readcap", "file", "dir", "requested-from-failed-callback", "queued-behind-failure", "writes-in-flight>=2", "read-between-writes", "op-failed-as-expected"]
BUDGET = {"quick": 900, "thorough": 7200}


def plan(tier):
    n = 120 if tier == "quick" else 2500
    return [{"kind": "hyp", "n": n} for _ in range(16)]


@st.composite
def cases(draw):
    mode = draw(st.sampled_from(["file", "file", "dir"]))
    nops = draw(st.integers(2, 5))
    ops = []
    for i in range(nops):
        if mode == "file":
            kind = draw(st.sampled_from(["overwrite", "append", "append", "raise", "identity", "read"]))
            arg = draw(st.integers(0, 30))
        else:
            kind = draw(st.sampled_from(["set", "set", "set-noover", "delete", "delete", "set_children", "list"]))
            arg = draw(st.integers(0, 3))
        at = draw(st.sampled_from([["start"], ["start"], ["start"], ["after", draw(st.integers(0, max(0, i - 1)))], ["step", draw(st.integers(0, 25))]])) if i else ["start"]
        ops.append({"kind": kind, "arg": arg, "at": at, "via": draw(st.sampled_from(["w", "w", "w+r", "created"]))})
    return {"hsalt": draw(st.integers(0, 15)), "threads": draw(st.sampled_from(["sync", "async", "held"])), "mode": mode, "fmt": draw(st.sampled_from(["sdmf", "mdmf"])), "k": draw(st.integers(1, 2)), "n": draw(st.integers(2, 4)), "ops": ops,
            "sched": draw(st.lists(st.integers(0, 9), max_size=draw(st.sampled_from([0, 30, 200]))))}


def run_shard(spec, ctx):
    ctx.drive(cases(), spec["n"], run_case)


class ModifierBoom(Exception):
    pass


def run_case(case, ctx):
    from vf import boot as _boot
    _boot.set_thread_mode(case.get("threads") or "sync")      # defer_to_thread answered in a later reactor turn (as in production) or synchronously
    from allmydata.interfaces import NoSuchChildError, ExistingChildError
    from allmydata.mutable.publish import MutableData
    from allmydata.uri import LiteralFileURI
    k, n, mode = case["k"], case["n"], case["mode"]
    mutfile.set_segsize(16)
    g = Grid(ctx.casedir(), n, {"k": k, "n": n, "happy": 1, "max_segment_size": 131072})
    c = g.c0
    classes = {mode}
    ops = case["ops"]
    try:
        if mode == "file":
            r = mutfile.create(g, c, case["fmt"], b"init")
        else:
            r = g.run(c.nodemaker.create_new_mutable_directory(version=mutfile.version_const(case["fmt"])))
        if r[0] != "ok":
            ctx.fail("create-failed", "create failed %r" % (r,))
            return
        cap = r[1].get_uri()
        rocap = r[1].get_readonly_uri()
        created = r[1] if any(op.get("via") == "created" for op in ops) else None
        r = None
        g.sched.choices, g.sched.ci = list(case["sched"]), 0
        order = []                  # request order (indices)
        results = {}                # i -> ("ok", v) | ("err", exc)
        events = []                 # ("req", i) ("work", i) ("done", i)
        waiting = {}                # i -> list of ops to request when i completes

        def lit(x):
            return LiteralFileURI(b"child-%d" % x).to_string()

        def request(i):
            op = ops[i]
            order.append(i)
            events.append(("req", i))
            # a fresh resolution of the same capability string: alone, or together with its read cap (as a directory entry carries it)
            if op.get("via") == "created":
                # the object the creating call returned, still held by its caller (as the web mkdir path and SFTP do), next to fresh resolutions of its cap
                node = created
                classes.add("via-object-returned-by-create")
            else:
                node = c.nodemaker.create_from_cap(cap) if op.get("via", "w") == "w" else c.nodemaker.create_from_cap(cap, rocap)
            if op.get("via") == "w+r":
                classes.add("resolved-with-readcap")
            kind, arg = op["kind"], op["arg"]
            try:
                if kind == "overwrite":
                    class Tracked(MutableData):
                        def read(self, length, i=i):
                            events.append(("work", i))
                            return MutableData.read(self, length)
                    d = node.overwrite(Tracked(b"OVER-%d-" % i + pbytes(arg, arg)))
                elif kind in ("append", "raise", "identity"):
                    def modifier(old, servermap, first_time, i=i, kind=kind, arg=arg):
                        events.append(("work", i))
                        if kind == "raise":
                            raise ModifierBoom("op %d" % i)
                        if kind == "identity":
                            return None
                        return old + b"+%d:" % i + pbytes(arg, arg % 7)
                    d = node.modify(modifier)
                elif kind == "read":
                    d = node.download_best_version()
                elif kind == "set":
                    d = node.set_uri(u"name%d" % arg, None, lit(100 + i))
                elif kind == "set-noover":
                    d = node.set_uri(u"name%d" % arg, None, lit(100 + i), overwrite=False)
                elif kind == "delete":
                    d = node.delete(u"name%d" % arg)
                elif kind == "set_children":
                    d = node.set_children({u"name%d" % arg: (None, lit(200 + i)), u"extra%d" % i: (None, lit(300 + i))})
                elif kind == "list":
                    d = node.list()
                    d.addCallback(lambda ch: {name: v[0].get_readonly_uri() for name, v in ch.items()})
            except Exception as e:
                d = defer.fail(e)

            def done(res, i=i):
                from twisted.python.failure import Failure
                events.append(("done", i))
                results[i] = ("err", res.value) if isinstance(res, Failure) else ("ok", res)
                for j in waiting.pop(i, []):
                    request(j)
            d.addBoth(done)
        steps = {}
        for i, op in enumerate(ops):
            if op["at"][0] == "after":
                waiting.setdefault(op["at"][1], []).append(i)
            elif op["at"][0] == "step":
                steps.setdefault(op["at"][1], []).append(i)
        for i, op in enumerate(ops):
            if op["at"][0] == "start":
                request(i)
        t = 0
        for _ in range(40000):
            boot.drain()
            for i in steps.pop(t, []):
                request(i)
            boot.drain()
            t += 1
            if len(results) == len(ops) and not steps:
                break
            if not g.sched.step():
                if steps:
                    for i in steps.pop(min(steps), []):
                        request(i)
                    continue
                break
        boot.drain()
        desc = "mode=%s fmt=%s k=%d N=%d ops=%r schedule=%r request-order=%r" % (mode, case["fmt"], k, n, [(o["kind"], o["arg"], o["at"]) for o in ops], case["sched"][:20], order)
        for i in range(len(ops)):
            if i not in results:
                ctx.fail("hang", "%s: operation %d (%s) never completed" % (desc, i, ops[i]["kind"]))
        # ---- sequential model in request order
        model = bytearray(b"init") if mode == "file" else {}
        writes_seen = 0
        for i in order:
            op, (st_, val) = ops[i], results[i]
            kind, arg = op["kind"], op["arg"]
            exp_err = None
            exp_val = None
            if kind == "overwrite":
                model[:] = b"OVER-%d-" % i + pbytes(arg, arg)
            elif kind == "append":
                model += b"+%d:" % i + pbytes(arg, arg % 7)
            elif kind == "raise":
                exp_err = ModifierBoom
            elif kind == "read":
                exp_val = bytes(model)
                if 0 < writes_seen:
                    classes.add("read-between-writes")
            elif kind == "set":
                model[u"name%d" % arg] = lit(100 + i)
            elif kind == "set-noover":
                if u"name%d" % arg in model:
                    exp_err = ExistingChildError
                else:
                    model[u"name%d" % arg] = lit(100 + i)
            elif kind == "delete":
                if u"name%d" % arg in model:
                    del model[u"name%d" % arg]
                else:
                    exp_err = NoSuchChildError
            elif kind == "set_children":
                model[u"name%d" % arg] = lit(200 + i)
                model[u"extra%d" % i] = lit(300 + i)
            elif kind == "list":
                exp_val = dict(model)
            if kind in ("overwrite", "append", "set", "set-noover", "delete", "set_children"):
                writes_seen += 1
            if exp_err is not None:
                classes.add("op-failed-as-expected")
                ctx.check(st_ == "err" and isinstance(val, exp_err), "wrong-result", "%s: operation %d (%s) should fail with %s when the requests run in order, got %s %r" % (
                    desc, i, kind, exp_err.__name__, st_, val if st_ == "err" else "success"), op=kind)
            else:
                if st_ != "ok":
                    ctx.fail("op-failed", "%s: operation %d (%s) failed with %s: %s" % (desc, i, kind, type(val).__name__, str(val)[:200]), op=kind, exc=type(val).__name__)
                elif exp_val is not None:
                    ctx.check(val == exp_val, "stale-read", "%s: operation %d (%s) returned %r; executing the requests in order gives %r" % (desc, i, kind, val if mode == "dir" else bytes(val)[:60], exp_val if mode == "dir" else exp_val[:60]), op=kind)
        # ---- final state
        node = g.add_client().nodemaker.create_from_cap(cap)
        if mode == "file":
            rr = g.run(node.download_best_version())
            ctx.check(rr == ("ok", bytes(model)), "lost-update", "%s: final contents %r, sequential execution gives %r" % (desc, rr[1][:80] if rr[0] == "ok" else rr, bytes(model)[:80]))
        else:
            rr = g.run(node.list())
            got = {name: v[0].get_readonly_uri() for name, v in rr[1].items()} if rr[0] == "ok" else rr
            ctx.check(got == model, "lost-update", "%s: final directory %r, sequential execution gives %r" % (desc, got, model))
        # ---- non-overlap: no callback of operation j runs before every operation requested earlier has completed
        done_at = {}
        for pos, (ev, i) in enumerate(events):
            if ev == "done":
                done_at[i] = pos
        req_pos = {i: p for p, i in enumerate(order)}
        for pos, (ev, j) in enumerate(events):
            if ev == "work":
                for i in order[:req_pos[j]]:
                    if done_at.get(i, 10 ** 9) > pos:
                        ctx.fail("overlap", "%s: operation %d (%s) was already running (its modifier/uploadable was invoked) before operation %d (%s), requested earlier, had finished; events=%r" % (
                            desc, j, ops[j]["kind"], i, ops[i]["kind"], events), first=ops[i]["kind"], second=ops[j]["kind"])
        # classes
        inflight = 0
        maxinflight = 0
        for (ev, i) in events:
            if ops[i]["kind"] in ("overwrite", "append", "set", "set-noover", "delete", "set_children", "raise", "identity"):
                if ev == "req":
                    inflight += 1
                    maxinflight = max(maxinflight, inflight)
                elif ev == "done":
                    inflight -= 1
        if maxinflight >= 2:
            classes.add("writes-in-flight>=2")
        special = False
        for j, op in enumerate(ops):
            if op["at"][0] == "after" and results.get(op["at"][1], ("ok",))[0] == "err":
                classes.add("requested-from-failed-callback")
                # was something else still queued at that moment?
                pos_req = events.index(("req", j))
                if any(events.index(("req", x)) < pos_req and done_at.get(x, -1) > pos_req for x in range(len(ops)) if x != j):
                    classes.add("queued-behind-failure")
                    special = True
    finally:
        g.stop()
        mutfile.restore_segsize()
    ctx.note(sig=repr(sorted(case.items())), nontrivial=maxinflight >= 2 or special, classes=sorted(classes),
             sample={"mode": mode, "fmt": case["fmt"], "ops": [(o["kind"], o["arg"], o["at"]) for o in ops], "order": order, "results": {i: r[0] for i, r in results.items()}})
