"""C38 on-disk / wire encodings round-trip; malformed encodings are rejected or
read canonically (differential against strict reference decoders)."""
import re, struct, os, hashlib
from hypothesis import strategies as st
from vf.core import Violation

ID = "C38"
LEVEL = "exploration"
ENGINE = "E0 pure"
TECHNIQUE = "Hypothesis round-trip properties + mutation of valid encodings with a differential oracle (strict reference decoders written from the format descriptions)"
RULE = ("families: base32, base62 (+_l variants), netstring/split_netstring, UEB pack/unpack_extension, LeaseInfo immutable/mutable records through "
        "the v1/v2 lease serializers, immutable and mutable container headers through ShareFile/MutableShareFile. Each case is either a round trip "
        "of generated values (edge values: 0, 2^31-1, 2^31, 2^32-1, empty, 1-byte, ...) or a mutation (byte edit, truncation, extension, length-prefix "
        "edit) of a valid encoding. Non-trivial = mutated encodings and round trips with an edge value; distinct by (family, input)."
        ' The container family also creates mutable containers with write enablers of 0/3/31/33/40 bytes: refused, or recognised afterwards with no padded/truncated variant accepted.')
LEVEL_TEXT = ("Round trip exactness for every codec named by the property, plus mutation testing: a mutated encoding must be rejected (any exception) or decode "
              "to exactly what a strict reference decoder reads. Lenient numeral spellings accepted by int() are counted separately and only required to "
              "decode to the value of the same digits.")
ASSUMPTIONS = ["lenient length numerals accepted by Python int() ('+5', ' 5', '0005') are tolerated when they decode to the same number (counted as class lenient-numeral)",
               "base62 b2a_l/a2b_l with a bit length that is not the full byte length are only exercised, not asserted (the module documents them as caller-agreed)"]
REQUIRED_CLASSES = ["container-mut-odd-enabler-length", "base32-rt", "base32-mut-rejected", "base62-rt", "base62-mut-rejected", "netstring-rt", "netstring-mut-rejected", "ueb-rt", "ueb-mut-rejected",
                    "lease-rt-edge", "lease-v2-hashed", "container-imm-rt", "container-mut-rt", "container-bad-version-rejected"]
BUDGET = {"quick": 600, "thorough": 3600}

FAMS = ["base32", "base32mut", "base62", "base62mut", "netstring", "netstringmut", "ueb", "uebmut", "lease", "container"]
EDGE32 = [0, 1, 2 ** 31 - 1, 2 ** 31, 2 ** 31 + 1, 2 ** 32 - 2, 2 ** 32 - 1]


def plan(tier):
    n = 450 if tier == "quick" else 2500
    return [{"kind": "hyp", "fam": f, "n": n if f != "container" else max(40, n // 5)} for f in FAMS for _ in range(2)]


def bstr(maxlen=40):
    return st.binary(max_size=maxlen).map(lambda b: b.hex())


def u32():
    return st.sampled_from(EDGE32) | st.integers(0, 2 ** 32 - 1)


def mutation():
    return st.tuples(st.sampled_from(["set", "ins", "del", "trunc", "app"]), st.integers(0, 10 ** 6), st.integers(0, 255))


def strat(fam):
    if fam == "base32":
        return st.fixed_dictionaries({"fam": st.just(fam), "data": bstr(70)})
    if fam == "base32mut":
        return st.fixed_dictionaries({"fam": st.just(fam), "data": bstr(40), "muts": st.lists(mutation(), min_size=1, max_size=3),
                                      "raw": st.none() | st.text(alphabet="abcdefghijklmnopqrstuvwxyz234567ABC=01 \n", max_size=20)})
    if fam == "base62":
        return st.fixed_dictionaries({"fam": st.just(fam), "data": bstr(50), "bits": st.integers(0, 7), "bad": st.none() | st.integers(0, 255), "pos": st.integers(0, 100)})
    if fam == "base62mut":
        return st.fixed_dictionaries({"fam": st.just(fam), "data": bstr(12), "muts": st.lists(mutation(), min_size=1, max_size=2),
                                      "raw": st.none() | st.text(alphabet="0123456789ABCXYZabcxyz", min_size=1, max_size=8)})
    if fam == "netstring":
        return st.fixed_dictionaries({"fam": st.just(fam), "items": st.lists(bstr(30), max_size=6), "prefix": bstr(5),
                                      "trailer": st.none() | bstr(4), "take": st.integers(1, 7)})
    if fam == "netstringmut":
        return st.fixed_dictionaries({"fam": st.just(fam), "items": st.lists(bstr(12), min_size=1, max_size=4),
                                      "muts": st.lists(mutation(), min_size=1, max_size=3), "trailer": st.none() | bstr(2)})
    if fam in ("ueb", "uebmut"):
        keys = st.sampled_from(["codec_name", "codec_params", "tail_codec_params", "size", "segment_size", "num_segments", "needed_shares",
                                "total_shares", "crypttext_hash", "crypttext_root_hash", "share_root_hash", "plaintext_hash"]) | st.text(
            alphabet="abcXYZ_-", min_size=1, max_size=8)
        vals = st.one_of(bstr(33), st.integers(0, 2 ** 70), st.sampled_from([0, 1, 2 ** 32 - 1, 2 ** 32, 2 ** 64]))
        d = {"fam": st.just(fam), "d": st.lists(st.tuples(keys, vals), max_size=10)}
        if fam == "uebmut":
            d["muts"] = st.lists(mutation(), min_size=1, max_size=3)
        return st.fixed_dictionaries(d)
    if fam == "lease":
        return st.fixed_dictionaries({"fam": st.just(fam), "owner": u32(), "renew": st.integers(0, 10 ** 6), "cancel": st.integers(0, 10 ** 6),
                                      "exp": u32(), "exp_frac": st.sampled_from([0, 0, 0.25, 0.999]), "nodeid": st.integers(0, 1000),
                                      "cut": st.integers(-3, 3), "other": st.integers(0, 10 ** 6)})
    if fam == "container":
        return st.fixed_dictionaries({"fam": st.just(fam), "kind": st.sampled_from(["imm1", "imm2", "mut1", "mut2"]), "size": st.integers(1, 300),
                                      "fill": st.integers(0, 99), "nleases": st.integers(0, 6), "exp": u32(),
                                      "badver": st.none() | st.sampled_from([0, 3, 255, 2 ** 32 - 1]) | st.integers(0, 2 ** 32 - 1),
                                      "magicflip": st.none() | st.integers(0, 31),
                                      # length of the write enabler the mutable container is created with (32 is what every client derives)
                                      "welen": st.sampled_from([32, 32, 32, 32, 0, 3, 31, 33, 40])})
    raise KeyError(fam)


def run_shard(spec, ctx):
    ctx.drive(strat(spec["fam"]), spec["n"], run_case)


def mutate(data, muts):
    b = bytearray(data)
    for (op, pos, val) in muts:
        if op == "set" and b:
            b[pos % len(b)] = val
        elif op == "ins":
            b.insert(pos % (len(b) + 1), val)
        elif op == "del" and b:
            del b[pos % len(b)]
        elif op == "trunc" and b:
            del b[pos % len(b):]
        elif op == "app":
            b.append(val)
    return bytes(b)


# ---- reference decoders -----------------------------------------------------
B32 = b"abcdefghijklmnopqrstuvwxyz234567"


def ref_b32decode(s):
    """strict: lower-case alphabet, legal length, zero spare bits.  None = reject."""
    if any(c not in B32 for c in s):
        return None
    if len(s) % 8 in (1, 3, 6):
        return None
    bits = 0
    n = 0
    for c in s:
        bits = (bits << 5) | B32.index(c)
        n += 5
    spare = n % 8
    if bits & ((1 << spare) - 1):
        return None
    return (bits >> spare).to_bytes(n // 8, "big")


def ref_netstrings(data, pos, count, lenient):
    """Returns (elements, newpos) or None."""
    out = []
    while len(out) < count:
        if pos >= len(data):
            return None
        colon = data.find(b":", pos)
        if colon < 0:
            return None
        num = data[pos:colon]
        if re.fullmatch(rb"0|[1-9][0-9]*", num):
            ln = int(num)
        elif lenient:
            try:
                ln = int(num)
            except ValueError:
                return None
            if ln < 0:
                return None
        else:
            return None
        s = data[colon + 1:colon + 1 + ln]
        if len(s) != ln:
            return None
        if data[colon + 1 + ln:colon + 2 + ln] != b",":
            return None
        out.append(s)
        pos = colon + 2 + ln
    return out, pos


def run_case(case, ctx):
    globals()["case_" + case["fam"]](case, ctx)


def case_base32(case, ctx):
    from allmydata.util import base32
    data = bytes.fromhex(case["data"])
    enc = base32.b2a(data)
    ctx.check(ref_b32decode(enc) == data, "base32-encode", "b2a(%r)=%r is not the canonical base32 of the input" % (data, enc))
    ctx.check(base32.could_be_base32_encoded(enc), "base32-roundtrip", "could_be_base32_encoded rejects b2a output %r" % enc)
    try:
        dec = base32.a2b(enc)
    except Exception as e:
        ctx.fail("base32-roundtrip", "a2b(b2a(x)) raised %r for x=%r" % (e, data))
        return
    ctx.check(dec == data, "base32-roundtrip", "a2b(b2a(%r)) = %r" % (data, dec))
    ctx.note(sig=("b32", case["data"]), nontrivial=len(data) % 5 != 0, classes=["base32-rt"], sample=case)


def case_base32mut(case, ctx):
    from allmydata.util import base32
    if case.get("raw") is not None:
        s = case["raw"].encode()
    else:
        s = mutate(base32.b2a(bytes.fromhex(case["data"])), case["muts"])
    ref = ref_b32decode(s)
    try:
        got = base32.a2b(s)
    except Exception:
        got = None
        ctx.check(ref is None, "base32-valid-rejected", "a2b rejects canonical base32 %r" % s)
        ctx.note(sig=("b32m", s), nontrivial=True, classes=["base32-mut-rejected"], sample={"fam": "base32mut", "input": s.decode("latin1"), "result": "rejected"})
        return
    ctx.check(ref is not None and got == ref, "base32-malformed-accepted",
              "a2b(%r) returned %r but the string is %s" % (s, got, "not canonical base32 (re-encodes as %r)" % base32.b2a(got) if ref is None else "canonical for %r" % ref))
    ctx.note(sig=("b32m", s), nontrivial=True, classes=["base32-mut-accepted-canonical"], sample={"fam": "base32mut", "input": s.decode("latin1"), "result": "accepted"})


def case_base62(case, ctx):
    from allmydata.util import base62
    data = bytes.fromhex(case["data"])
    enc = base62.b2a(data)
    ctx.check(re.fullmatch(rb"[0-9A-Za-z]*", enc) is not None, "base62-alphabet", "b2a output %r outside alphabet" % enc)
    # reference: big-endian integer in base 62, fixed width
    val = int.from_bytes(data, "big")
    width = 0
    while 62 ** width < 256 ** len(data):
        width += 1
    digs = b"0123456789ABCDEFGHIJKLMNOPQRSTUVWXYZabcdefghijklmnopqrstuvwxyz"
    ref = bytes(digs[(val // 62 ** i) % 62] for i in reversed(range(width)))
    if data:
        ctx.check(enc == ref, "base62-encode", "b2a(%r)=%r, reference %r" % (data, enc, ref))
    try:
        dec = base62.a2b(enc)
    except Exception as e:
        ctx.fail("base62-roundtrip", "a2b(b2a(x)) raised %r for x=%r" % (e, data))
        return
    ctx.check(dec == data, "base62-roundtrip", "a2b(b2a(%r)) = %r" % (data, dec))
    # _l variants with an agreed bit length
    if data:
        nbits = len(data) * 8 - case["bits"]
        masked = (int.from_bytes(data, "big") >> case["bits"] << case["bits"]).to_bytes(len(data), "big")
        e2 = base62.b2a_l(masked, nbits)
        d2 = base62.a2b_l(e2, nbits)
        # a2b_l returns ceil(nbits/8) bytes holding the value right-aligned?  Only assert self-consistency with b2a/a2b when bits==0
        if case["bits"] == 0:
            ctx.check(e2 == enc and d2 == data, "base62-l-roundtrip", "b2a_l/a2b_l with full length disagree with b2a/a2b for %r" % data)
    # alphabet violation
    cl = ["base62-rt"]
    if case["bad"] is not None and enc:
        c = case["bad"]
        if bytes([c]) not in [bytes([x]) for x in digs]:
            bad = bytearray(enc)
            bad[case["pos"] % len(bad)] = c
            try:
                r = base62.a2b(bytes(bad))
                ctx.check(False, "base62-malformed-accepted", "a2b(%r) with byte %d outside the alphabet returned %r" % (bytes(bad), c, r))
            except Exception as e:
                if isinstance(e, __import__("vf.core", fromlist=["Violation"]).Violation):
                    raise
                cl.append("base62-bad-alphabet-rejected")
    ctx.note(sig=("b62", case["data"], case["bad"]), nontrivial=len(data) > 0, classes=cl, sample=case)


def case_base62mut(case, ctx):
    from allmydata.util import base62
    s = case["raw"].encode() if case.get("raw") is not None else mutate(base62.b2a(bytes.fromhex(case["data"])), case["muts"])
    try:
        got = base62.a2b(s)
    except Exception:
        ctx.note(sig=("b62m", s), nontrivial=True, classes=["base62-mut-rejected"], sample={"fam": "base62mut", "input": s.decode("latin1"), "result": "rejected"})
        return
    ctx.check(base62.b2a(got) == s, "base62-malformed-accepted", "a2b(%r) returned %r, which encodes as %r: the input is not the encoding of any byte string" % (s, got, base62.b2a(got)))
    ctx.note(sig=("b62m", s), nontrivial=True, classes=["base62-mut-accepted-canonical"], sample={"fam": "base62mut", "input": s.decode("latin1"), "result": "accepted"})


def case_netstring(case, ctx):
    from allmydata.util.netstring import netstring, split_netstring
    items = [bytes.fromhex(x) for x in case["items"]]
    prefix = bytes.fromhex(case["prefix"])
    trailer = None if case["trailer"] is None else bytes.fromhex(case["trailer"])
    body = b"".join(netstring(i) for i in items)
    for i in items:
        ctx.check(netstring(i) == b"%d:" % len(i) + i + b",", "netstring-encode", "netstring(%r)" % i)
    take = min(case["take"], len(items))
    if not items:
        ctx.note(classes=["netstring-empty"])
        return
    data = prefix + body + (trailer or b"")
    exp_pos = len(prefix) + sum(len(netstring(i)) for i in items[:take])
    cl = ["netstring-rt"]
    # with a required trailer all strings must be consumed
    if trailer is not None:
        try:
            got, pos = split_netstring(data, len(items), len(prefix), required_trailer=trailer)
            ctx.check(got == items and pos == len(data), "netstring-roundtrip", "split(%r)=%r,%r expected %r" % (data, got, pos, items))
        except Exception as e:
            # a trailer that itself looks like more netstrings is fine as long as count matches
            ctx.fail("netstring-roundtrip", "split_netstring(%r, %d, %d, trailer=%r) raised %r" % (data, len(items), len(prefix), trailer, e))
        if take < len(items) and items:
            try:
                got, pos = split_netstring(data, take, len(prefix), required_trailer=trailer)
                # leftover = remaining netstrings + trailer != trailer  => must be rejected unless equal
                ctx.check(data[exp_pos:] == trailer, "netstring-trailer-ignored", "split_netstring accepted leftover %r as trailer %r" % (data[exp_pos:], trailer))
            except ValueError:
                cl.append("netstring-trailer-rejected")
    else:
        try:
            got, pos = split_netstring(data, take, len(prefix))
        except Exception as e:
            ctx.fail("netstring-roundtrip", "split_netstring(%r, %d, %d) raised %r" % (data, take, len(prefix), e))
            return
        if take > 0 or True:
            ctx.check(got == items[:take], "netstring-roundtrip", "split(%r, %d) = %r expected %r" % (data, take, got, items[:take]))
            if take > 0:
                ctx.check(pos == exp_pos, "netstring-position", "split(%r, %d) position %r expected %r" % (data, take, pos, exp_pos))
    ctx.note(sig=("ns", case["items"], case["prefix"], case["trailer"], take), nontrivial=len(items) >= 2, classes=cl, sample=case)


def case_netstringmut(case, ctx):
    from allmydata.util.netstring import netstring, split_netstring
    items = [bytes.fromhex(x) for x in case["items"]]
    trailer = None if case["trailer"] is None else bytes.fromhex(case["trailer"])
    data = mutate(b"".join(netstring(i) for i in items) + (trailer or b""), case["muts"])
    n = len(items)
    strict = ref_netstrings(data, 0, n, False)
    lenient = ref_netstrings(data, 0, n, True)
    if trailer is not None:
        if strict and data[strict[1]:] != trailer:
            strict = None
        if lenient and data[lenient[1]:] != trailer:
            lenient = None
        if strict:
            strict = (strict[0], len(data))
        if lenient:
            lenient = (lenient[0], len(data))
    try:
        got = split_netstring(data, n, 0, required_trailer=trailer)
        got = (list(got[0]), got[1])
    except Exception:
        ctx.check(strict is None, "netstring-valid-rejected", "split_netstring rejects well-formed %r" % data)
        ctx.note(sig=("nsm", data), nontrivial=True, classes=["netstring-mut-rejected"], sample={"fam": "netstringmut", "input": data.hex(), "result": "rejected"})
        return
    if strict is not None:
        ctx.check(got == (strict[0], strict[1]), "netstring-misread", "split_netstring(%r,%d)=%r, strict reference %r" % (data, n, got, strict))
        cl = "netstring-mut-accepted-wellformed"
    else:
        ctx.check(lenient is not None and got == (lenient[0], lenient[1]), "netstring-malformed-accepted",
                  "split_netstring(%r,%d,trailer=%r)=%r but the input is malformed (lenient reference: %r)" % (data, n, trailer, got, lenient))
        cl = "lenient-numeral"
    ctx.note(sig=("nsm", data), nontrivial=True, classes=[cl], sample={"fam": "netstringmut", "input": data.hex(), "result": "accepted"})


INTKEYS = ('size', 'segment_size', 'num_segments', 'needed_shares', 'total_shares')


def ref_ueb(data, lenient):
    d = {}
    pos = 0
    while pos < len(data):
        colon = data.find(b":", pos)
        if colon < 0:
            return None
        key = data[pos:colon]
        r = ref_netstrings(data, colon + 1, 1, lenient)
        if r is None:
            return None
        (val,), pos = r
        try:
            d[key.decode("utf-8")] = val
        except UnicodeDecodeError:
            return None
    for k in INTKEYS:
        if k in d:
            if re.fullmatch(rb"0|[1-9][0-9]*", d[k]):
                d[k] = int(d[k])
            elif lenient:
                try:
                    d[k] = int(d[k])
                except ValueError:
                    return None
            else:
                return None
    return d


def _ueb_dict(case):
    d = {}
    for k, v in case["d"]:
        d[k] = bytes.fromhex(v) if isinstance(v, str) else v
    return d


def case_ueb(case, ctx):
    from allmydata import uri
    d = {k: v for k, v in _ueb_dict(case).items() if not (k in INTKEYS and isinstance(v, bytes))}
    packed = uri.pack_extension(d)
    try:
        got = uri.unpack_extension(packed)
    except Exception as e:
        ctx.fail("ueb-roundtrip", "unpack_extension(pack_extension(%r)) raised %r" % (d, e))
        return
    exp = {}
    for k, v in d.items():
        if isinstance(v, int):
            exp[k] = v if k in INTKEYS else b"%d" % v
        else:
            if k in INTKEYS:
                # bytes under an integer key: only digits survive; generator may produce junk -> unpack may raise earlier
                exp[k] = int(v)
            else:
                exp[k] = v
    ctx.check(got == exp, "ueb-roundtrip", "unpack(pack(%r)) = %r" % (d, got))
    ctx.note(sig=("ueb", repr(sorted(d.items()))), nontrivial=len(d) >= 2, classes=["ueb-rt"], sample=case)


def case_uebmut(case, ctx):
    from allmydata import uri
    d = {k: v for k, v in _ueb_dict(case).items() if not (k in INTKEYS and isinstance(v, bytes))}
    packed = mutate(uri.pack_extension(d), case["muts"])
    strict = ref_ueb(packed, False)
    lenient = ref_ueb(packed, True)
    try:
        got = uri.unpack_extension(packed)
    except Exception:
        ctx.check(strict is None, "ueb-valid-rejected", "unpack_extension rejects well-formed %r" % packed)
        ctx.note(sig=("uebm", packed), nontrivial=True, classes=["ueb-mut-rejected"], sample={"fam": "uebmut", "input": packed.hex(), "result": "rejected"})
        return
    if strict is not None:
        ctx.check(got == strict, "ueb-misread", "unpack_extension(%r)=%r strict reference %r" % (packed, got, strict))
        cl = "ueb-mut-accepted-wellformed"
    else:
        ctx.check(lenient is not None and got == lenient, "ueb-malformed-accepted", "unpack_extension(%r)=%r but input is malformed (lenient ref %r)" % (packed, got, lenient))
        cl = "lenient-numeral"
    ctx.note(sig=("uebm", packed), nontrivial=True, classes=[cl], sample={"fam": "uebmut", "input": packed.hex(), "result": "accepted"})


def _secret(n):
    return hashlib.sha256(b"secret-%d" % n).digest()


def case_lease(case, ctx):
    from allmydata.storage.lease import LeaseInfo, HashedLeaseInfo
    from allmydata.storage import lease_schema
    renew, cancel = _secret(case["renew"]), _secret(case["cancel"] + 10 ** 7)
    nodeid = hashlib.sha1(b"%d" % case["nodeid"]).digest()
    exp = case["exp"] + (case["exp_frac"] if case["exp"] < 2 ** 32 - 1 else 0)
    li = LeaseInfo(case["owner"], renew, cancel, exp, nodeid)
    edge = case["exp"] in EDGE32 or case["owner"] in EDGE32
    classes = ["lease-rt-edge"] if edge else ["lease-rt"]
    for name, ser, mutable in (("v1_immutable", lease_schema.v1_immutable, False), ("v1_mutable", lease_schema.v1_mutable, True),
                               ("v2_immutable", lease_schema.v2_immutable, False), ("v2_mutable", lease_schema.v2_mutable, True)):
        try:
            blob = ser.serialize(li)
        except Exception as e:
            ctx.fail("lease-encode", "%s.serialize(owner=%d exp=%r) raised %r" % (name, case["owner"], exp, e))
            continue
        ctx.check(len(blob) == (li.mutable_size() if mutable else li.immutable_size()), "lease-size", "%s blob length %d" % (name, len(blob)))
        back = ser.unserialize(blob)
        ctx.check(back.owner_num == case["owner"], "lease-roundtrip", "%s: owner %r -> %r" % (name, case["owner"], back.owner_num))
        ctx.check(back.get_expiration_time() == int(exp), "lease-roundtrip",
                  "%s lease record owner=%d expiration=%r: decoded expiration %r" % (name, case["owner"], exp, back.get_expiration_time()))
        ctx.check(back.is_renew_secret(renew) and back.is_cancel_secret(cancel), "lease-roundtrip", "%s: secrets not recognised after round trip" % name)
        other = _secret(case["other"] + 2 * 10 ** 7)
        ctx.check(not back.is_renew_secret(other) and not back.is_cancel_secret(other), "lease-roundtrip", "%s: foreign secret accepted" % name)
        if mutable:
            ctx.check(back.nodeid == nodeid, "lease-roundtrip", "%s: nodeid %r -> %r" % (name, nodeid, back.nodeid))
        if name.startswith("v2"):
            ctx.check(renew not in blob and cancel not in blob, "lease-v2-cleartext", "%s stores a cleartext secret" % name)
            ctx.check(isinstance(back, HashedLeaseInfo), "lease-roundtrip", "%s unserialize type %r" % (name, type(back)))
            classes.append("lease-v2-hashed")
            # re-serialising a decoded v2 lease is stable
            ctx.check(ser.serialize(back) == blob, "lease-roundtrip", "%s: serialize(unserialize(blob)) != blob" % name)
        else:
            ctx.check(renew in blob and cancel in blob, "lease-v1-layout", "%s does not contain the secrets" % name)
            ctx.check(ser.serialize(back) == blob, "lease-roundtrip", "%s: serialize(unserialize(blob)) != blob" % name)
        # wrong length is rejected
        if case["cut"]:
            bad = blob[:case["cut"]] if case["cut"] < 0 else blob + b"\x00" * case["cut"]
            try:
                ser.unserialize(bad)
                ctx.fail("lease-malformed-accepted", "%s.unserialize accepted a %d-byte record" % (name, len(bad)))
            except struct.error:
                classes.append("lease-wrong-length-rejected")
    ctx.note(sig=("lease", case["owner"], case["exp"], case["exp_frac"], case["renew"]), nontrivial=edge, classes=sorted(set(classes)), sample=case)


def case_container(case, ctx):
    from allmydata.storage.immutable import ShareFile
    from allmydata.storage.mutable import MutableShareFile
    from allmydata.storage.lease import LeaseInfo
    from allmydata.storage import immutable_schema, mutable_schema
    from vf.core import Violation, pbytes
    d = ctx.casedir()
    fn = os.path.join(d, "share")
    data = pbytes(case["fill"], case["size"])
    kind = case["kind"]
    leases = [LeaseInfo(i + 1, _secret(i), _secret(100 + i), case["exp"] if i == 0 else 1000 + i, b"\x11" * 20) for i in range(case["nleases"])]
    classes = []
    if kind.startswith("imm"):
        ver = int(kind[3])
        schema = immutable_schema.schema_from_version(ver)
        sf = ShareFile(fn, max_size=case["size"], create=True, schema=schema)
        sf.write_share_data(0, data)
        for l in leases:
            sf.add_lease(l)
        sf2 = ShareFile(fn)
        ctx.check(sf2.read_share_data(0, case["size"] + 50) == data, "container-roundtrip", "immutable v%d share data differs after reopen" % ver)
        got = list(sf2.get_leases())
        ctx.check(len(got) == len(leases), "container-roundtrip", "immutable v%d: %d leases stored, %d read" % (ver, len(leases), len(got)))
        for a, b in zip(leases, got):
            ctx.check(b.owner_num == a.owner_num and b.get_expiration_time() == a.get_expiration_time() and b.is_renew_secret(a.renew_secret),
                      "container-roundtrip", "immutable v%d: lease %r read back as %r" % (ver, a, b))
        raw = open(fn, "rb").read()
        ctx.check(struct.unpack(">L", raw[:4])[0] == ver, "container-header", "version field")
        classes.append("container-imm-rt")
        if case["badver"] is not None and case["badver"] not in (1, 2):
            with open(fn, "r+b") as f:
                f.write(struct.pack(">L", case["badver"]))
            try:
                ShareFile(fn)
                ctx.fail("container-bad-version-accepted", "ShareFile opened a container with version field %d" % case["badver"])
            except Exception as e:
                if isinstance(e, __import__("vf.core", fromlist=["Violation"]).Violation):
                    raise
                classes.append("container-bad-version-rejected")
    else:
        ver = int(kind[3])
        schema = [s for s in mutable_schema.ALL_SCHEMAS if s.version == ver][0]
        msf = MutableShareFile(fn, schema=schema)
        nodeid, we = b"\x22" * 20, _secret(7)
        if case.get("welen", 32) != 32:
            # a write enabler the fixed-width header field cannot hold: either the container refuses it, or it must come back as it went in
            we = (we * 2)[:case["welen"]]
            classes.append("container-mut-odd-enabler-length")
            try:
                msf.create(nodeid, we)
            except (ValueError, struct.error, AssertionError):
                classes.append("container-mut-odd-enabler-refused")
                ctx.note(sig=("cont", kind, case["welen"]), nontrivial=True, classes=classes, sample=case)
                return
            m2 = MutableShareFile(fn)
            try:
                m2.check_write_enabler(we, b"si")
                other_ok = False
                for alt in (we.ljust(32, b"\x00"), we[:32], we + b"\x00"):
                    if alt != we:
                        try:
                            m2.check_write_enabler(alt, b"si")
                            other_ok = True
                        except Exception:
                            pass
                ctx.check(not other_ok, "header-field-misread", "mutable v%d container created with a %d-byte write enabler also accepts a different (padded/truncated) secret" % (ver, len(we)), welen=len(we))
            except Violation:
                raise
            except Exception as e:
                ctx.fail("header-field-misread", "mutable v%d container created with a %d-byte write enabler does not recognise it afterwards (%s): the header stored a different value" % (ver, len(we), type(e).__name__), welen=len(we))
            ctx.note(sig=("cont", kind, case["welen"]), nontrivial=True, classes=classes, sample=case)
            return
        msf.create(nodeid, we)
        msf.writev([(0, data)], None)
        for l in leases:
            msf.add_lease(10 ** 9, l)
        m2 = MutableShareFile(fn)
        ctx.check(m2.readv([(0, case["size"] + 50)]) == [data], "container-roundtrip", "mutable v%d share data differs after reopen" % ver)
        got = list(m2.get_leases())
        ctx.check(len(got) == len(leases), "container-roundtrip", "mutable v%d: %d leases stored, %d read" % (ver, len(leases), len(got)))
        for a, b in zip(leases, got):
            ctx.check(b.owner_num == a.owner_num and b.get_expiration_time() == a.get_expiration_time() and b.is_renew_secret(a.renew_secret)
                      and b.nodeid == a.nodeid, "container-roundtrip", "mutable v%d: lease %r read back as %r" % (ver, a, b))
        try:
            m2.check_write_enabler(we, b"si")
        except Exception as e:
            ctx.fail("container-roundtrip", "write enabler not recognised after reopen: %r" % e)
        classes.append("container-mut-rt")
        if case["magicflip"] is not None:
            raw = bytearray(open(fn, "rb").read())
            raw[case["magicflip"]] ^= 0x01
            open(fn, "wb").write(bytes(raw))
            try:
                MutableShareFile(fn).readv([(0, 10)])
                ctx.fail("container-bad-version-accepted", "MutableShareFile read a container with corrupted magic byte %d" % case["magicflip"])
            except Exception as e:
                if isinstance(e, __import__("vf.core", fromlist=["Violation"]).Violation):
                    raise
                classes.append("container-bad-version-rejected")
    ctx.note(sig=("cont", kind, case["size"], case["nleases"], case["exp"], case["badver"], case["magicflip"]),
             nontrivial=case["nleases"] > 0 or case["badver"] is not None, classes=classes, sample=case)
