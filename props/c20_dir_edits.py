"""C20 directory edits behave like a map from normalized names to (child, metadata)."""
import unicodedata, copy
from hypothesis import strategies as st
from vf import boot, mutfile
from vf.grid import Grid

ID = "C20"
LEVEL = "exploration"
ENGINE = "E2 detgrid"
TECHNIQUE = ("model-based testing: Hypothesis operation histories (set_uri/set_node with overwrite in {True, False, ONLY_FILES}, set_children, delete with must_exist/"
             "must_be_file/must_be_directory, set_metadata_for, move_child_to within and across directories, create_subdirectory) over up to three real directories on the "
             "in-process grid, names from a pool with collisions and NFC-equivalent spellings, the fake clock advanced between operations; dict reference model incl. "
             "linkcrtime/linkmotime, compared after every step")
RULE = ("each case: 1-3 directories (SDMF or MDMF), up to 12 (quick) / 30 (thorough) operations; names drawn from a pool of 8 spellings of 4 normalized names; children are "
        "literal/CHK file caps, the directories themselves (also forming cycles) and freshly created subdirectories; metadata small JSON dicts. After every operation the "
        "listing of every directory (names, child caps, complete metadata incl. the 'tahoe' link times) must equal the model, and the operation's outcome must equal the "
        "model's (success, ExistingChildError, NoSuchChildError, ChildOfWrongTypeError). Non-trivial = a refused add/rename, a rename onto an existing or NFC-equivalent "
        "name, or a metadata update of an existing entry; distinct by whole case.")
LEVEL_TEXT = "Random histories against a dictionary model, compared after every step."
ASSUMPTIONS = ["one client, honest servers (concurrency is C13)", "metadata never contains the 'no-write' key (it changes the child, documented separately)",
               "the clock does not move during an operation (timers only fire when the grid is idle)"]
REQUIRED_CLASSES = ["no-overwrite-refused", "only-files-refused", "only-files-replaced-file", "rename-same-dir", "rename-across", "rename-failed", "rename-nfc-equivalent",
                    "delete-wrong-type", "metadata-update", "nfc-spelling", "subdir"]
BUDGET = {"quick": 900, "thorough": 7200}
NAMES = ["caf\u00e9", "cafe\u0301", "\u00c5", "A\u030a", "plain", "plain2", "\u03a9", "\u2126"]


def plan(tier):
    n = 100 if tier == "quick" else 1500
    return [{"kind": "hyp", "n": n, "maxops": 12 if tier == "quick" else 30} for _ in range(16)]


md = st.one_of(st.none(), st.dictionaries(st.sampled_from(["a", "b", "ctime", "mtime", "tahoe"]), st.one_of(st.integers(0, 9), st.text(max_size=3), st.dictionaries(st.just("x"), st.integers(0, 3), max_size=1)), max_size=3))
name = st.integers(0, len(NAMES) - 1)
ovw = st.sampled_from([True, True, False, "only-files"])
childspec = st.one_of(st.tuples(st.just("lit"), st.integers(0, 5)), st.tuples(st.just("chk"), st.integers(0, 5)), st.tuples(st.just("dir"), st.integers(0, 2)), st.tuples(st.just("dir-ro"), st.integers(0, 2))).map(list)


@st.composite
def cases(draw, maxops):
    ndirs = draw(st.integers(1, 3))
    d = st.integers(0, ndirs - 1)
    op = st.one_of(
        st.tuples(st.just("set"), d, name, childspec, md, ovw),
        st.tuples(st.just("set"), d, name, childspec, md, ovw),
        st.tuples(st.just("set_children"), d, st.lists(st.tuples(name, childspec, md).map(list), min_size=1, max_size=3), ovw),
        st.tuples(st.just("delete"), d, name, st.booleans(), st.sampled_from(["any", "any", "file", "dir"])),
        st.tuples(st.just("set_metadata"), d, name, md.filter(lambda x: x is not None)),
        st.tuples(st.just("move"), d, name, d, st.one_of(st.none(), name), ovw),
        st.tuples(st.just("move"), d, name, d, st.one_of(st.none(), name), ovw),
        st.tuples(st.just("mkdir"), d, name, ovw, md),
    ).map(list)
    setop = st.tuples(st.just("set"), d, name, childspec, md, st.just(True)).map(list)
    ops = draw(st.lists(setop, min_size=1, max_size=4)) + draw(st.lists(op, min_size=1, max_size=maxops - 4))
    # bias renames towards the other spelling of the same normalized name / a name that exists
    for o in ops:
        if o[0] == "move" and o[4] is not None and draw(st.integers(0, 2)) == 0:
            o[4] = o[2] ^ 1
            if draw(st.booleans()):
                o[3] = o[1]
    return {"hsalt": draw(st.integers(0, 15)), "fmt": draw(st.sampled_from(["sdmf", "sdmf", "mdmf"])), "ndirs": ndirs, "ops": ops,
            "ticks": draw(st.lists(st.integers(1, 1000), min_size=1, max_size=6)), "sched": draw(st.lists(st.integers(0, 5), max_size=30))}


def run_shard(spec, ctx):
    ctx.drive(cases(spec["maxops"]), spec["n"], run_case)


def nfc(s):
    return unicodedata.normalize("NFC", s)


def model_update_metadata(old, new, now):
    m = {} if old is None else copy.deepcopy(old)
    old_ctime = m.get("ctime")
    if new is not None:
        nm = copy.deepcopy(new)
        nm.pop("tahoe", None)
        if "tahoe" in m:
            nm["tahoe"] = m["tahoe"]
        m = nm
    sysmd = m.get("tahoe", {})
    if "linkcrtime" not in sysmd:
        sysmd["linkcrtime"] = old_ctime if old_ctime is not None else now
    sysmd["linkmotime"] = now
    m["tahoe"] = sysmd
    return m


def run_case(case, ctx):
    from allmydata.interfaces import ExistingChildError, NoSuchChildError, ChildOfWrongTypeError
    from allmydata.dirnode import ONLY_FILES
    from allmydata.uri import LiteralFileURI, CHKFileURI
    mutfile.set_segsize(4096)
    g = Grid(ctx.casedir(), 3, {"k": 1, "n": 2, "happy": 1, "max_segment_size": 131072}, choices=case["sched"])
    c = g.c0
    classes = set()
    nt = False
    hist = []
    try:
        dirs = []
        for i in range(case["ndirs"]):
            r = g.run(c.nodemaker.create_new_mutable_directory(version=mutfile.version_const(case["fmt"])))
            if r[0] != "ok":
                ctx.fail("mkdir-failed", "creating directory failed: %r" % (r,))
                return
            dirs.append(r[1])
        model = [dict() for _ in dirs]     # nname -> {"rw","ro","isdir","md"}

        def child_of(spec):
            kind, i = spec
            if kind == "lit":
                u = LiteralFileURI(b"lit-%d" % i).to_string()
                return None, u, False
            if kind == "chk":
                u = CHKFileURI(bytes([i]) * 16, bytes([i + 1]) * 32, 3, 10, 1000 + i).to_string()
                return None, u, False
            dn = dirs[i % len(dirs)]
            if kind == "dir":
                return dn.get_uri(), dn.get_readonly_uri(), True
            return None, dn.get_readonly_uri(), True

        def ow(x):
            return ONLY_FILES if x == "only-files" else x

        def desc():
            return "fmt=%s dirs=%d history=%r" % (case["fmt"], len(dirs), hist)

        def check_add(m, nn, over):
            """model's verdict for adding nn: None or expected exception class"""
            if nn in m:
                if over is False:
                    return ExistingChildError
                if over == "only-files" and m[nn]["isdir"]:
                    return ExistingChildError
            return None

        def verify():
            for di, dn in enumerate(dirs):
                r = g.run(dn.list())
                if r[0] != "ok":
                    ctx.fail("list-failed", "%s: list of directory %d failed %r" % (desc(), di, r))
                    return
                got = {}
                for nme, (ch, mdd) in r[1].items():
                    got[nme] = {"rw": ch.get_write_uri(), "ro": ch.get_readonly_uri(), "md": mdd}
                exp = {nme: {"rw": e["rw"], "ro": e["ro"], "md": e["md"]} for nme, e in model[di].items()}
                if got != exp:
                    diff = sorted(set(got) ^ set(exp)) or [nme for nme in got if got[nme] != exp[nme]]
                    n0 = diff[0]
                    ctx.fail("listing-differs", "%s: directory %d differs from the model at entry %r: real %r, model %r (all names real %r model %r)" % (
                        desc(), di, n0, got.get(n0), exp.get(n0), sorted(got), sorted(exp)), op=hist[-1][0] if hist else None)
        ticks = case["ticks"]
        for oi, op in enumerate(case["ops"]):
            boot.R.advance(ticks[oi % len(ticks)])
            boot.drain()
            now = boot.now()
            kind, di = op[0], op[1]
            dn, m = dirs[di], model[di]
            exp_err = None
            if kind == "set":
                _, _, ni, cs, mdd, over = op
                nm_, nn = NAMES[ni], nfc(NAMES[ni])
                rw, ro, isdir = child_of(cs)
                hist.append(("set", di, nm_, cs[0], mdd, over))
                exp_err = check_add(m, nn, over)
                r = g.run(dn.set_uri(nm_, rw, ro, metadata=mdd, overwrite=ow(over)))
                if exp_err is None:
                    if nn in m:
                        classes.add("metadata-update")
                        if over == "only-files":
                            classes.add("only-files-replaced-file")
                        nt = True
                    m[nn] = {"rw": rw, "ro": ro, "isdir": isdir, "md": model_update_metadata(m[nn]["md"] if nn in m else None, mdd, now)}
                else:
                    classes.add("no-overwrite-refused" if over is False else "only-files-refused")
                    nt = True
            elif kind == "set_children":
                _, _, entries, over = op
                hist.append(("set_children", di, [(NAMES[e[0]], e[1][0]) for e in entries], over))
                ents = {}
                for (ni, cs, mdd) in entries:
                    rw, ro, isdir = child_of(cs)
                    ents[NAMES[ni]] = (rw, ro, mdd, isdir)
                # the Adder processes the entries in dict order and fails as a whole on the first refusal
                trial = copy.deepcopy(m)
                for nm_, (rw, ro, mdd, isdir) in ents.items():
                    nn = nfc(nm_)
                    e = check_add(trial, nn, over)
                    if e is not None:
                        exp_err = e
                        break
                    trial[nn] = {"rw": rw, "ro": ro, "isdir": isdir, "md": model_update_metadata(trial[nn]["md"] if nn in trial else None, mdd, now)}
                r = g.run(dn.set_children({nm_: ((rw, ro, mdd) if mdd is not None else (rw, ro)) for nm_, (rw, ro, mdd, isdir) in ents.items()}, overwrite=ow(over)))
                if exp_err is None:
                    model[di] = m = trial
                else:
                    nt = True
            elif kind == "delete":
                _, _, ni, must_exist, typ = op
                nm_, nn = NAMES[ni], nfc(NAMES[ni])
                hist.append(("delete", di, nm_, must_exist, typ))
                if nn not in m:
                    exp_err = NoSuchChildError if must_exist else None
                elif (typ == "dir" and not m[nn]["isdir"]) or (typ == "file" and m[nn]["isdir"]):
                    exp_err = ChildOfWrongTypeError
                    classes.add("delete-wrong-type")
                r = g.run(dn.delete(nm_, must_exist=must_exist, must_be_directory=(typ == "dir"), must_be_file=(typ == "file")))
                if exp_err is None:
                    m.pop(nn, None)
            elif kind == "set_metadata":
                _, _, ni, mdd = op
                nm_, nn = NAMES[ni], nfc(NAMES[ni])
                hist.append(("set_metadata", di, nm_, mdd))
                if nn not in m:
                    exp_err = NoSuchChildError
                r = g.run(dn.set_metadata_for(nm_, mdd))
                if exp_err is None:
                    m[nn]["md"] = model_update_metadata(m[nn]["md"], mdd, now)
                    classes.add("metadata-update")
                    nt = True
            elif kind == "move":
                _, _, ni, d2, n2, over = op
                nm_, nn = NAMES[ni], nfc(NAMES[ni])
                new_nm = None if n2 is None else NAMES[n2]
                new_nn = nn if n2 is None else nfc(new_nm)
                hist.append(("move", di, nm_, d2, new_nm, over))
                m2 = model[d2]
                redundant = (d2 == di and new_nn == nn)
                if redundant:
                    exp_err = None
                    if new_nm is not None and new_nm != nm_:
                        classes.add("rename-nfc-equivalent")
                        nt = True
                elif nn not in m:
                    exp_err = NoSuchChildError
                else:
                    exp_err = check_add(m2, new_nn, over)
                r = g.run(dn.move_child_to(nm_, dirs[d2], new_nm, overwrite=ow(over)))
                if exp_err is None and not redundant:
                    ent = m[nn]
                    m2[new_nn] = {"rw": ent["rw"], "ro": ent["ro"], "isdir": ent["isdir"], "md": model_update_metadata(m2[new_nn]["md"] if new_nn in m2 else None, ent["md"], now)}
                    del m[nn]
                    classes.add("rename-same-dir" if d2 == di else "rename-across")
                    nt = True
                elif exp_err is not None:
                    classes.add("rename-failed")
                    nt = True
            elif kind == "mkdir":
                _, _, ni, over, mdd = op
                nm_, nn = NAMES[ni], nfc(NAMES[ni])
                hist.append(("mkdir", di, nm_, over, mdd))
                exp_err = check_add(m, nn, over)
                r = g.run(dn.create_subdirectory(nm_, overwrite=ow(over), metadata=mdd))
                if exp_err is None and r[0] == "ok":
                    ch = r[1]
                    m[nn] = {"rw": ch.get_uri(), "ro": ch.get_readonly_uri(), "isdir": True, "md": model_update_metadata(m[nn]["md"] if nn in m else None, mdd, now)}
                    classes.add("subdir")
            if isinstance(op[2], int) and NAMES[op[2]] != nfc(NAMES[op[2]]):
                classes.add("nfc-spelling")
            if r[0] == "hang":
                ctx.fail("hang", "%s: operation never completed" % desc())
            if exp_err is None:
                if r[0] != "ok":
                    ctx.fail("op-failed", "%s: the operation should succeed according to the map model but failed with %s: %s" % (desc(), type(r[1]).__name__, str(r[1])[:200]), op=kind, exc=type(r[1]).__name__)
            else:
                if not (r[0] == "err" and isinstance(r[1], exp_err)):
                    ctx.fail("wrong-outcome", "%s: the map model expects %s, the operation ended with %s" % (desc(), exp_err.__name__, "success" if r[0] == "ok" else type(r[1]).__name__), op=kind, expected=exp_err.__name__)
            verify()
    finally:
        g.stop()
        mutfile.restore_segsize()
    ctx.note(sig=repr(case), nontrivial=nt, classes=sorted(classes), sample={"fmt": case["fmt"], "ndirs": case["ndirs"], "history": hist[:8]})
