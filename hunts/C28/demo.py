"""
C28 hunt demo: a read-only storage server (and a server whose available space
is 0) accepts a new immutable share allocation when allocated_size == 0.

Exercises the REAL StorageServer / FoolscapStorageServer / BucketWriter.
Exit 1 if the violation occurs, 0 otherwise.

Cause: storage/server.py StorageServer.allocate_buckets encodes read-only-ness
only as get_available_space() == 0 and admits a share with
    elif (not limited) or (remaining_space >= max_space_per_bucket):
so 0 >= 0 passes (the comment "readonly_storage causes remaining_space <= 0"
assumes that implies refusal).  The 12-byte header + 72-byte lease container
overhead is not charged either, so a full server (avail == 0) accepts unlimited
0-size shares that eat real bytes out of the reserved space.
Fix: refuse explicitly when self.readonly_storage (or require
remaining_space > 0), reject allocated_size < 0, and ideally charge the
container overhead against remaining_space.
"""
import os, sys, tempfile, shutil

from twisted.internet.task import Clock
from allmydata.util import fileutil
from allmydata.storage.server import StorageServer, FoolscapStorageServer


class Canary(object):
    def notifyOnDisconnect(self, cb, *a, **kw):
        return object()
    def dontNotifyOnDisconnect(self, marker):
        pass


def files_under(d):
    out = []
    for root, dirs, files in os.walk(d):
        for f in files:
            p = os.path.join(root, f)
            out.append((os.path.relpath(p, d), os.path.getsize(p)))
    return sorted(out)


def main():
    problems = []
    tmp = tempfile.mkdtemp(prefix="c28h")
    try:
        # ---- 1. read-only server ------------------------------------
        ss = StorageServer(os.path.join(tmp, "ro"), b"\x01" * 20,
                           reserved_space=0, readonly_storage=True,
                           clock=Clock())
        fss = FoolscapStorageServer(ss)
        si = b"s" * 16
        rs, cs = b"r" * 32, b"c" * 32

        # sanity: a non-zero request is refused by the read-only server
        got, writers = fss.remote_allocate_buckets(si, rs, cs, {0, 1}, 1, Canary())
        assert not writers and not got, (got, writers)
        print("read-only, allocated_size=1 : accepted shares =", sorted(writers))

        # the boundary size: allocated_size == 0
        got, writers = fss.remote_allocate_buckets(si, rs, cs, {0, 1, 2}, 0, Canary())
        print("read-only, allocated_size=0 : accepted shares =", sorted(writers))
        print("  get_available_space() =", ss.get_available_space(),
              " in-progress writers =", len(ss._bucket_writers))
        print("  files now on the read-only server's disk:",
              files_under(ss.sharedir))
        if writers:
            problems.append("read-only server accepted %d new immutable "
                            "share allocation(s)" % len(writers))
            for w in writers.values():
                w.remote_close()
            final = files_under(ss.sharedir)
            print("  after close, permanent share files:", final)
            print("  get_buckets ->", sorted(ss.get_buckets(si)))
            if final:
                problems.append("read-only server now stores %d new share "
                                "file(s), %d bytes" %
                                (len(final), sum(s for _, s in final)))

        # ---- 2. writable server on a simulated full disk -------------
        # (free space <= reserved_space, so avail == 0): informational,
        # every accepted 0-size share still costs 12+72 real bytes.
        real = fileutil.get_disk_stats
        def fake_disk_stats(whichdir, reserved_space=0):
            free = 1000
            return {'total': 10**6, 'free_for_root': free,
                    'free_for_nonroot': free, 'used': 10**6 - free,
                    'avail': max(free - reserved_space, 0)}
        fileutil.get_disk_stats = fake_disk_stats
        try:
            ss2 = StorageServer(os.path.join(tmp, "full"), b"\x02" * 20,
                                reserved_space=5000, clock=Clock())
            n = 0
            for i in range(20):
                si2 = bytes([i]) * 16
                _, w = ss2.allocate_buckets(si2, rs, cs, set(range(10)), 0)
                n += len(w)
            used = sum(s for _, s in files_under(ss2.sharedir))
            print("full disk (avail=0), allocated_size=0 : accepted %d shares,"
                  " %d real bytes written into the reserved space,"
                  " allocated_size()=%d" % (n, used, ss2.allocated_size()))
        finally:
            fileutil.get_disk_stats = real
    finally:
        shutil.rmtree(tmp, ignore_errors=True)

    if problems:
        print("VIOLATION of C28:")
        for p in problems:
            print("  -", p)
        return 1
    print("no violation")
    return 0


if __name__ == "__main__":
    sys.exit(main())
