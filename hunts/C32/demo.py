"""
C32 demo: preferred servers configured through tahoe.cfg ([client] peers.preferred)
are never placed first by StorageFarmBroker.get_servers_for_psi.

Uses the real client.config_from_string -> client.create_storage_farm_broker
(the path a real node takes), the real NativeStorageServer objects made by
StorageFarmBroker.test_add_rref, and the real permute_server_hash.
Exit 1 when the violation occurs, 0 otherwise.
"""
import os, sys, random, tempfile, hashlib

from allmydata import client
from allmydata.util import base32
from allmydata.util.hashutil import permute_server_hash

rng = random.Random(20260923)
TUBID = base32.b2a(b"\x01" * 20).decode("ascii")


def server_id(n):
    # same shape as real server ids: v0-<52 base32 chars of a 32-byte key>
    return b"v0-" + base32.b2a(hashlib.sha256(b"key-%d" % n).digest())


def make_broker(preferred_ids):
    cfg_text = "[client]\npeers.preferred = %s\n" % (
        ", ".join(p.decode("ascii") for p in preferred_ids),)
    cfg = client.config_from_string(tempfile.mkdtemp(), "", cfg_text)
    return client.create_storage_farm_broker(
        cfg, {"tcp": "tcp"}, {}, {}, [], None)


def expected_order(all_ids, preferred_ids, si):
    # the order the statement promises: preferred first, then by
    # hash(storage index, server seed).  seed == the 32 key bytes.
    def key(sid):
        seed = base32.a2b(sid[3:])
        return (sid not in preferred_ids, permute_server_hash(si, seed))
    return sorted(all_ids, key=key)


failures = 0
trials = 50
first = None
for t in range(trials):
    n = rng.randint(3, 12)
    ids = [server_id(rng.randrange(10**6)) for _ in range(n)]
    ids = list(dict.fromkeys(ids))
    preferred = rng.sample(ids, rng.randint(1, len(ids) - 1))
    si = bytes(rng.randrange(256) for _ in range(16))

    sb = make_broker(preferred)
    for sid in ids:
        ann = {"anonymous-storage-FURL": "pb://%s@nowhere/fake" % TUBID,
               "nickname": "n"}
        sb.test_add_rref(sid, object(), ann)

    got = [s.get_longname() for s in sb.get_servers_for_psi(si)]
    want = expected_order(ids, set(preferred), si)
    assert sorted(got) == sorted(want)
    k = len(preferred)
    if got != want:
        failures += 1
        if first is None:
            first = (preferred, got, want, sb.preferred_peers)

if failures:
    preferred, got, want, cfgval = first
    print("VIOLATION: in %d/%d random trials the configured preferred "
          "servers were not ordered first" % (failures, trials))
    print("  peers.preferred as held by broker:", cfgval)
    print("  server longnames are:", type(got[0]).__name__,
          " preferred_peers entries are:", type(cfgval[0]).__name__)
    print("  preferred :", [p[3:11] for p in preferred])
    print("  got order :", [g[3:11] for g in got])
    print("  want order:", [w[3:11] for w in want])
    sys.exit(1)
print("ok: preferred servers came first in all %d trials" % trials)
sys.exit(0)
