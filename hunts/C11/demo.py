"""
C11 demo: MutableFileNode.modify() retry reads a STALE version although its own
survey located a recoverable version with a higher sequence number.

Run:  PYTHONPATH=/tmp/wt/C11h/src:/tmp/shims /venv/bin/python demo.py
Exit 1 = violation observed, 0 = not observed.

Real code exercised: MutableFileNode / MutableFileVersion / ServermapUpdater /
Retrieve / Publish against real StorageServer instances (temp dirs).  Only the
foolscap wire is faked (callRemote -> remote_<name>, answered in a later turn of
foolscap's eventual-send queue, which we pump by hand instead of running the
reactor).
"""
import os, sys, struct, shutil, tempfile, hashlib
from twisted.internet import defer
from twisted.python import failure
import allmydata.util.cputhreadpool as ctp
ctp._DISABLED = True
from foolscap.eventual import _theSimpleQueue
from foolscap.api import fireEventually
from allmydata.storage.server import StorageServer, FoolscapStorageServer
from allmydata.storage_client import _StorageServer
from allmydata.mutable import filenode as fmod, retrieve as rmod
from allmydata.mutable.filenode import MutableFileNode
from allmydata.mutable.publish import MutableData
from allmydata.crypto import rsa
from allmydata.util import hashutil
from allmydata.interfaces import SDMF_VERSION

def pump():
    while _theSimpleQueue._events:
        _theSimpleQueue._turn()

def wait(d):
    res = []
    d.addBoth(res.append)
    pump()
    assert res, "deferred did not fire"
    if isinstance(res[0], failure.Failure):
        res[0].raiseException()
    return res[0]

class Rref:
    def __init__(self, fss): self.fss = fss
    def callRemote(self, name, *a, **kw):
        d = fireEventually()
        d.addCallback(lambda ign: getattr(self.fss, "remote_" + name)(*a, **kw))
        return d

class Server:
    def __init__(self, i, basedir):
        self.i = i
        self.serverid = hashlib.sha1(b"srv%d" % i).digest()
        self.fss = FoolscapStorageServer(
            StorageServer(os.path.join(basedir, "s%d" % i), self.serverid))
        self.rref = Rref(self.fss)
        self.istorage = _StorageServer(get_rref=lambda: self.rref)
        self.available = True
    def get_storage_server(self): return self.istorage
    def get_serverid(self): return self.serverid
    def get_name(self): return b"s%d" % self.i
    def get_lease_seed(self): return self.serverid
    def get_foolscap_write_enabler_seed(self): return self.serverid
    def upload_permitted(self): return True

class Broker:  # permuted order == index order, only available servers listed
    def __init__(self, servers): self.servers = servers
    def get_servers_for_psi(self, si):
        return [s for s in self.servers if s.available]

class Secrets:
    def get_renewal_secret(self): return hashutil.my_renewal_secret_hash(b"x")
    def get_cancel_secret(self): return hashutil.my_cancel_secret_hash(b"x")

basedir = tempfile.mkdtemp(prefix="c11demo")
servers = [Server(i, basedir) for i in range(23)]
broker = Broker(servers)
PARAMS = {"k": 3, "n": 10}

def seqnums(si):
    out = {}
    for s in servers:
        r = s.fss.remote_slot_readv(si, [], [(0, 9)])
        if r:
            out[s.i] = {sh: struct.unpack(">BQ", v[0])[1] for sh, v in r.items()}
    return out

# --- instrumentation (observes only): which version does every Retrieve fetch,
# and what did the servermap it was handed contain?
observations = []
_orig_init = rmod.Retrieve.__init__
def _init(self, node, sb, servermap, verinfo, *a, **kw):
    best = servermap.best_recoverable_version()
    observations.append((verinfo[0], best[0] if best else None,
                         servermap.summarize_versions()))
    _orig_init(self, node, sb, servermap, verinfo, *a, **kw)
rmod.Retrieve.__init__ = _init

try:
    # 1. version 1 is created while servers 7..19 are unavailable: its ten
    #    shares land on s0-s6 and s20-s22.
    for s in servers:
        s.available = (s.i <= 6 or s.i >= 20)
    A = MutableFileNode(broker, Secrets(), PARAMS, None)
    priv, pub = rsa.create_signing_keypair(2048)
    wait(A.create_with_keys((pub, priv), b"v1", version=SDMF_VERSION))
    for s in servers:
        s.available = True          # everybody is available from now on
    si = A.get_storage_index()
    print("after create      :", seqnums(si))

    # a second writer holding the same write cap
    B = MutableFileNode(broker, Secrets(), PARAMS, None).init_from_cap(A.get_cap())

    # 2. A.modify(); between A's read and A's publish, B publishes version 2
    #    (uncoordinated write).  A's publish gets UncoordinatedWriteError and
    #    modify() retries, as designed.
    calls = []
    def modifier(old, servermap, first_time):
        calls.append((old, first_time, servermap.summarize_versions()))
        if first_time:
            wait(B.overwrite(MutableData(b"v2-by-B")))
            print("after B's publish :", seqnums(si))
        return old + b"+A"
    wait(A.modify(modifier, backoffer=lambda node, f: None))   # retry at once
    print("after A.modify()  :", seqnums(si))
    for c in calls:
        print("modifier call: old=%r first_time=%r servermap=%s" % c)
    for o in observations:
        print("Retrieve fetched seq %s; best recoverable in its servermap: seq %s  [%s]" % o)

    R = MutableFileNode(broker, Secrets(), PARAMS, None).init_from_cap(
        A.get_cap().get_readonly())
    final = wait(R.download_best_version())
    print("final contents    : %r" % final)

    bad = [o for o in observations if o[1] is not None and o[0] < o[1]]
    if bad:
        print("VIOLATION: a read fetched seq %d although its survey had located "
              "recoverable seq %d (%s); B's version was silently discarded "
              "(final contents %r do not derive from %r)"
              % (bad[0][0], bad[0][1], bad[0][2], final, b"v2-by-B"))
        sys.exit(1)
    print("no violation observed")
    sys.exit(0)
finally:
    shutil.rmtree(basedir, ignore_errors=True)
