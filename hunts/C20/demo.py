"""C20 hunt demo: an only-files add replaces a directory (and must_be_file delete removes one)
when the gateway has that directory on its access blacklist.

Real code exercised: allmydata.dirnode (DirectoryNode, Adder, Deleter, ONLY_FILES),
allmydata.nodemaker.NodeMaker, allmydata.blacklist (Blacklist, ProhibitedNode), allmydata.uri.
Only the mutable-file backing store is an in-memory fake (read/modify of one bytestring).

Run: PYTHONPATH=/tmp/wt/C20h/src:/tmp/shims /venv/bin/python demo.py   (exit 1 = violation)
"""
import os, sys, tempfile
from zope.interface import implementer
from twisted.internet import defer
from twisted.python.failure import Failure
from allmydata.util import cputhreadpool
cputhreadpool._DISABLED = True
from allmydata import uri
from allmydata.util import base32
from allmydata.interfaces import (IMutableFileNode, IDirectoryNode,
                                  ExistingChildError, ChildOfWrongTypeError)
from allmydata.nodemaker import NodeMaker
from allmydata.blacklist import Blacklist
from allmydata.dirnode import ONLY_FILES

STORE = {}

@implementer(IMutableFileNode)
class FakeMutable:
    """Smallest possible stand-in for MutableFileNode: one bytestring per storage index."""
    def __init__(self, cap):
        self.cap = cap; self.si = cap.get_storage_index()
    def get_cap(self): return self.cap
    def get_readcap(self): return self.cap.get_readonly()
    def get_uri(self): return self.cap.to_string()
    def get_write_uri(self): return None if self.cap.is_readonly() else self.cap.to_string()
    def get_readonly_uri(self): return self.cap.get_readonly().to_string()
    def get_verify_cap(self): return self.cap.get_verify_cap()
    def get_repair_cap(self): return None
    def is_readonly(self): return self.cap.is_readonly()
    def is_mutable(self): return True
    def is_unknown(self): return False
    def is_allowed_in_immutable_directory(self): return False
    def raise_error(self): pass
    def get_writekey(self): return None if self.cap.is_readonly() else self.cap.writekey
    def get_storage_index(self): return self.si
    def get_size(self): return len(STORE[self.si])
    def download_best_version(self): return defer.succeed(STORE[self.si])
    def modify(self, modifier, backoffer=None):
        try:
            new = modifier(STORE[self.si], None, True)
            if new is not None:
                STORE[self.si] = new
            return defer.succeed(None)
        except Exception:
            return defer.fail(Failure())

class NM(NodeMaker):
    def _create_mutable(self, cap):
        return FakeMutable(cap)
    def create_mutable_file(self, contents=None, version=None, keypair=None):
        n = FakeMutable(uri.WriteableSSKFileURI(os.urandom(16), os.urandom(32)))
        c = contents(n)
        STORE[n.si] = b"".join(c.read(c.get_size()))
        return defer.succeed(n)

def result(d):
    out = []; d.addBoth(out.append); assert out; return out[0]

def kind(node):
    return "directory" if IDirectoryNode.providedBy(node) else type(node).__name__

def scenario(blacklisted):
    nm = NM(None, None, None, None, None, {"k": 3, "n": 10}, None, None)
    parent = result(nm.create_new_mutable_directory())
    sub = result(parent.create_subdirectory(u"sub"))           # a real directory child
    result(sub.set_uri(u"precious", uri.LiteralFileURI(b"data").to_string(), None))
    subcap = sub.get_uri()
    if blacklisted:
        fn = os.path.join(tempfile.mkdtemp(), "access.blacklist")
        with open(fn, "wb") as f:
            f.write(base32.b2a(sub.get_storage_index()) + b" off limits on this gateway\n")
        nm.blacklist = Blacklist(fn)
    lit = uri.LiteralFileURI(b"a small file").to_string()
    problems = []

    # 1. only-files add over the directory
    r = result(parent.set_uri(u"sub", lit, None, overwrite=ONLY_FILES))
    now = result(parent.get(u"sub"))
    if isinstance(r, Failure) and r.check(ExistingChildError) and now.get_uri() == subcap:
        print("  only-files add over 'sub': refused (ExistingChildError), directory still linked")
    else:
        print("  only-files add over 'sub': ACCEPTED; 'sub' is now %r (was directory %r)"
              % (now.get_uri(), subcap))
        problems.append("only-files add replaced a directory")
        result(parent.set_uri(u"sub", subcap, None, overwrite=True))  # put it back for step 2

    # 2. delete(must_be_file=True) on the directory
    r = result(parent.delete(u"sub", must_be_file=True))
    still = result(parent.has_child(u"sub"))
    if isinstance(r, Failure) and r.check(ChildOfWrongTypeError) and still:
        print("  delete(must_be_file) of 'sub': refused (ChildOfWrongTypeError)")
    else:
        print("  delete(must_be_file) of 'sub': ACCEPTED; directory unlinked (has_child=%r)" % still)
        problems.append("must_be_file delete removed a directory")
        result(parent.set_uri(u"sub", subcap, None, overwrite=True))

    # 3. delete(must_be_directory=True) on the directory
    r = result(parent.delete(u"sub", must_be_directory=True))
    if isinstance(r, Failure):
        print("  delete(must_be_directory) of 'sub': REFUSED: %s" % (r.value,))
        problems.append("must_be_directory delete refused a directory")
    else:
        print("  delete(must_be_directory) of 'sub': ok")
    return problems

print("control (no blacklist):")
p0 = scenario(False)
print("same directory on the gateway's access.blacklist:")
p1 = scenario(True)
if p0:
    print("UNEXPECTED: control failed:", p0); sys.exit(2)
if p1:
    print("VIOLATION of C20:", "; ".join(p1)); sys.exit(1)
print("no violation"); sys.exit(0)
