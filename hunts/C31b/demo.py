"""
C31: HTTP and direct storage access disagree on slot_readv() with an empty
read vector: the HTTP path reports every share number that was *asked for* as
present (with an empty data list), the direct path reports only the shares the
server really holds.

Run:  PYTHONPATH=/tmp/wt/C31h/src:/tmp/shims /venv/bin/python demo.py
Exits 1 when the two paths disagree, 0 otherwise.
"""
import sys, tempfile, shutil

from allmydata.util import cputhreadpool
cputhreadpool._DISABLED = True   # pycddl/cbor helpers run synchronously

from twisted.internet import defer, task
from twisted.internet.task import Clock
from twisted.internet.testing import MemoryReactorClock
from twisted.python.failure import Failure
from foolscap.api import Referenceable
from hyperlink import DecodedURL
from treq.testing import StubTreq

from allmydata.storage.server import StorageServer, FoolscapStorageServer
from allmydata.storage.http_server import HTTPServer
from allmydata.storage.http_client import StorageClient
from allmydata.storage_client import _HTTPStorageServer, _StorageServer

SWISS = b"swissnum"


class Reactor(MemoryReactorClock):
    def callFromThread(self, f, *a, **kw):
        self.callLater(0, f, *a, **kw)


class LocalRef:
    """In-memory RemoteReference: callRemote(x) -> remote_x on the real object."""
    def __init__(self, obj):
        self.obj = obj

    def callRemote(self, name, *args, **kwargs):
        try:
            return defer.succeed(getattr(self.obj, "remote_" + name)(*args, **kwargs))
        except Exception:
            return defer.fail(Failure())


class Direct:
    """IStorageServer -> (fake rref) -> FoolscapStorageServer -> StorageServer"""
    def __init__(self, basedir):
        self.ss = StorageServer(basedir, b"\x00" * 20, clock=Clock())
        fss = FoolscapStorageServer(self.ss)
        self.server = _StorageServer(lambda: LocalRef(fss))

    def run(self, d):
        out = []
        d.addBoth(out.append)
        return out[0]


class Http:
    """IStorageServer -> real HTTP client -> (in-memory) -> real HTTPServer -> StorageServer"""
    def __init__(self, basedir):
        self.clock = Reactor()
        # pull producers on the HTTP channel are driven by the global
        # cooperator; run it from the fake clock instead of the real reactor.
        task._theCooperator = task.Cooperator(
            scheduler=lambda f: self.clock.callLater(0, f))
        self.ss = StorageServer(basedir, b"\x00" * 20, clock=self.clock)
        self.treq = StubTreq(HTTPServer(self.clock, self.ss, SWISS).get_resource())
        client = StorageClient(DecodedURL.from_text("http://127.0.0.1"), SWISS,
                               treq=self.treq, pool=None, clock=self.clock)
        self.server = _HTTPStorageServer.from_http_client(client)

    def run(self, d):
        out = []
        d.addBoth(out.append)
        for _ in range(100):
            if out:
                break
            self.treq.flush()
            self.clock.advance(0.001)
        return out[0]


def show(r):
    if isinstance(r, Failure):
        return "ERROR %s" % (r.type.__name__,)
    if isinstance(r, dict):
        return {k: list(v) for k, v in r.items()}
    return r


def main():
    dirs = [tempfile.mkdtemp(), tempfile.mkdtemp()]
    A, B = Direct(dirs[0]), Http(dirs[1])
    si = b"\x65" * 16          # holds mutable share 1 only
    empty_si = b"\x77" * 16    # nothing stored under it at all
    secrets = (b"w" * 32, b"r" * 32, b"c" * 32)
    bad = []
    try:
        # identical history on both twins: create mutable share 1
        for S in (A, B):
            r = S.run(S.server.slot_testv_and_readv_and_writev(
                si, secrets, {1: ([], [(0, b"hello world")], None)}, []))
            assert show(r) == (True, {}), r

        checks = [
            # sanity: a normal read agrees (share 7 does not exist)
            ("slot_readv(si, [1, 7], [(0, 5)])", si, [1, 7], [(0, 5)]),
            # the violation: empty read vector
            ("slot_readv(si, [1, 7], [])", si, [1, 7], []),
            ("slot_readv(empty_si, [3], [])", empty_si, [3], []),
            # (asking for all shares with an empty vector agrees)
            ("slot_readv(si, [], [])", si, [], []),
        ]
        for (label, s, shares, readv) in checks:
            ra = show(A.run(A.server.slot_readv(s, shares, readv)))
            rb = show(B.run(B.server.slot_readv(s, shares, readv)))
            same = (ra == rb)
            print("%-36s direct=%-22r http=%-22r %s" % (
                label, ra, rb, "same" if same else "DIFFERENT"))
            if not same:
                bad.append(label)
    finally:
        for d in dirs:
            shutil.rmtree(d, ignore_errors=True)
    if bad:
        print("VIOLATION of C31: HTTP slot_readv reports shares the server "
              "does not hold: %s" % (bad,))
        return 1
    print("no difference")
    return 0


if __name__ == "__main__":
    sys.exit(main())
