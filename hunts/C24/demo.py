"""
C24 demo: a read-test-write request that fails part-way (oversized write
vector -> DataTooLargeError) leaves the earlier writes of the same request
applied: neither "all" nor "none".
Run: PYTHONPATH=/tmp/wt/C24h/src:/tmp/shims /venv/bin/python demo.py
"""
import sys, tempfile, shutil, random
from allmydata.storage.server import StorageServer, FoolscapStorageServer
from allmydata.storage.mutable import MutableShareFile
from allmydata.interfaces import DataTooLargeError

MAX = MutableShareFile.MAX_SIZE
SI = b"s" * 16
WE, RS, CS = b"w" * 32, b"r" * 32, b"c" * 32
SECRETS = (WE, RS, CS)
WHOLE = [(0, 10**6)]

tmp = tempfile.mkdtemp()
problems = []
try:
    ss = StorageServer(tmp, b"n" * 20)
    fss = FoolscapStorageServer(ss)
    rtw = fss.remote_slot_testv_and_readv_and_writev

    def state():
        return ss.slot_readv(SI, [], WHOLE)

    # set up two existing shares
    ok, _ = rtw(SI, SECRETS, {0: ([], [(0, b"old-zero")], None),
                              1: ([], [(0, b"old-one!")], None)}, [])
    assert ok
    before = state()
    assert before == {0: [b"old-zero"], 1: [b"old-one!"]}, before

    # --- case A: three shares named; the second one's write is too large ---
    # All tests pass (share 0's test matches), enabler is right.
    req = {0: ([(0, 8, b"eq", b"old-zero")], [(0, b"NEW")], None),
           1: ([], [(MAX, b"x")], None),          # offset is a legal uint64
           2: ([], [(0, b"brand-new")], None)}
    try:
        res = rtw(SI, SECRETS, req, WHOLE)
        outcome = "returned %r" % (res,)
    except DataTooLargeError:
        outcome = "raised DataTooLargeError"
    after = state()
    all_applied = (after.get(0) == [b"NEWzero"[:3] + b"-zero"] and 2 in after
                   and after.get(1) != before[1])
    none_applied = (after == before)
    print("case A:", outcome)
    print("  before:", before)
    print("  after: ", after)
    if not (all_applied or none_applied):
        problems.append("A: request %s but share 0 was rewritten while share 1 "
                        "is unchanged and share 2 was never created" % outcome)

    # --- case B: one share, two write vectors, the 2nd too large -----------
    b4 = state()
    try:
        rtw(SI, SECRETS, {1: ([], [(0, b"PART"), (MAX - 1, b"yz")], None)}, [])
        outcome = "returned"
    except DataTooLargeError:
        outcome = "raised DataTooLargeError"
    aft = state()
    print("case B:", outcome, "share1 before", b4[1], "after", aft[1])
    if outcome != "returned" and aft != b4:
        problems.append("B: failed request half-applied inside one share: %r -> %r"
                        % (b4[1], aft[1]))

    # --- case C: failed request still creates a (empty) new share ----------
    b4 = state()
    try:
        rtw(SI, SECRETS, {7: ([], [(MAX + 5, b"q")], None)}, [])
        outcome = "returned"
    except DataTooLargeError:
        outcome = "raised DataTooLargeError"
    aft = state()
    print("case C:", outcome, "shares before", sorted(b4), "after", sorted(aft))
    if outcome != "returned" and sorted(aft) != sorted(b4):
        problems.append("C: failed request left new share(s) %r behind"
                        % (sorted(set(aft) - set(b4)),))

    # --- randomized: random multi-share requests with one oversized write --
    rnd = random.Random(24)
    bad = 0
    for i in range(200):
        si = bytes([rnd.randrange(256) for _ in range(16)])
        existing = rnd.sample(range(6), rnd.randrange(0, 4))
        if existing:
            rtw(si, SECRETS, {n: ([], [(0, b"E%d" % n * 4)], None) for n in existing}, [])
        named = rnd.sample(range(6), rnd.randrange(2, 6))
        victim = rnd.choice(named)
        tw = {}
        for n in named:
            wv = [(rnd.randrange(0, 20), bytes([65 + n]) * rnd.randrange(1, 9))
                  for _ in range(rnd.randrange(1, 3))]
            if n == victim:
                wv.insert(rnd.randrange(len(wv) + 1), (rnd.randrange(MAX, 2**64 - 8), b"!"))
            tw[n] = ([], wv, None)
        b4 = ss.slot_readv(si, [], WHOLE)
        try:
            rtw(si, SECRETS, tw, WHOLE)
            continue
        except DataTooLargeError:
            pass
        if ss.slot_readv(si, [], WHOLE) != b4:
            bad += 1
    print("random: %d/200 failed requests left a partial change" % bad)
    if bad:
        problems.append("random: %d/200 failed requests were partially applied" % bad)
finally:
    shutil.rmtree(tmp, ignore_errors=True)

if problems:
    print("VIOLATION of C24 (all-or-none):")
    for p in problems:
        print("  -", p)
    sys.exit(1)
print("no violation")
sys.exit(0)
