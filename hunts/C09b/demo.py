"""
C09 demo: an MDMF in-place update merges the old boundary segments into the
new version WITHOUT validating the blocks it fetched for them.  One flipped
byte in ONE share (a fault every normal read detects and routes around) is
thereby absorbed into the plaintext, re-encoded into all N shares and signed:
after a *successful* update the file reads back with bytes changed that the
update never wrote.

Run:  PYTHONPATH=/tmp/wt/C09h/src:/tmp/shims /venv/bin/python demo.py
exit 1 = violation observed, exit 0 = not observed.
"""
import os, sys, tempfile, shutil
import allmydata.util.cputhreadpool as c
c._DISABLED = True
from twisted.internet import defer, task
from twisted.python import failure
from foolscap.api import fireEventually, eventually
from allmydata import client
from allmydata.nodemaker import NodeMaker
from allmydata.node import config_from_string
from allmydata.storage_client import StorageFarmBroker
from allmydata.storage.server import StorageServer, FoolscapStorageServer
from allmydata.storage.mutable import MutableShareFile
from allmydata.interfaces import MDMF_VERSION
from allmydata.util import base32
from allmydata.util.hashutil import tagged_hash
from allmydata.mutable.publish import MutableData

class LocalRef:
    """Stand-in for a foolscap RemoteReference to one real storage server."""
    def __init__(self, fss, grid):
        self.fss, self.grid = fss, grid
    def callRemote(self, name, *args, **kw):
        d = defer.Deferred()
        def _do():
            try:
                res = getattr(self.fss, "remote_" + name)(*args, **kw)
            except Exception:
                d.errback(failure.Failure()); return
            d.callback(res)
        self.grid.schedule(self, _do)
        return d
    def callRemoteOnly(self, name, *a, **kw):
        self.callRemote(name, *a, **kw).addErrback(lambda f: None)

class Grid:
    """10 real StorageServers on temp dirs.  Answers are delivered a few
    turns later; the server in self.first (if any) answers first -- a legal
    response ordering."""
    def __init__(self, num_servers=10, k=3, n=10):
        self.base = tempfile.mkdtemp(prefix="c09h")
        self.pending, self.first, self.dirs = [], None, {}
        sb = StorageFarmBroker(True, None, config_from_string("/dev/null", "tub.port", ""))
        for i in range(num_servers):
            peerid = base32.b2a(tagged_hash(b"peerid", b"%d" % i)[:20])
            d = os.path.join(self.base, "s%d" % i)
            ref = LocalRef(FoolscapStorageServer(StorageServer(d, b"x" * 20)), self)
            self.dirs[d] = ref
            sb.test_add_rref(peerid, ref, {
                "anonymous-storage-FURL": "pb://%s@nowhere/fake" % str(peerid, "ascii"),
                "permutation-seed-base32": peerid})
        sh = client.SecretHolder(b"lease secret", b"convergence secret")
        self.keygen = client.KeyGenerator()
        self.nm = NodeMaker(sb, sh, None, None, None, {"k": k, "n": n},
                            MDMF_VERSION, self.keygen)
    def schedule(self, ref, f):
        self.pending.append((ref, f))
        if len(self.pending) == 1:
            d = fireEventually(); d.addCallback(fireEventually); d.addCallback(fireEventually)
            d.addCallback(lambda _: self._release())
    def _release(self):
        p, self.pending = self.pending, []
        p.sort(key=lambda rf: 0 if rf[0] is self.first else 1)   # stable
        for (ref, f) in p:
            eventually(f)
    def find_share(self, shnum):
        for d, ref in self.dirs.items():
            for root, _, files in os.walk(d):
                if str(shnum) in files and "shares" in root:
                    return os.path.join(root, str(shnum)), ref
        raise KeyError(shnum)

SEGSIZE = 131073          # 128 KiB rounded up to a multiple of k=3
SHARE_DATA = 123 + 1220 + 260 + 292 + 34 * 8   # MDMF: fixed offset of block 0

async def main():
    g = Grid()
    original = os.urandom(300000)                 # 3 MDMF segments
    node = await g.nm.create_mutable_file(MutableData(original), version=MDMF_VERSION)
    assert await node.download_best_version() == original

    # FAULT: flip one byte of ONE share (share 0), inside its block of segment 0.
    path, ref = g.find_share(0)
    pos = MutableShareFile.DATA_OFFSET + SHARE_DATA + 16 + 1000   # salt is 16 bytes
    with open(path, "r+b") as f:
        f.seek(pos); b = f.read(1); f.seek(pos); f.write(bytes([b[0] ^ 0x01]))
    g.first = ref        # response ordering: this server is the quickest to answer

    # Reads are not fooled: the bad block fails its hash and another share is used.
    before = await node.download_best_version()
    print("read before the update is correct:", before == original)
    assert before == original

    # One in-place update: 10 bytes at offset 50000 (inside segment 0).
    new = b"N" * 10
    mv = await node.get_best_mutable_version()
    await mv.update(MutableData(new), 50000)
    print("update reported success")
    expected = original[:50000] + new + original[50010:]

    got = await g.nm.create_from_cap(node.get_uri()).download_best_version()
    g_len_ok = len(got) == len(expected)
    diffs = [i for i in range(min(len(got), len(expected))) if got[i] != expected[i]]
    shutil.rmtree(g.base, ignore_errors=True)
    if got != expected:
        print("VIOLATION: after a successful update of bytes [50000,50010) the file "
              "differs from the model at %d other byte(s), first at offset %d "
              "(length ok: %s)" % (len(diffs), diffs[0] if diffs else -1, g_len_ok))
        print("  model byte %r, file byte %r -- a byte the update never wrote; the"
              % (expected[diffs[0]:diffs[0]+1], got[diffs[0]:diffs[0]+1]))
        print("  corruption of one share is now part of the signed version on every share")
        return 1
    print("no violation observed")
    return 0

def _m(reactor):
    d = defer.ensureDeferred(main())
    d.addTimeout(55, reactor)
    d.addCallback(lambda rc: os._exit(rc))   # leave with the result code
    return d
task.react(_m)
