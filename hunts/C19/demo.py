"""C19 hunt demo: a URI:CHK-Verifier child neither round-trips through
pack_children/_unpack_contents nor is refused with a CapConstraintError, and
one such entry makes a whole immutable directory unreadable.  Every other
verify-cap kind round-trips fine (as an UnknownNode).

Run: PYTHONPATH=/tmp/wt/C19h/src:/tmp/shims /venv/bin/python demo.py
Exits 1 when the violation occurs, 0 otherwise.
"""
import sys
from allmydata.util import cputhreadpool
cputhreadpool._DISABLED = True
from allmydata import uri
from allmydata.nodemaker import NodeMaker
from allmydata.dirnode import DirectoryNode, pack_children
from allmydata.interfaces import CapConstraintError
from allmydata.util.netstring import netstring

nm = NodeMaker(None, None, None, None, None, {"k": 3, "n": 10}, None, None)

def mutable_dir():
    fn = nm._create_mutable(uri.WriteableSSKFileURI(b"\x01" * 16, b"\x02" * 32))
    return DirectoryNode(fn, nm, None)

def immutable_dir():
    fn = nm._create_immutable(uri.CHKFileURI(b"\x03" * 16, b"\x04" * 32, 3, 10, 1234))
    return DirectoryNode(fn, nm, None)

chk = uri.CHKFileURI(b"\x05" * 16, b"\x06" * 32, 3, 10, 99)
ssk = uri.WriteableSSKFileURI(b"\x07" * 16, b"\x08" * 32)
mdmf = uri.WriteableMDMFFileURI(b"\x09" * 16, b"\x0a" * 32)
verify_caps = [
    ("SSK-Verifier", ssk.get_verify_cap()),
    ("MDMF-Verifier", mdmf.get_verify_cap()),
    ("DIR2-Verifier", uri.DirectoryURI(ssk).get_verify_cap()),
    ("DIR2-CHK-Verifier", uri.ImmutableDirectoryURI(chk).get_verify_cap()),
    ("DIR2-MDMF-Verifier", uri.MDMFDirectoryURI(mdmf).get_verify_cap()),
    ("CHK-Verifier", chk.get_verify_cap()),
]
lit = uri.LiteralFileURI(b"hello").to_string()
NAME = "résumé"          # changes under NFC
META = {"k": [1, {"n": None}], "é": "v"}

failures = []

def roundtrip(kind, cap, immutable):
    where = "immutable" if immutable else "mutable"
    d = immutable_dir() if immutable else mutable_dir()
    # exactly what web/common.py convert_children_json and DirectoryNode.set_uri do:
    node = nm.create_from_cap(None, cap, name=NAME)
    kids = {NAME: (node, META), "other": (nm.create_from_cap(lit), {})}
    try:
        packed = pack_children(kids, None if immutable else d._node.get_writekey(),
                               deep_immutable=immutable)
    except CapConstraintError as e:
        print("  %-18s %-9s cleanly refused: %s" % (kind, where, type(e).__name__))
        return
    except Exception as e:
        msg = "%s in %s dir: pack_children raised %s: %s" % (kind, where, type(e).__name__, e)
        print("  VIOLATION " + msg)
        failures.append(msg)
        return
    got = d._unpack_contents(packed)
    names = sorted(got)
    child, md = got["résumé"]
    ok = (len(names) == 2 and md == META and child.get_readonly_uri().endswith(cap))
    print("  %-18s %-9s round-trips as %s %r..." % (kind, where, type(child).__name__,
                                                    child.get_readonly_uri()[:24]))
    if not ok:
        failures.append("%s in %s dir: round trip changed the child" % (kind, where))

print("1. pack/unpack round trip of each verify-cap kind, given in the ro_uri slot")
for kind, cap in verify_caps:
    for immutable in (False, True):
        roundtrip(kind, cap.to_string(), immutable)

print("2. DirectoryNode.set_uri(name, None, <CHK-Verifier>) on a mutable dirnode")
try:
    mutable_dir().set_uri("v", None, chk.get_verify_cap().to_string())
    print("  (got as far as the network write: no local failure)")
except CapConstraintError as e:
    print("  cleanly refused:", type(e).__name__)
except AssertionError as e:
    msg = "set_uri with a CHK-Verifier cap dies with AssertionError (precondition), not a CapConstraintError"
    print("  VIOLATION " + msg)
    failures.append(msg)
except AttributeError as e:
    # _node.modify on a node without servers; means the child was accepted
    print("  (accepted; failed later for lack of a grid: %s)" % e)

print("3. unpacking stored contents that hold one CHK-Verifier entry and one good entry")
entry = lambda n, ro: netstring(netstring(n) + netstring(ro) + netstring(b"") + netstring(b"{}"))
data = entry(b"good", lit) + entry(b"v", chk.get_verify_cap().to_string())
for d in (mutable_dir(), immutable_dir()):
    try:
        got = d._unpack_contents(data)
        print("  %r lists %s" % (d, {k: type(v[0]).__name__ for k, v in got.items()}))
        if not d.is_mutable() and "good" not in got:
            failures.append("good sibling lost")
    except Exception as e:
        msg = "%r: whole directory unreadable: %s: %s" % (d, type(e).__name__, e)
        print("  VIOLATION " + msg)
        failures.append(msg)
# in the mutable dir the listed CiphertextFileNode cannot be re-packed once its
# cached entry is invalidated (e.g. by set_metadata_for):
d = mutable_dir()
got = d._unpack_contents(data)
got["v"] = (got["v"][0], {"touched": True})        # what MetadataSetter.modify does
try:
    d._pack_contents(got)
    print("  re-pack after touching the entry: ok")
except Exception as e:
    msg = "mutable dir: re-packing the listed CHK-Verifier child raises %s" % type(e).__name__
    print("  VIOLATION " + msg)
    failures.append(msg)

if failures:
    print("\nFAIL: C19 violated (%d symptom(s)); first: %s" % (len(failures), failures[0]))
    sys.exit(1)
print("\nOK: no violation")
sys.exit(0)
