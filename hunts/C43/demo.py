"""
C43 hunt demo: node / capability identity.

The five anchored classes (_BaseURI subclasses, ImmutableFileNode,
LiteralFileNode, MutableFileNode, DirectoryNode) are checked over all pairs
and must hold.  Then the remaining cap / node classes that the real
uri.from_string() / NodeMaker.create_from_cap() hand out are checked the same
way:  uri.UnknownURI, immutable.filenode.CiphertextFileNode, unknown.UnknownNode.

Exit 1 if any violation of
  (a == b) == (capstring(a) == capstring(b)),  (a != b) == not (a == b),
  a == b  =>  hash(a) == hash(b)   (and hash() must work at all)
is observed, else 0.
"""
import sys, random, itertools
from allmydata.util import cputhreadpool
cputhreadpool._DISABLED = True
from allmydata import uri
from allmydata.nodemaker import NodeMaker

rnd = random.Random(43)
def rb(n): return bytes(rnd.getrandbits(8) for _ in range(n))

def capstrings():
    k = rb(16); h = rb(32)
    chk = uri.CHKFileURI(k, h, 3, 10, rnd.randrange(1, 10**6))
    ssk = uri.WriteableSSKFileURI(k, h)
    mdmf = uri.WriteableMDMFFileURI(k, h)
    lit = uri.LiteralFileURI(rb(rnd.randrange(0, 20)))
    caps = [chk, chk.get_verify_cap(), lit,
            ssk, ssk.get_readonly(), ssk.get_verify_cap(),
            mdmf, mdmf.get_readonly(), mdmf.get_verify_cap(),
            uri.DirectoryURI(ssk), uri.ReadonlyDirectoryURI(ssk.get_readonly()),
            uri.DirectoryURI(ssk).get_verify_cap(),
            uri.ImmutableDirectoryURI(chk), uri.ImmutableDirectoryURI(chk).get_verify_cap(),
            uri.LiteralDirectoryURI(lit),
            uri.MDMFDirectoryURI(mdmf), uri.ReadonlyMDMFDirectoryURI(mdmf.get_readonly()),
            uri.MDMFDirectoryURI(mdmf).get_verify_cap()]
    return [c.to_string() for c in caps]

KNOWN = capstrings() + capstrings()
# caps of a kind this version does not know (legal: see ticket #833, UnknownNode)
FUTURE = [b"ro.x-tahoe-future:abc", b"ro.x-tahoe-future:def", b"imm.x-tahoe-future:abc"]

class SB:
    def get_connected_servers(self): return []
class SH:
    def get_convergence_secret(self): return b"x" * 16
    def get_renewal_secret(self): return b"r" * 32
    def get_cancel_secret(self): return b"c" * 32
def nodemaker():
    return NodeMaker(SB(), SH(), None, None, None, {"k": 3, "n": 10}, None, None)

violations = {}   # (kind, classname, what) -> first example
def note(kind, a, what, example):
    key = (kind, type(a).__name__, what)
    if key not in violations or violations[key][0] is None:
        violations[key] = example

def check(kind, a, b, sa, sb):
    expect = (sa == sb)
    eq = (a == b)
    if eq != expect:
        note(kind, a, "== is %r but cap strings %s" % (eq, "equal" if expect else "differ"), (sa, sb))
    if (a != b) != (not eq):
        note(kind, a, "!= is not the negation of ==", (sa, sb))
    hs = []
    for o, s in ((a, sa), (b, sb)):
        try:
            hs.append(hash(o))
        except TypeError as e:
            note(kind, o, "hash() raises TypeError: %s" % (e,), (s, s))
    if len(hs) == 2 and eq and hs[0] != hs[1]:
        note(kind, a, "equal objects hash differently", (sa, sb))

def nodestring(n):
    if hasattr(n, "get_uri"):
        return n.get_uri()
    return n.get_verify_cap().to_string()       # CiphertextFileNode

# 1. capability objects, as produced by the real parser
for sa, sb in itertools.product(KNOWN + FUTURE, repeat=2):
    a = uri.from_string(sa); b = uri.from_string(sb)
    check("cap", a, b, a.to_string(), b.to_string())

# 2. node objects, as produced by the real NodeMaker (one maker, two calls:
#    this is what e.g. two directory listings naming the same child do)
nm = nodemaker()
for sa, sb in itertools.product(KNOWN + FUTURE, repeat=2):
    a = nm.create_from_cap(sa); b = nm.create_from_cap(sb)
    check("node", a, b, nodestring(a), nodestring(b))

# 3. one single node, asked twice for its cap object
n = nm.create_from_cap(FUTURE[0])
c1, c2 = n.get_cap(), n.get_cap()
if c1.to_string() == c2.to_string() and (c1 != c2):
    note("cap", c1, "node.get_cap() != node.get_cap() for the same node", (c1.to_string(), c2.to_string()))

anchored = {"ImmutableFileNode", "LiteralFileNode", "MutableFileNode", "DirectoryNode"}
for (kind, cls, what), ex in sorted(violations.items()):
    tag = "ANCHORED " if (cls in anchored or (kind == "cap" and cls != "UnknownURI")) else ""
    print("VIOLATION %s[%s %s] %s\n    e.g. %r / %r" % (tag, kind, cls, what, ex[0] and ex[0][:40], ex[1] and ex[1][:40]))
if violations:
    print("C43 violated by %d (class, symptom) combinations" % len(violations))
    sys.exit(1)
print("no violation")
sys.exit(0)
