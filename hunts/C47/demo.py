"""C47 demo: a mutable publish reports success although (1) the new version is not
recoverable / (2) an unexpected version was seen in a server's answer.
Run: PYTHONPATH=/tmp/wt/C47h/src:/tmp/shims /venv/bin/python demo.py   (exit 1 = violation)"""
import os, sys, tempfile, shutil, hashlib
from allmydata.util import cputhreadpool
cputhreadpool._DISABLED = True
from twisted.internet import defer
from twisted.python import failure
from foolscap.eventual import _theSimpleQueue, fireEventually
from allmydata.storage.server import StorageServer, FoolscapStorageServer
from allmydata.storage_client import _StorageServer
from allmydata.mutable.filenode import MutableFileNode
from allmydata.mutable.publish import MutableData
from allmydata.mutable.common import MODE_WRITE, MODE_CHECK
from allmydata.interfaces import SDMF_VERSION, MDMF_VERSION
from allmydata.crypto import rsa
from allmydata.client import SecretHolder

def pump():
    while _theSimpleQueue._events:
        _theSimpleQueue._turn()

def wait(d):
    out = []
    d.addBoth(out.append)
    pump()
    return out[0] if out else "HANG"

class Lost(Exception):
    pass

class RRef:
    """stands in for a foolscap RemoteReference to a real StorageServer"""
    WRITE = "slot_testv_and_readv_and_writev"
    def __init__(self, fss):
        self.fss, self.write_mode, self.pending, self.acked, self.answers = fss, "ok", [], set(), []
    def callRemote(self, name, *args, **kw):
        if name == self.WRITE and self.write_mode == "lose":   # request never reaches the server
            return fireEventually().addCallback(lambda ign: failure.Failure(Lost("connection lost")))
        if name == self.WRITE and self.write_mode == "hold":   # the test decides when/how it is answered
            d = defer.Deferred()
            self.pending.append((list(args[2])[0], d, args))
            return d
        d = fireEventually()
        d.addCallback(lambda ign: getattr(self.fss, "remote_" + name)(*args, **kw))
        if name == self.WRITE:
            d.addCallback(self._ack, list(args[2])[0])
        return d
    def _ack(self, res, shnum):
        if res[0]: self.acked.add(shnum)
        return res
    def deliver(self, shnum, lose_answer=False):
        (sh, d, args) = [p for p in self.pending if p[0] == shnum][0]
        self.pending.remove((sh, d, args))
        res = self.fss.remote_slot_testv_and_readv_and_writev(*args)
        self.answers.append((shnum, res[0], dict((k, v[0][:9].hex()) for k, v in res[1].items())))
        if lose_answer: d.errback(Lost("connection lost"))
        else: d.callback(self._ack(res, shnum))
    def drop(self, shnum):
        (sh, d, args) = [p for p in self.pending if p[0] == shnum][0]
        self.pending.remove((sh, d, args)); d.errback(Lost("connection lost"))

class Server:
    def __init__(self, i, basedir):
        self.i, self.connected = i, True
        self.serverid = hashlib.sha1(b"server%d" % i).digest()
        self.rref = RRef(FoolscapStorageServer(StorageServer(os.path.join(basedir, "s%d" % i), self.serverid)))
        self.storage_server = _StorageServer(lambda: self.rref)
    def get_serverid(self): return self.serverid
    def get_name(self): return b"s%d" % self.i
    def get_longname(self): return b"server%d" % self.i
    def get_storage_server(self): return self.storage_server
    def get_lease_seed(self): return self.serverid
    def get_foolscap_write_enabler_seed(self): return self.serverid
    def upload_permitted(self): return True
    def __repr__(self): return "<s%d>" % self.i

class Grid:
    def __init__(self, n, k, N):
        self.basedir = tempfile.mkdtemp(prefix="c47h")
        self.servers = [Server(i, self.basedir) for i in range(n)]
        self.params = {"k": k, "n": N}
    def get_servers_for_psi(self, si):   # like StorageFarmBroker: connected servers, permuted
        return sorted([s for s in self.servers if s.connected],
                      key=lambda s: hashlib.sha1(si + s.serverid).digest())
    def node(self, cap=None):
        n = MutableFileNode(self, SecretHolder(b"lease", b"conv"), self.params, None)
        return n.init_from_cap(cap) if cap else n

PRIV, PUB = rsa.create_signing_keypair(2048)

def hybrid_update():
    """MDMF 3-of-10 on 10 servers; update() also rewrites stale shares of an older version"""
    g = Grid(10, 3, 10)
    A = g.node()
    assert wait(A.create_with_keys((PUB, PRIV), os.urandom(300000), version=MDMF_VERSION)) is None
    for s in g.servers[3:]: s.connected = False              # 7 servers leave the grid
    c2 = os.urandom(300000)
    assert wait(A.overwrite(MutableData(c2))) is None        # seq2 lives on s0,s1,s2 only
    for s in g.servers: s.connected = True                   # they come back, holding seq1 shares
    mv = wait(A.get_best_mutable_version())
    for s in g.servers[:3]: s.rref.write_mode = "lose"       # writes to the seq2 holders fail
    res = wait(mv.update(MutableData(b"0123456789"), 5))     # in-place update of segment 0 -> seq3
    acked = set().union(*[s.rref.acked for s in g.servers[3:]])
    for s in g.servers: s.rref.write_mode = "ok"
    print("  update result: %r; shnums acknowledged for seq3: %s" % (res, sorted(acked)))
    B = g.node(A.get_cap())
    sm = wait(B.get_servermap(MODE_CHECK))
    best = sm.best_recoverable_version()
    print("  servermap says best recoverable version is seq%d (%s)" % (best[0], sm.summarize_versions()))
    got = wait(wait(B.get_readable_version(servermap=sm, version=best, mode=MODE_CHECK)).download_to_data())
    expected = c2[:5] + b"0123456789" + c2[15:]
    print("  download of seq%d: %s" % (best[0], "ok" if got == expected else repr(got)[:160]))
    got2 = wait(g.node(A.get_cap()).download_best_version())
    print("  download_best_version: %s" % ("ok" if got2 in (expected, c2) else repr(got2)[:120]))
    shutil.rmtree(g.basedir, ignore_errors=True)
    return res is None and got != expected

def ordering(version, order):
    """5 servers, 3-of-10: every server gets two writes.  A competing writer replaced one share."""
    g = Grid(5, 3, 10)
    A = g.node()
    assert wait(A.create_with_keys((PUB, PRIV), b"version one " * 10, version=version)) is None
    smA = wait(A.get_servermap(MODE_WRITE))                  # A believes every share is seq1
    X = g.servers[0]
    sh_a, sh_b = sorted(sh for (srv, sh) in smA.get_known_shares() if srv is X)[:2]
    B = g.node(A.get_cap())                                  # uncoordinated second writer
    smB = wait(B.get_servermap(MODE_WRITE))
    for s in g.servers: s.rref.write_mode = "hold"
    outB = []; B.upload(MutableData(b"competing version"), smB).addBoth(outB.append); pump()
    for s in g.servers:
        for (sh, d, args) in list(s.rref.pending):
            if s is X and sh == sh_a: s.rref.deliver(sh)     # only this one write of B arrives
            else: s.rref.drop(sh)
    pump()
    outA = []; A.upload(MutableData(b"A's second version"), smA).addBoth(outA.append); pump()
    for s in g.servers[1:]:
        for (sh, d, args) in list(s.rref.pending): s.rref.deliver(sh)
    if order == "answer-first":
        X.rref.deliver(sh_b); pump(); X.rref.deliver(sh_a, lose_answer=True)
    else:
        X.rref.deliver(sh_a, lose_answer=True); pump(); X.rref.deliver(sh_b)
    pump()
    res = outA[0] if outA else "HANG"
    seen = [a for a in X.rref.answers if a[0] == sh_b][-1]
    print("  %s %-13s answer to A's write of sh%d on X: wrote=%s checkstrings=%s -> publish result: %s"
          % ("SDMF" if version == SDMF_VERSION else "MDMF", order, sh_b, seen[1], seen[2],
             "SUCCESS" if res is None else res.value.__class__.__name__))
    shutil.rmtree(g.basedir, ignore_errors=True)
    return res is None

bad = []
print("scenario 1: in-place update whose only acknowledged shares are rewritten stale-version shares")
if hybrid_update():
    bad.append("update() reported success but the version it published cannot be downloaded")
print("scenario 2: same answers, two orderings (sh_a of X holds seq2 of a competing writer)")
for v in (SDMF_VERSION, MDMF_VERSION):
    r = [ordering(v, o) for o in ("answer-first", "failure-first")]
    if r[0]:
        bad.append("publish reported success although a server's answer showed an unexpected version "
                   "(the other ordering gives %s)" % ("success too" if r[1] else "UncoordinatedWriteError"))
for b in bad: print("VIOLATION:", b)
sys.exit(1 if bad else 0)
