"""
C06 demo: a helper-assisted immutable upload reports success although the
shares it found have servers-of-happiness 1 and the configured threshold is 7.

Grid: 10 real StorageServers, encoding 3-of-10, happy=7.  All 10 shares of the
file already sit on ONE server (left there by an earlier upload made with
happy=1 when only that server was reachable); the other 9 servers are full.
  * direct upload (CHKUploader)            -> UploadUnhappinessError (correct)
  * upload through the helper (real Helper + real AssistedUploader, which is
    what Uploader.upload() uses when [client]helper.furl is set)
                                            -> reports SUCCESS, happiness 1 < 7
Run: PYTHONPATH=/tmp/wt/C06h/src:/tmp/shims /venv/bin/python demo.py
"""
import os, sys, shutil, tempfile, hashlib
from allmydata.util import cputhreadpool
cputhreadpool._DISABLED = True
from twisted.internet import defer, task
from twisted.python import failure
from foolscap import eventual
from allmydata.immutable import upload, offloaded
from allmydata.interfaces import UploadUnhappinessError
from allmydata.storage.server import StorageServer, FoolscapStorageServer
from allmydata.util.happinessutil import servers_of_happiness

K, HAPPY, N = 3, 7, 10
DATA = b"C06 helper happiness demo. " * 100
CONVERGENCE = b"convergence-secret"

class Canary:                      # stands in for the RemoteReference of the canary
    def notifyOnDisconnect(self, cb, *a, **kw): return object()
    def dontNotifyOnDisconnect(self, marker): pass

class RRef:
    """In-memory remote reference: callRemote(name) -> target.remote_<name>()."""
    def __init__(self, target): self.target = target
    def callRemote(self, name, *args, **kw):
        try:
            if name == "allocate_buckets":
                args = args[:5] + (Canary(),)
            r = getattr(self.target, "remote_" + name)(*args, **kw)
            if name == "allocate_buckets":
                r = (r[0], {sh: RRef(bw) for sh, bw in r[1].items()})
            elif name == "get_buckets":
                r = {sh: RRef(br) for sh, br in r.items()}
            return r if isinstance(r, defer.Deferred) else defer.succeed(r)
        except Exception:
            return defer.fail(failure.Failure())

class StorageAPI:
    def __init__(self, rref): self.rref = rref
    def allocate_buckets(self, si, rs, cs, sharenums, size, canary):
        return self.rref.callRemote("allocate_buckets", si, rs, cs, sharenums, size, canary)
    def get_buckets(self, si):
        return self.rref.callRemote("get_buckets", si)

class Server:                      # minimal IServer
    def __init__(self, ss):
        self.ss = ss; self.serverid = ss.my_nodeid
        self.api = StorageAPI(RRef(FoolscapStorageServer(ss)))
    def get_serverid(self): return self.serverid
    def get_name(self): return self.serverid[:4].hex()
    def get_longname(self): return self.serverid.hex()
    def get_lease_seed(self): return self.serverid
    def get_version(self): return self.ss.get_version()
    def get_storage_server(self): return self.api
    def __repr__(self): return "<server %s>" % self.get_name()

class Broker:
    def __init__(self, servers): self.servers = servers
    def get_servers_for_psi(self, si, for_upload=False): return list(self.servers)
    def get_stub_server(self, serverid):
        return [s for s in self.servers if s.serverid == serverid][0]

class Secrets:
    def get_renewal_secret(self): return b"r" * 32
    def get_cancel_secret(self): return b"c" * 32

def settle():
    q = eventual._theSimpleQueue   # run foolscap's eventual-send queue by hand
    while q._events:
        q._turn()

def encrypted_uploadable(happy):
    u = upload.Data(DATA, CONVERGENCE)
    u.set_default_encoding_parameters({"k": K, "happy": happy, "n": N})
    return upload.EncryptAnUploadable(u)

def run(d):
    out = []
    d.addBoth(out.append)
    settle()
    assert out, "upload did not finish"
    return out[0]

def main():
    base = tempfile.mkdtemp(prefix="c06h-demo")
    clock = task.Clock()
    try:
        servers = []
        for i in range(10):
            nodeid = hashlib.sha1(b"server-%d" % i).digest()
            ss = StorageServer(os.path.join(base, "s%d" % i), nodeid,
                               readonly_storage=(i != 0), clock=clock)
            servers.append(Server(ss))
        secrets = Secrets()

        # 0. earlier upload, happy=1, only server 0 reachable: all 10 shares on it
        r0 = run(upload.CHKUploader(Broker(servers[:1]), secrets, reactor=clock)
                 .start(encrypted_uploadable(happy=1)))
        assert isinstance(r0, upload.UploadResults), r0
        print("pre-existing layout: %d shares, all on %s" % (r0.get_pushed_shares(), servers[0]))

        broker = Broker(servers)
        # 1. direct upload to the full grid, happy=7
        r1 = run(upload.CHKUploader(broker, secrets, reactor=clock)
                 .start(encrypted_uploadable(happy=HAPPY)))
        if isinstance(r1, failure.Failure) and r1.check(UploadUnhappinessError):
            print("direct upload : UploadUnhappinessError (as the property requires)")
        else:
            print("direct upload : unexpected result %r" % (r1,))

        # 2. same upload through the helper
        helper = offloaded.Helper(os.path.join(base, "helper"), broker, secrets, None, None)
        eu = encrypted_uploadable(happy=HAPPY)
        si = run(eu.get_storage_index())
        r2 = run(upload.AssistedUploader(RRef(helper), broker).start(eu, si))
        if isinstance(r2, failure.Failure):
            print("helper upload : failed with %s (no violation)" % r2.type.__name__)
            return 0
        sharemap = {sh: {s.get_serverid() for s in srvs} for sh, srvs in r2.get_sharemap().items()}
        h = servers_of_happiness(sharemap)
        print("helper upload : reported SUCCESS: preexisting=%s pushed=%s, shares on servers %s"
              % (r2.get_preexisting_shares(), r2.get_pushed_shares(),
                 sorted({s.get_name() for v in r2.get_sharemap().values() for s in v})))
        # ground truth from the disks
        disk = {}
        for s in servers:
            for sh, _ in s.ss.get_shares(si):
                disk.setdefault(sh, set()).add(s.serverid)
        hd = servers_of_happiness(disk)
        print("servers-of-happiness of reported layout = %d, of shares actually on disk = %d, "
              "configured threshold = %d" % (h, hd, HAPPY))
        if max(h, hd) < HAPPY:
            print("VIOLATION: upload reported success with happiness %d < happy=%d" % (max(h, hd), HAPPY))
            return 1
        return 0
    finally:
        shutil.rmtree(base, ignore_errors=True)

if __name__ == "__main__":
    sys.exit(main())
