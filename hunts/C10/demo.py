"""
C10 hunt demo: tampering ONLY the unsigned offset table of k (=3) of the N (=10)
shares of a mutable file makes every read fail, although 7 intact shares of the
newest published version are reachable.

Run:  PYTHONPATH=/tmp/wt/C10h/src:/tmp/shims /venv/bin/python /tmp/wt/C10h/_hunt/demo.py
exit 1 = violation reproduced, exit 0 = not reproduced.
"""
import os, sys, struct, hashlib, shutil, tempfile

from twisted.internet import defer, task
from twisted.python import failure
from foolscap.api import RemoteException

from allmydata.util import cputhreadpool
cputhreadpool._DISABLED = True

from allmydata.storage.server import StorageServer, FoolscapStorageServer
from allmydata.storage.mutable import MutableShareFile
from allmydata.storage.common import storage_index_to_dir
from allmydata.storage_client import _StorageServer
from allmydata.mutable.filenode import MutableFileNode
from allmydata.mutable.publish import MutableData
from allmydata.mutable.layout import SIGNED_PREFIX_LENGTH, MDMFHEADERWITHOUTOFFSETSSIZE
from allmydata.interfaces import SDMF_VERSION, MDMF_VERSION
from allmydata.crypto import rsa
from allmydata.util import hashutil

K, N = 3, 10


class FakeRref:
    """callRemote(name, *args) -> remote_<name>(*args) on a real
    FoolscapStorageServer; server-side exceptions come back as
    RemoteException, as they do over foolscap."""
    def __init__(self, target):
        self.target = target
    def callRemote(self, name, *args, **kwargs):
        def _call():
            return getattr(self.target, "remote_" + name)(*args, **kwargs)
        d = defer.maybeDeferred(_call)
        d.addErrback(lambda f: failure.Failure(RemoteException(f)))
        return d


class FakeServer:
    def __init__(self, basedir, i):
        self.serverid = hashlib.sha1(b"server%d" % i).digest()
        self.storedir = os.path.join(basedir, "s%d" % i)
        self.ss = StorageServer(self.storedir, self.serverid)
        self.rref = FakeRref(FoolscapStorageServer(self.ss))
        self.istorage = _StorageServer(get_rref=lambda: self.rref)
    def get_serverid(self): return self.serverid
    def get_name(self): return b"srv" + self.serverid.hex()[:4].encode()
    def get_longname(self): return self.get_name()
    def get_lease_seed(self): return self.serverid
    def get_foolscap_write_enabler_seed(self): return self.serverid
    def get_storage_server(self): return self.istorage
    def upload_permitted(self): return True
    def sharefile(self, si, shnum):
        return os.path.join(self.storedir, "shares", storage_index_to_dir(si), "%d" % shnum)
    def shnums(self, si):
        d = os.path.join(self.storedir, "shares", storage_index_to_dir(si))
        return sorted(int(x) for x in os.listdir(d)) if os.path.isdir(d) else []


class FakeBroker:
    def __init__(self, servers): self.servers = servers
    def get_servers_for_psi(self, si):
        return sorted(self.servers, key=lambda s: hashlib.sha256(si + s.serverid).digest())


class Secrets:
    def get_renewal_secret(self): return hashutil.my_renewal_secret_hash(b"lease")
    def get_cancel_secret(self): return hashutil.my_cancel_secret_hash(b"lease")


def tamper_share_data_offset(path, version):
    """As the operator of a storage server: add 1 to the 'share_data' entry of the
    share's offset table.  Nothing else in the share is touched: the signed prefix,
    signature, verification key, hash chains and blocks all stay as published."""
    with open(path, "r+b") as f:
        if version == SDMF_VERSION:   # offsets ">LLLLQQ": sig, shc, bht, share_data, ...
            pos, fmt = MutableShareFile.DATA_OFFSET + SIGNED_PREFIX_LENGTH + 12, ">L"
        else:                         # MDMF offsets ">QQQQQQQQ": ..., share_data is 6th
            pos, fmt = MutableShareFile.DATA_OFFSET + MDMFHEADERWITHOUTOFFSETSSIZE + 40, ">Q"
        f.seek(pos)
        (old,) = struct.unpack(fmt, f.read(struct.calcsize(fmt)))
        f.seek(pos)
        f.write(struct.pack(fmt, old + 1))
    return old


@defer.inlineCallbacks
def scenario(version, label, contents):
    basedir = tempfile.mkdtemp(prefix="c10h")
    try:
        servers = [FakeServer(basedir, i) for i in range(N)]
        broker = FakeBroker(servers)
        keypair = rsa.create_signing_keypair(2048)
        keypair = (keypair[1], keypair[0])      # (pubkey, privkey)
        writer = MutableFileNode(broker, Secrets(), {"k": K, "n": N}, None)
        yield writer.create_with_keys(keypair, MutableData(contents), version=version)
        si = writer.get_storage_index()

        # a separate reader that only holds the read-cap
        reader = MutableFileNode(broker, Secrets(), {"k": K, "n": N}, None)
        reader.init_from_cap(writer.get_readcap())
        got = yield reader.download_best_version()
        assert got == contents, "baseline read failed"

        # tamper the offset table of exactly K shares (on K different servers)
        # (the K servers that come first in the permuted order for this file, i.e.
        # the ones every reader asks first)
        where = [(s, sh) for s in broker.get_servers_for_psi(si) for sh in s.shnums(si)]
        assert len(where) == N, where
        for (s, sh) in where[:K]:
            tamper_share_data_offset(s.sharefile(si, sh), version)
        print("%s: %d shares published, offset table tampered in %d of them (shnums %s); "
              "%d intact shares remain (k=%d)"
              % (label, N, K, [sh for (_, sh) in where[:K]], N - K, K))

        reader2 = MutableFileNode(broker, Secrets(), {"k": K, "n": N}, None)
        reader2.init_from_cap(writer.get_readcap())
        try:
            got = yield reader2.download_best_version()
        except Exception as e:
            print("%s: READ FAILED: %s: %s" % (label, e.__class__.__name__, str(e)[:230]))
            return True
        if got != contents:
            print("%s: READ RETURNED OTHER BYTES" % label)
            return True
        print("%s: read ok" % label)
        return False
    finally:
        shutil.rmtree(basedir, ignore_errors=True)


@defer.inlineCallbacks
def main(reactor):
    bad = []
    r = yield scenario(SDMF_VERSION, "SDMF", b"published contents, version one " * 20)
    bad.append(r)
    r = yield scenario(MDMF_VERSION, "MDMF", b"published contents, version one " * 20)
    bad.append(r)
    if any(bad):
        print("VIOLATION: >=k intact shares of the newest version are reachable, "
              "but the read fails")
        os._exit(1)
    print("no violation")
    os._exit(0)


if __name__ == "__main__":
    from twisted.internet import reactor as _r
    _r.callLater(55, lambda: (print("timeout"), os._exit(0)))
    task.react(main)
