"""
C22 hunt: over the HTTP storage protocol (a caller of BucketWriter.write), a PATCH
that overlaps earlier data with different bytes is answered 409 CONFLICT, but the
part of its body that precedes the conflicting 64 KiB chunk has already been
stored and recorded as written.  Exit 1 if the rejected write changed stored data.
"""
import sys, tempfile, shutil
from base64 import b64encode
import cbor2
from twisted.internet.task import Clock
from twisted.web.http_headers import Headers
from treq.testing import StubTreq

import allmydata.util.cputhreadpool as ctp
ctp._DISABLED = True
from allmydata.storage.server import StorageServer
from allmydata.storage.http_server import HTTPServer

SWISS = b"swissnum"
SI = b"\x07" * 16
from allmydata.storage.common import si_b2a
SI_S = si_b2a(SI).decode()
SIZE = 100000
UP, RN, CN = b"u" * 32, b"r" * 32, b"c" * 32

tmp = tempfile.mkdtemp()
clock = Clock()
# twisted.web drives pull producers (used for the server's responses) with the
# global Cooperator; run it from our fake clock instead of a real reactor.
import twisted.internet.task as _task
_task._theCooperator = _task.Cooperator(scheduler=lambda c: clock.callLater(0.000001, c))
ss = StorageServer(tmp, b"n" * 20, clock=clock)
http = HTTPServer(clock, ss, SWISS)
treq = StubTreq(http.get_resource())

def result(d):
    out = []
    d.addBoth(out.append)
    for _ in range(2000):
        if out: break
        clock.advance(0.001); treq.flush()
    assert out, "request did not complete"
    if hasattr(out[0], "raiseException"): out[0].raiseException()
    return out[0]

def req(method, path, secrets=(), hdrs=None, data=None):
    h = Headers({"Authorization": [b"Tahoe-LAFS " + b64encode(SWISS)],
                 "Accept": ["application/cbor"]})
    for name, val in secrets:
        h.addRawHeader("X-Tahoe-Authorization", b"%s %s" % (name, b64encode(val)))
    for k, v in (hdrs or {}).items():
        h.addRawHeader(k, v)
    resp = result(treq.request(method, "http://127.0.0.1" + path, headers=h, data=data))
    body = result(resp.content())
    return resp.code, body

def patch(start, data):
    code, body = req("PATCH", "/storage/v1/immutable/%s/0" % SI_S,
                     [(b"upload-secret", UP)],
                     {"Content-Range": "bytes %d-%d/*" % (start, start + len(data) - 1)},
                     data)
    return code, (cbor2.loads(body) if body else None)

def stored(offset, length):
    """What the server holds for the in-progress share (server-side peek)."""
    (bw,) = ss._bucket_writers.values()
    return bw._sharefile.read_share_data(offset, length)

try:
    code, body = req("POST", "/storage/v1/immutable/" + SI_S,
                     [(b"lease-renew-secret", RN), (b"lease-cancel-secret", CN), (b"upload-secret", UP)],
                     {"Content-Type": "application/cbor"},
                     cbor2.dumps({"share-numbers": {0}, "allocated-size": SIZE}))
    assert code in (200, 201) and 0 in cbor2.loads(body)["allocated"], (code, body)

    c1, r1 = patch(70000, b"AAAA")
    print("1. PATCH [70000,70004)=AAAA       ->", c1, r1)
    assert c1 == 200
    before = stored(0, SIZE)

    c2, r2 = patch(0, b"B" * SIZE)       # overlaps AAAA with BBBB
    print("2. PATCH [0,%d)=B*  (conflicts)  -> %s" % (SIZE, c2))
    assert c2 == 409, "expected the overlapping write to be rejected"
    after = stored(0, SIZE)
    changed = sum(1 for a, b in zip(before, after) if a != b)
    print("   stored bytes changed by the REJECTED write:", changed)

    c3, r3 = patch(0, b"CCCC")           # never-accepted range now conflicts
    print("3. PATCH [0,4)=CCCC                ->", c3, "(no accepted write ever covered [0,4))")

    c4, r4 = patch(65536, b"D" * (70000 - 65536))
    c5, r5 = patch(70004, b"D" * (SIZE - 70004))
    print("4. fill [65536,70000) and [70004,%d) -> %s %s %s" % (SIZE, c4, c5, r5))
    visible = sorted(ss.get_buckets(SI))
    print("   share visible to readers:", visible)
    if visible:
        data = ss.get_buckets(SI)[0].read(0, SIZE)
        print("   share[0:8]=%r  count of 'B' bytes from the rejected write: %d" % (data[:8], data.count(b"B")))

    if changed or c3 == 409:
        print("VIOLATION: a write rejected with 409 CONFLICT stored %d bytes; "
              "they are now part of the share and block correct data" % changed)
        sys.exit(1)
    print("no violation")
    sys.exit(0)
finally:
    for bw in list(ss._bucket_writers.values()):
        bw.abort()
    shutil.rmtree(tmp, ignore_errors=True)
