"""
C25 demo: a single (failing) share-data write destroys leases on a mutable share.

MutableShareFile._change_container_size() zeroes the extra-lease block at its
old position *before* it has written it at the new position.  If the seek/write
to the new position fails (offset beyond the filesystem's per-file limit, EFBIG,
ENOSPC, quota, ...) the exception propagates, and every lease beyond the first
four is gone.  The offset used is legal: it is far below MutableShareFile.MAX_SIZE.

Exit 1 when leases are lost, 0 otherwise.
"""
import os, sys, shutil, tempfile, resource

from twisted.internet.task import Clock
from allmydata.storage.server import StorageServer
from allmydata.storage.mutable import MutableShareFile
from allmydata.storage import mutable_schema
from allmydata.storage.lease import LeaseInfo

HERE = os.path.dirname(os.path.abspath(__file__))
NLEASES = 7
RENEW = [bytes([0x10 + i]) * 32 for i in range(NLEASES)]
CANCEL = [bytes([0x80 + i]) * 32 for i in range(NLEASES)]
WE = b"w" * 32
SI = b"s" * 16


def known(share_path):
    """indices of the renew secrets that still match a lease in the container"""
    leases = list(MutableShareFile(share_path).get_leases())
    return sorted(i for i in range(NLEASES)
                  if any(l.is_renew_secret(RENEW[i]) for l in leases))


def attempt_write(do_write, path):
    """
    Try a big-offset write; first rely on the filesystem's own file size limit
    (ext4: 16 TiB), and if the filesystem accepts the offset and the leases are
    still there, emulate a per-file limit/quota with RLIMIT_FSIZE
    (Python ignores SIGXFSZ, so the write just fails with EFBIG).
    """
    big = 2 ** 50          # 1 PiB; MAX_SIZE is ~6.9e16 (~2**56), so this is legal
    assert big < MutableShareFile.MAX_SIZE
    try:
        do_write(big)
        print("   write at offset 2**50 succeeded")
    except BaseException as e:
        print("   write at offset 2**50 failed: %r" % (e,))
    if len(known(path)) < NLEASES:
        return
    print("   (filesystem has no small per-file limit; retrying under RLIMIT_FSIZE)")
    soft, hard = resource.getrlimit(resource.RLIMIT_FSIZE)
    resource.setrlimit(resource.RLIMIT_FSIZE, (os.path.getsize(path) + 4096, hard))
    try:
        do_write(2 ** 52)
        print("   write unexpectedly succeeded")
    except BaseException as e:
        print("   write at offset 2**52 failed: %r" % (e,))
    finally:
        resource.setrlimit(resource.RLIMIT_FSIZE, (soft, hard))


def server_level(tmp):
    """v2 container, everything through the StorageServer API."""
    clock = Clock()
    clock.advance(1_700_000_000)
    ss = StorageServer(os.path.join(tmp, "srv"), b"n" * 20, clock=clock)

    def writev(offset, data, who):
        return ss.slot_testv_and_readv_and_writev(
            SI, (WE, RENEW[who], CANCEL[who]),
            {0: ([], [(offset, data)], None)}, [])

    ok, _ = writev(0, b"share data", 0)          # creates the share + lease 0
    assert ok
    for i in range(1, NLEASES):                  # six more lease holders
        clock.advance(10)
        ss.add_lease(SI, RENEW[i], CANCEL[i])
    (shnum, path), = list(ss.get_shares(SI))
    before = known(path)
    print("server/v2: leases before write:", before)
    assert before == list(range(NLEASES))
    assert mutable_schema.schema_from_header(open(path, "rb").read(32)).version == 2

    clock.advance(10)
    attempt_write(lambda off: writev(off, b"x", 0), path)

    after = known(path)
    print("server/v2: leases after write: ", after)
    errs = []
    for i in sorted(set(before) - set(after)):
        try:
            ss.renew_lease(SI, RENEW[i])
            errs.append(i)
        except IndexError:
            pass
    assert not errs
    return before, after


def container_level(tmp):
    """v1 container, driven directly."""
    path = os.path.join(tmp, "v1share")
    v1 = [s for s in mutable_schema.ALL_SCHEMAS if s.version == 1][0]
    MutableShareFile(path, schema=v1).create(b"n" * 20, WE)
    sf = MutableShareFile(path)
    sf.writev([(0, b"share data")], None)
    for i in range(NLEASES):
        sf.add_or_renew_lease(10 ** 9, LeaseInfo(1, RENEW[i], CANCEL[i], 5000 + i, b"n" * 20))
    before = known(path)
    print("container/v1: leases before write:", before)
    attempt_write(lambda off: sf.writev([(off, b"x")], None), path)
    after = known(path)
    print("container/v1: leases after write: ", after)
    return before, after


def main():
    tmp = tempfile.mkdtemp(prefix="c25demo-", dir=HERE)
    try:
        lost = []
        for fn in (server_level, container_level):
            before, after = fn(tmp)
            if after != before:
                lost.append((fn.__name__, sorted(set(before) - set(after))))
    finally:
        shutil.rmtree(tmp, ignore_errors=True)
    if lost:
        print("VIOLATION: leases did not survive a share data write / container growth:", lost)
        sys.exit(1)
    print("no violation observed")
    sys.exit(0)


main()
