"""C21 demo: deep traversal visits shared LIT objects (empty/small immutable
directories, literal files) once PER LINK instead of once per object.

Run: PYTHONPATH=/tmp/wt/C21h/src:/tmp/shims /venv/bin/python demo.py
Real code used: NodeMaker, DirectoryNode (deep_traverse, ManifestWalker,
DeepStats, DeepChecker), MutableFileNode publish/retrieve, Uploader (LIT path),
StorageServer.  Only the foolscap remote references are faked (in-process).
"""
import sys, os, tempfile, collections
from twisted.internet import defer, task
from twisted.application import service
from allmydata.util import cputhreadpool
cputhreadpool._DISABLED = True
from allmydata import client
from allmydata.nodemaker import NodeMaker
from allmydata.interfaces import SDMF_VERSION, IDirectoryNode
from allmydata.util import base32
from allmydata.util.hashutil import tagged_hash
from allmydata.storage_client import StorageFarmBroker
from allmydata.storage.server import StorageServer, FoolscapStorageServer
from allmydata.node import config_from_string
from allmydata.immutable.upload import Uploader, Data


class LocalRef:
    """In-process stand-in for a foolscap RemoteReference."""
    def __init__(self, target):
        self.t = target
    def callRemote(self, name, *a, **k):
        return defer.maybeDeferred(getattr(self.t, "remote_" + name), *a, **k)
    def callRemoteOnly(self, name, *a, **k):
        self.callRemote(name, *a, **k).addErrback(lambda f: None)
    def notifyOnDisconnect(self, *a, **k):
        return 0
    def dontNotifyOnDisconnect(self, *a):
        pass


class FakeClientParent(service.MultiService):
    """What Uploader needs from its parent (the Client)."""
    def __init__(self, sb, sh):
        service.MultiService.__init__(self)
        self._sb, self._secret_holder = sb, sh
    def get_encoding_parameters(self):
        return {"k": 1, "happy": 1, "n": 3, "max_segment_size": 128 * 1024}
    def get_storage_broker(self):
        return self._sb


def make_nodemaker():
    base = tempfile.mkdtemp(prefix="c21h-")
    sb = StorageFarmBroker(True, None, config_from_string("/dev/null", "tub.port", ""))
    for i in range(3):
        peerid = base32.b2a(tagged_hash(b"peerid", b"%d" % i)[:20])
        ss = StorageServer(os.path.join(base, "s%d" % i), peerid[:20])
        ann = {"anonymous-storage-FURL": "pb://%s@nowhere/fake" % str(peerid, "utf-8"),
               "permutation-seed-base32": peerid}
        sb.test_add_rref(peerid, LocalRef(FoolscapStorageServer(ss)), ann)
    sh = client.SecretHolder(b"lease secret", b"convergence secret")
    parent = FakeClientParent(sb, sh)
    up = Uploader()
    up.setServiceParent(parent)
    parent.startService()
    return NodeMaker(sb, sh, None, up, None, {"k": 1, "n": 3}, SDMF_VERSION,
                     client.KeyGenerator())


def ident(node):
    """Object identity: the verify cap; LIT objects have none, their cap *is* the object."""
    v = node.get_verify_cap()
    return v.to_string() if v is not None else node.get_uri()


@defer.inlineCallbacks
def main(reactor):
    nm = make_nodemaker()
    root = yield nm.create_new_mutable_directory()
    A = yield root.create_subdirectory("A")
    B = yield root.create_subdirectory("B")
    # control: an ordinary mutable directory shared between A and B, plus a cycle
    M = yield A.create_subdirectory("shared-mutable")
    yield B.set_uri("shared-mutable", None, M.get_readonly_uri())   # via read-cap
    yield M.set_node("back-to-root", root)                           # cycle
    # the case: an EMPTY IMMUTABLE directory (what mkdir-immutable of {} gives)
    E = yield nm.create_immutable_directory({})
    # a small immutable directory holding one small file, and a small file
    note = yield A.add_file("note", Data(b"hi", None))
    S = yield nm.create_immutable_directory({"k": (note, {})})
    for P in (A, B):
        yield P.set_node("empty-imm", E)
        yield P.set_node("small-imm", S)
    yield B.set_node("note", note)
    print("empty immutable dir cap:", E.get_uri(), " small one:", S.get_uri())

    # oracle: every distinct object reachable from root (plain BFS on list())
    reach, todo = {}, [root]
    while todo:
        n = todo.pop()
        if ident(n) in reach:
            continue
        reach[ident(n)] = n
        if IDirectoryNode.providedBy(n):
            todo.extend(c for (c, md) in (yield n.list()).values())
    ndirs = sum(1 for n in reach.values() if IDirectoryNode.providedBy(n))
    nfiles = len(reach) - ndirs
    print("reachable distinct objects: %d directories, %d files" % (ndirs, nfiles))

    bad = []
    res = yield root.build_manifest().when_done()
    visits = collections.Counter()
    for path, cap in res["manifest"]:
        node = yield root.get_child_at_path(list(path))
        assert node.get_uri() == cap, (path, cap)      # paths do lead to the object
        visits[ident(node)] += 1
        print("  manifest: %-28s %s" % ("/".join(path) or "<root>", str(cap[:30], "ascii")))
    for k, n in sorted(visits.items()):
        if n != 1:
            bad.append("manifest lists object %r %d times" % (k, n))
    stats = yield root.start_deep_stats().when_done()
    if stats["count-directories"] != ndirs:
        bad.append("deep-stats count-directories=%d, but %d distinct directories are reachable"
                   % (stats["count-directories"], ndirs))
    if stats["count-files"] != nfiles:
        bad.append("deep-stats count-files=%d, but %d distinct files are reachable"
                   % (stats["count-files"], nfiles))
    dc = yield root.start_deep_check().when_done()
    if dc.get_stats()["count-directories"] != ndirs:
        bad.append("deep-check stats count-directories=%d, expected %d"
                   % (dc.get_stats()["count-directories"], ndirs))
    if visits[ident(M)] == 1:
        print("control: the shared *mutable* directory (rw + ro link, with a cycle) is visited once")
    if bad:
        print("C21 VIOLATED:")
        for b in bad:
            print("  -", b)
        sys.stdout.flush()
        os._exit(1)
    print("ok: every reachable object visited exactly once")

task.react(main)
