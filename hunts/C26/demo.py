"""
C26 demo: the lease crawler identifies the leases it wants to drop by their
*cancel secret* (expirer.py process_share -> sf.cancel_lease(li.cancel_secret)),
and cancel_lease() removes EVERY lease carrying that secret.  Two leases with
different renew secrets but the same cancel secret are therefore not
independent: expiring the old one also destroys the fresh one, and the share is
unlinked although one of its leases is still valid.

Run: PYTHONPATH=/tmp/wt/C26h/src:/tmp/shims /venv/bin/python _hunt/demo.py
"""
import os, sys, time, shutil, tempfile, struct, traceback
from unittest import mock
from allmydata.storage.server import StorageServer
from allmydata.storage.shares import get_share_file
from allmydata.storage.common import storage_index_to_dir

DAY = 86400
NOW = 1_600_000_000.0 + 100 * DAY


class Clock:
    t = NOW
    def seconds(self): return self.t
    def callLater(self, *a, **k):
        class DC:
            def cancel(s): pass
            def reset(s, x): pass
            def active(s): return False
        return DC()


clock = Clock()
failures = []


def mk_imm(ss, si, rs, cs):
    _, writers = ss.allocate_buckets(si, rs, cs, [0], 100)
    writers[0].write(0, b"x" * 100)
    writers[0].close()


def mk_mut(ss, si, rs, cs, renew=True):
    ss.slot_testv_and_readv_and_writev(
        si, (b"w" * 32, rs, cs), {0: ([], [(0, b"y" * 100)], None)}, [],
        renew_leases=renew)


def path(ss, si):
    return os.path.join(ss.sharedir, storage_index_to_dir(si), "0")


def crawl(ss):
    lc = ss.lease_checker
    lc.cpu_slice = 1e12          # whole cycle in one synchronous slice
    lc.start_current_prefix(time.time())


def server(d, **kw):
    return StorageServer(d, b"n" * 20, expiration_enabled=True, clock=clock, **kw)


def scenario_A(kind, same_cancel=True, **policy):
    """lease 1 (R1,C) renewed 40 days ago, lease 2 (R2,C) renewed 1 day ago."""
    d = tempfile.mkdtemp()
    try:
        ss = server(d, **policy)
        si = b"A" * 16
        C = b"c" * 32
        clock.t = NOW - 40 * DAY
        (mk_imm if kind == "immutable" else mk_mut)(ss, si, b"1" * 32, C)
        clock.t = NOW - 1 * DAY
        ss.add_lease(si, b"2" * 32, C if same_cancel else b"e" * 32)   # different renew secret: a 2nd lease
        clock.t = NOW
        fn = path(ss, si)
        leases = list(get_share_file(fn).get_leases())
        ages = [round(l.get_age() / DAY) for l in leases]
        assert len(leases) == 2, leases
        crawl(ss)
        gone = not os.path.exists(fn)
        print("A[%s %s %s] lease ages (days) %s -> share %s" % (
            kind, "same-cancel-secret" if same_cancel else "CONTROL distinct-cancel-secrets", policy, ages, "DELETED" if gone else "kept"))
        if gone:
            failures.append("A/%s: share with a 1-day-old lease was deleted" % kind)
    finally:
        shutil.rmtree(d, ignore_errors=True)


def scenario_B():
    """two expired leases sharing a cancel secret + one valid lease: the second
    cancel_lease() finds nothing and raises; the crawl cycle is aborted and a
    fully expired share later in the ring survives the cycle."""
    d = tempfile.mkdtemp()
    try:
        ss = server(d, expiration_mode="age")
        first, later = b"\xff" * 16, b"\x00" * 16   # "7777.." sorts before "aaaa.."
        C = b"c" * 32
        clock.t = NOW - 40 * DAY
        mk_imm(ss, first, b"1" * 32, C)
        ss.add_lease(first, b"2" * 32, C)
        mk_imm(ss, later, b"7" * 32, b"8" * 32)        # plain share, fully expired
        clock.t = NOW - 1 * DAY
        ss.add_lease(first, b"3" * 32, b"d" * 32)
        clock.t = NOW
        err = None
        try:
            crawl(ss)
        except Exception as e:
            err = e
        survived = os.path.exists(path(ss, later))
        print("B crawl raised %r; fully expired share later in the ring %s" % (
            err, "SURVIVED the cycle" if survived else "deleted"))
        if err is not None or survived:
            failures.append("B: crawl aborted by %s; expired share later in ring %s" % (type(err).__name__, "not deleted" if survived else "deleted"))
    finally:
        shutil.rmtree(d, ignore_errors=True)


def scenario_C():
    """secondary: a share with zero leases (all of its leases are, vacuously,
    expired) is counted as recovered but never unlinked."""
    d = tempfile.mkdtemp()
    try:
        ss = server(d, expiration_mode="age")
        si = b"Z" * 16
        mk_mut(ss, si, b"1" * 32, b"2" * 32, renew=False)   # server API: no lease added
        fn = path(ss, si)
        assert len(list(get_share_file(fn).get_leases())) == 0
        crawl(ss)
        h = ss.lease_checker.get_state()["history"]
        rec = list(h.values())[-1]["space-recovered"]
        kept = os.path.exists(fn)
        print("C zero-lease mutable share: %s; crawler reports actual-shares=%d" % (
            "KEPT" if kept else "deleted", rec["actual-shares"]))
        if kept:
            failures.append("C: zero-lease share not deleted (reported actual-shares=%d)" % rec["actual-shares"])
    finally:
        shutil.rmtree(d, ignore_errors=True)


with mock.patch("time.time", lambda: clock.t):
    scenario_A("immutable", same_cancel=False, expiration_mode="age")
    scenario_A("immutable", expiration_mode="age")
    scenario_A("mutable", expiration_mode="age")
    scenario_A("immutable", expiration_mode="age", expiration_override_lease_duration=10 * DAY)
    scenario_A("immutable", expiration_mode="cutoff-date", expiration_cutoff_date=int(NOW - 20 * DAY))
    scenario_B()
    scenario_C()

if failures:
    print("VIOLATION of C26:")
    for f in failures:
        print("  -", f)
    sys.exit(1)
print("ok: no violation")
sys.exit(0)
